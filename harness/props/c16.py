"""C16 — the Tabor device program plays the quantised source program.

Inputs: a Loop tree (built directly from waveforms of TablePT/ConstantPT templates, or through create_program of
Sequence/Repetition templates), a Tabor configuration (channel / marker assignment incl. None, amplitudes, offsets,
affine voltage transformations, min/max sequence length, mode).  Observation: get_sampled_segments() as uploaded
binary, get_sequencer_tables(), get_advanced_sequencer_table(), waveform_mode — or the fact that TaborProgram raised.
The leaf samples given to Coq are computed by this harness from the table entries (exact Fractions), never by qupulse.
"""
import fractions
import itertools
import os
import warnings

import vlib
from vlib import gZ, gQ, gbool, gopt, glist
from props import c16_families

F = fractions.Fraction
PID = 'C16'
COQ_DIRS = ['common', 'C16']
TARGETS = ['C16/Props.vo', 'C16/Corr.vo']
MODEL_TARGETS = ['C16/Corr.vo']
PROPS_FILE = 'C16/Props.v'
PROPS_MODULE = 'QV.C16.Props'
CORR_IMPORTS = ['QV.C16.Model', 'QV.C16.Spec', 'QV.C16.Corr']
CHECK_CORR = 'check_corr'
CHECK_SPEC = 'check_spec'
SHARD = 40
RULE = ('program trees of depth 0..4 (balanced and unbalanced, repetition counts 1..4, measurement flags, volatile counts '
        'in ~30% of the cases + targeted trees for every volatile-specific branch) over 1..4 '
        'leaf waveforms built from TablePT (hold / linear entries) or ConstantPT, every leaf defining the same channel '
        'set; leaf lengths mostly multiples of 16 >= 192 samples plus a deliberately incompatible stream (too short, '
        'not a multiple of 16, half-integer); channel and marker assignment incl. None and the same channel twice; '
        'amplitudes (powers of two and 16383*2^-k to reach rounding ties), offsets, affine voltage transformations; '
        'voltages on range boundaries and out of range; min_seq_len 1..6, max_seq_len min..min+6 (forces merging, '
        'partial unrolling, neighbour unrolling, rejections); mode auto / single / advanced; wrong tuple lengths.  '
        'Half of the programs are built through create_program of Sequence/Repetition templates.  Thorough tier adds '
        'all trees with <= 4 nodes x repetition counts {1,2,3} x limits {1,2,3} and all trees with <= 3 nodes x counts '
        '{1,2} x every volatile subset x limits.  Plus 16 DETERMINISTIC families (c16_families.py), one per input class '
        'the random stream is blind to: a once-played short table next to a repeated one (limits on the boundaries of '
        'every neighbour test); one long piece + one piece of 16..176 samples / not a multiple of 16, at every position, '
        'incl. never-played bad waveforms; X,Y,X / X,Y,Z,Y,X table and waveform patterns; marker levels (negative, '
        'fractional; even / odd / first / last sample); markers on analog channels; per-channel amplitude / offset / '
        'transformation / source (same source twice, crosswise); None outputs with both markers; sample rates that '
        'put the length on 192, multiples of 16 and one step beside (rates 2..1/8, 3, 3/2, 3/4, 5/4, 5); the SAME Loop '
        'compiled twice (read back after the first compilation); falsy channel ids (0), swap mapping, linearly mixed '
        'channels (TransformingWaveform), measurements=[]; round 4: one source id on both outputs with different amplitude / '
        'offset / transformation; repeated pieces with the limits between #distinct and #entries (single, auto, advanced); '
        'float durations a hair beside an integer sample count (inside / outside the 1e-10 tolerance, a piece that rounds to 0); '
        'measurements on a node and its single child; the compiled-twice family and 10 % of the random direct builds '
        'also with VOLATILE counts (property terms read back from the Loop); round 5: a short table extended by a peeled '
        'iteration of a short repeated neighbour and then by split_one_child (aliasing between neighbour tables, seed C16-8); '
        'round 6: sample rates whose period is not a binary fraction (11/5, 7/4, 23/10, 9/5, 6/5 ...; sample times are rounded '
        'doubles) with a hold step on EVERY sample index and a marker toggle on every marker sample (seed C16-10); the '
        'near-integer pieces now carry their exact length into Coq (model and Spec.spec_tol decide the tolerance).  '
        'Non-trivial = accepted program '
        'with more than one table entry or a restructured tree; distinct = canonical JSON of the case.')
TRUSTED = [
    'Coq 8.16.1 kernel + vm_compute (no native_compute)',
    'numpy float arithmetic is exact on the generated dyadic voltages / amplitudes (binary64 rounding is not modelled)',
    'Waveform.__eq__/__hash__ after get_subset_for_channels: its equality classes are an INPUT of the model (wf_cls)',
    'Waveform.get_sampled of Table/Constant/MultiChannel waveforms (C08): the specification uses samples computed by the harness from the table entries',
    'translate/py2gallina_c16.py: the declared observations (python expression -> variable) and the collection of tests in source order; the actions between the tests (what a branch does to the Loop objects) are tied by the correspondence check only',
    'harness: generators, exact float->rational conversion, Gallina printers, run-length encoding, memoised samples; for the "compiled twice" family the tree is read back from the Loop by waveform identity and the volatile counts by the structure of their expression / scope (vprop_of)',
    'translate/py2gallina_c16.py FuncStateTranslator: the schema (which locals are mutable state and their types; Loop observations .repetition_definition = (count, property), _get_used_waveform = class lookup; OrderedDict = association list in insertion order as defined in coq/C16/GenLibParse.v)',
    'near-integer piece lengths: the exact duration of the waveform object is read from the implementation (input of the model, like the equality classes); round 6: whether it is within the 1e-10 tolerance of its nominal sample count is decided in Coq (model: waveform_length; specification: Spec.snap / spec_tol, theorem C16_plays_within_tolerance), no longer by the harness',
    'family step_on_sample: table entry times that are not binary fractions are given to TablePT as exact rational expressions (a Python float would be cut to 15 significant digits on its way through sympy and the step would not lie on the sample)',
    'MappingPT / build_waveform channel mapping and TransformingWaveform(LinearTransformation) are sampled by qupulse; the specification side uses the harness\' own samples (linear combinations computed exactly)',
    'the instrument driver hardware/awgs/tabor.py is not importable offline; its table layout (idle table first, numbers + 1) is re-created by the harness for PlottableProgram',
]
ASSUMPTIONS = [
    'repetition counts >= 0 (count 0 only in directly built trees: create_program drops such repetitions), volatile counts = flag + current value (what an update does is C15), parent indices of the Loop tree are consistent (no prior reverse_inplace)',
    'voltage transformations are affine maps with dyadic coefficients; amplitude > 0',
    'every leaf defines all assigned channels; C16_plays assumes leaf lengths that are exact integers; C16_plays_within_tolerance (round 6) covers every length within the 1e-10 tolerance of its sample count, in exact rational arithmetic (the float evaluation of the deviation inside get_waveform_length is tested: family near_integer)',
]

GEN_FILE = os.path.join(vlib.COQ, 'C16', 'Gen_tabor.v')
# the decisions of the Tabor compiler taken from the current source (translate/py2gallina_c16.py): function, declared
# observations (python expression, Gallina variable, type), expected number of if / elif / while / assert tests
GEN_SPEC = [
    ('_check_merge_with_next', [
        ('program[n].repetition_count', 'ra', 'Z'), ('program[n + 1].repetition_count', 'rb', 'Z'),
        ('program[n].volatile_repetition is None', 'va_none', 'bool'),
        ('program[n + 1].volatile_repetition is None', 'vb_none', 'bool'),
        ('len(program[n])', 'la', 'Z'), ('len(program[n + 1])', 'lb', 'Z'), ('max_seq_len', 'mx', 'Z')], 1),
    ('_check_partial_unroll', [
        ('st.volatile_repetition', 'vol', 'bool'),
        ('sum((entry.repetition_count for entry in st))', 's', 'Z'), ('st.repetition_count', 'r', 'Z'),
        ('len(st)', 'ln', 'Z'), ('min_seq_len', 'mn', 'Z')], 4),
    ('prepare_program_for_advanced_sequence_mode', [
        ('i', 'i', 'Z'), ('len(program)', 'n', 'Z'),
        ('len(program[i])', 'lc', 'Z'), ('len(program[i - 1])', 'lp', 'Z'), ('len(program[i + 1])', 'lnx', 'Z'),
        ('program[i].repetition_count', 'rc', 'Z'), ('program[i - 1].repetition_count', 'rp', 'Z'),
        ('program[i + 1].repetition_count', 'rn', 'Z'),
        ('program[i].volatile_repetition is None', 'vc_none', 'bool'),
        ('program[i - 1].volatile_repetition', 'vp', 'bool'), ('program[i + 1].volatile_repetition', 'vn', 'bool'),
        ('_check_merge_with_next(program, i - 1, max_seq_len=max_seq_len)', 'merge_prev', 'bool'),
        ('_check_merge_with_next(program, i, max_seq_len=max_seq_len)', 'merge_next', 'bool'),
        ('_check_partial_unroll(program, i, min_seq_len=min_seq_len)', 'partial', 'bool'),
        ('min_seq_len', 'mn', 'Z'), ('max_seq_len', 'mx', 'Z')], 13),
    ('TaborProgram._calc_sampled_segments', [
        ('waveform_samples', 'n', 'Z'), ('len(segment_a)', 'lsa', 'Z'), ('len(segment_b)', 'lsb', 'Z'),
        ('len(t)', 'lt', 'Z'), ('segment_idx', 'si', 'Z'), ('previous_segment_count', 'pc', 'Z')], 4),
]
GEN_SPEC += [
    ('TaborProgram.__init__', [
        ('len(channels)', 'nchan', 'Z'), ('len(markers)', 'nmark', 'Z'), ("device_properties['chan_per_part']", 'cpp', 'Z'),
        ('program.repetition_count', 'r', 'Z'), ('program.volatile_repetition is not None', 'vol', 'bool'),
        ('program.depth()', 'd', 'Z'), ('mode is None', 'mode_none', 'bool'),
        ('mode in (TaborSequencing.ADVANCED, TaborSequencing.SINGLE)', 'mode_valid', 'bool'),
        ('mode == TaborSequencing.SINGLE', 'mode_single', 'bool')], 7),
    ('TaborProgram.setup_single_sequence_mode', [
        ('self.program.depth()', 'd', 'Z'), ('self.program.is_balanced()', 'bal', 'bool'),
        ('max_seq_len is not None', 'mx_given', 'bool'), ('len(self.program)', 'ln', 'Z'), ('max_seq_len', 'mx', 'Z')], 3),
    ('TaborProgram.setup_advanced_sequence_mode', [
        ('self.program.depth()', 'd', 'Z'), ('self.program.repetition_count', 'r', 'Z'),
        ('len(sequence_table)', 'ln', 'Z'), ('min_seq_len', 'mn', 'Z'), ('max_seq_len', 'mx', 'Z')], 4),
]


GEN_FILE_PARSE = os.path.join(vlib.COQ, 'C16', 'Gen_parse.v')
GEN_FILE_LOOP = os.path.join(vlib.COQ, 'C16', 'Gen_loop.v')
GEN_SPEC_LOOP = [
    ('Loop.flatten_and_balance', [
        ('i', 'i', 'Z'), ('len(self)', 'n', 'Z'), ('sub_program.depth()', 'sd', 'Z'), ('depth', 'd', 'Z'),
        ('sub_program.is_balanced()', 'bal', 'bool'),
        ('sub_program._has_single_child_that_can_be_merged()', 'mergeable', 'bool'),
        ('sub_program.is_leaf()', 'leaf', 'bool')], 6),
    ('Loop.split_one_child', [
        ('child_index is not None', 'ci_given', 'bool'), ('child_index is None', 'ci_none', 'bool'), ('child_index', 'ci', 'Z'),
        ('self[child_index].repetition_count', 'rat', 'Z'), ('self[child_index].volatile_repetition', 'volat', 'bool'),
        ('child.repetition_count', 'cr', 'Z'), ('child.volatile_repetition', 'cvol', 'bool')], 8),
    ('Loop._has_single_child_that_can_be_merged!returns', [
        ('len(self)', 'n', 'Z'), ('self._measurements', 'meas', 'bool'), ('child.repetition_count', 'cr', 'Z'),
        ('child.volatile_repetition', 'cvol', 'bool')], 3),
]


def pregen(ctx):
    import sys
    sys.path.insert(0, os.path.join(vlib.VERIF, 'translate'))
    import py2gallina_c16
    out = []
    for rel, spec, target in (('qupulse/_program/tabor.py', GEN_SPEC, GEN_FILE),
                              ('qupulse/program/loop.py', GEN_SPEC_LOOP, GEN_FILE_LOOP)):
        ob = 'translate:%s::decisions(%s)' % (rel, ','.join(f.split('.')[-1].split('!')[0] for f, _, _ in spec))
        try:
            vlib.write_if_changed(target, py2gallina_c16.translate_decisions(os.path.join(vlib.REPO, rel), spec) + '\n')
            out.append({'name': ob, 'ok': True, 'detail': 'translated (%d tests)' % sum(n for _, _, n in spec)})
        except Exception as e:   # Unsupported, SyntaxError, ...
            out.append({'name': ob, 'ok': False, 'detail': 'translator refused the current source: %s' % e})
    # the bookkeeping of the two parsers, statement by statement (FuncStateTranslator)
    rel = 'qupulse/_program/tabor.py'
    ob = 'translate:%s::statements(parse_aseq_program,parse_single_seq_program)' % rel
    try:
        vlib.write_if_changed(GEN_FILE_PARSE, py2gallina_c16.translate_parsers(os.path.join(vlib.REPO, rel)) + '\n')
        out.append({'name': ob, 'ok': True, 'detail': 'translated (2 functions, 3 loops)'})
    except Exception as e:
        out.append({'name': ob, 'ok': False, 'detail': 'translator refused the current source: %s' % e})
    return out


CH_NAMES = ['A', 'B', 'M', 'N', 'X']
CH_ID = {n: i for i, n in enumerate(CH_NAMES)}
KF_SINGLE = 'single_mode_table_length_unchecked'


# ---------------------------------------------------------------------------------------------------------------------
# leaf descriptions: per channel a list of table entries [t_in_samples, value, interp]; first entry at 0

_SAMPLES_CACHE = {}


def entries_samples(entries, n):
    """exact samples at k = 0..n-1 of a table given in sample units (later entry wins at a junction); memoised (the
    same description is sampled for the Python oracle and for the Gallina printer); callers must not mutate the result"""
    key = (repr(entries), n)
    hit = _SAMPLES_CACHE.get(key)
    if hit is not None:
        return hit
    ent = [(F(e[0]), F(e[1]), e[2] if len(e) > 2 else None) for e in entries]
    out = []
    j = 0
    for k in range(n):
        while j + 1 < len(ent) - 1 and ent[j + 1][0] <= k:
            j += 1
        t0, v0, _ = ent[j]
        t1, v1, interp = ent[j + 1]
        if interp == 'hold':
            out.append(v0)
        elif interp == 'jump':
            out.append(v1)
        else:
            out.append(v0 + (v1 - v0) * (k - t0) / (t1 - t0))
    if len(_SAMPLES_CACHE) > 4000:
        _SAMPLES_CACHE.clear()
    _SAMPLES_CACHE[key] = out
    return out


def desc_channels(d):
    """output channels of a waveform description (with 'mix': linear combinations of the described inner channels)"""
    return sorted(d['mix']) if d.get('mix') else sorted(d['chans'])


def desc_samples(d, k, n):
    if d.get('mix'):
        terms = d['mix'][k]
        cols = [entries_samples(d['chans'][i], n) for _, i in terms]
        return [sum((F(c) * col[j] for (c, _), col in zip(terms, cols)), F(0)) for j in range(n)]
    return entries_samples(d['chans'][k], n)


def rle(xs):
    out = []
    for x in xs:
        if out and out[-1][0] == x:
            out[-1][1] += 1
        else:
            out.append([x, 1])
    return out


def gen_value(rng, rangeinfo, oor=False):
    """a dyadic voltage v such that a*v+b is inside [off-amp, off+amp] (or just outside when oor)"""
    if rangeinfo is None:
        return F(rng.randint(-32, 32), 64)
    amp, off, (a, b) = rangeinfo
    r = rng.random()
    if oor:
        u = off + amp + F(1, 64) if rng.random() < 0.5 else off - amp - F(1, 32)
    elif amp.numerator == 16383:
        k = amp.denominator.bit_length() - 1          # amp = 16383 / 2^k
        n = rng.randint(0, 16382)
        if r < 0.6:
            u = off - amp + F(2 * n + 1, 2 ** k)       # exact tie n + 1/2
        else:
            u = off - amp + F(2 * n, 2 ** k)
    elif r < 0.12:
        u = off + amp
    elif r < 0.24:
        u = off - amp
    elif r < 0.34:
        u = off                                        # 8191.5 -> 8192
    else:
        u = off + amp * F(rng.randint(-64, 64), 64)
    return (u - b) / a


def gen_channel_entries(rng, n, rangeinfo, marker, oor):
    """table entries in sample units for one channel of a leaf with n (integer) samples"""
    val = (lambda: F(rng.choice([0, 0, 1, 1, -1, F(1, 2)]))) if marker else (lambda: gen_value(rng, rangeinfo))
    kind = rng.random()
    v0 = val()
    if kind < 0.35 or n < 32:
        ent = [[0, v0], [n, v0, 'hold']]
    else:
        cuts = sorted(set(rng.choice([1, 2, 7, 8, 15, 16, 17, 31, 32, 64, 96, 100, 128, 191, n - 1, n // 2, n - 16])
                          for _ in range(rng.randint(1, 3))))
        cuts = [c for c in cuts if 0 < c < n]
        ent = [[0, v0]]
        prev_t = 0
        for c in cuts:
            if marker or rng.random() < 0.6:
                ent.append([c, val(), 'hold'])
            elif rng.random() < 0.5 and (c - prev_t) in (16, 32, 64, 128) and rangeinfo is not None \
                    and rangeinfo[0].numerator != 16383:
                ent.append([c, val(), 'linear'])
            else:
                ent.append([c, val(), 'jump'])
            prev_t = c
        ent.append([n, val() if rng.random() < 0.3 else ent[-1][1], 'hold'])
    if oor:
        i = rng.randrange(len(ent))
        ent[i][1] = gen_value(rng, rangeinfo, oor=True)
        if i + 1 < len(ent) and ent[i + 1][2] == 'linear':
            ent[i + 1][2] = 'hold'
    return [[e[0], str(F(e[1]))] + e[2:] for e in ent]


def gen_cfg(rng, defined):
    def pick(p_none):
        return None if rng.random() < p_none else rng.choice(defined)
    chans = [pick(0.2), pick(0.3)]
    marks = [pick(0.45), pick(0.55)]
    if all(c is None for c in chans + marks):
        chans[0] = defined[0]
    amps = [rng.choice([F(1), F(1), F(2), F(1, 2), F(4), F(16383, 16384), F(16383, 8192)]) for _ in range(2)]
    offs = [rng.choice([F(0), F(0), F(1, 4), F(-1, 2), F(1, 8)]) for _ in range(2)]
    trs = [rng.choice([(F(1), F(0)), (F(1), F(0)), (F(2), F(0)), (F(1), F(1, 4)), (F(-1), F(0)), (F(1, 2), F(-1, 8))])
           for _ in range(2)]
    mn = rng.choice([1, 2, 2, 3, 3, 3, 4, 6])
    mx = rng.choice([mn, mn + 1, mn + 2, mn + 2, mn + 3, mn + 3, mn + 6, mn + 6, 16, 16, 1000,
                     max(1, mn - 1) if rng.random() < 0.3 else 16])
    mode = rng.choice([None, None, None, None, None, None, 'advanced', 'single'])
    return {'channels': chans, 'markers': marks, 'amps': [str(a) for a in amps], 'offs': [str(o) for o in offs],
            'trafo': [[str(a), str(b)] for a, b in trs], 'min': mn, 'max': mx, 'mode': mode, 'cpp': 2}


def t_vol(t):
    """a tree node is [count, has measurements, waveform index | None, children (, volatile)]; volatile = True (a
    volatile parameter of its own, numbered in DFS order when printed) or the integer id of its VolatileProperty"""
    return len(t) > 4 and t[4] is not None and t[4] is not False


def gen_tree(rng, depth, nwf, top=True, pvol=0.0):
    vol = [True] if (pvol and rng.random() < pvol) else []
    if depth == 0:
        return [rng.choice([1, 1, 1, 2, 3, 4]), False, rng.randrange(nwf), []] + vol
    nch = rng.choice([1, 1, 2, 2, 3, 4])
    ch = []
    for _ in range(nch):
        d = depth - 1 if rng.random() < 0.65 else rng.randint(0, depth - 1)
        ch.append(gen_tree(rng, d, nwf, False, pvol))
    return [rng.choice([1, 1, 1, 2, 3]), rng.random() < 0.12, None, ch] + vol


def has_zero(t):
    return t[0] == 0 or any(has_zero(c) for c in t[3])


def zeroify(t, rng, p):
    t = list(t)
    if rng.random() < p:
        t[0] = 0
    t[3] = [zeroify(c, rng, p) for c in t[3]]
    return t


def any_vol(t):
    return t_vol(t) or any(any_vol(c) for c in t[3])


def tree_size(t):
    return 1 + sum(tree_size(c) for c in t[3])


def played_len(t):
    return t[0] * (1 if not t[3] else sum(played_len(c) for c in t[3]))


def gen_prog_case(rng, tier, force=None):
    force = force or {}
    defined = sorted(rng.sample(CH_NAMES, rng.randint(1, 4)))
    cfg = gen_cfg(rng, defined)
    cfg.update(force.get('cfg', {}))
    rate = rng.choice([F(1), F(1), F(2), F(1, 2), F(1, 4)])
    nwf = rng.randint(1, 4)
    bad_len = rng.random() < 0.12
    oor_case = rng.random() < 0.06
    rangeinfo = {}
    for i in (1, 0):
        if cfg['channels'][i] is not None:
            rangeinfo[cfg['channels'][i]] = (F(cfg['amps'][i]), F(cfg['offs'][i]),
                                             (F(cfg['trafo'][i][0]), F(cfg['trafo'][i][1])))
    wfs = []
    for w in range(nwf):
        if wfs and rng.random() < 0.25:
            # an equal copy of an earlier description, possibly differing on one channel only
            d = {'len': wfs[-1]['len'], 'pt': wfs[-1]['pt'], 'chans': {k: [list(e) for e in v] for k, v in wfs[-1]['chans'].items()}}
            if rng.random() < 0.5:
                k = rng.choice(defined)
                d['chans'][k][0][1] = str(F(d['chans'][k][0][1]) + (F(1, 64) if k not in rangeinfo else 0))
            wfs.append(d)
            continue
        n = rng.choice([192, 192, 192, 208, 224, 256, 320, 384])
        ln = F(n)
        if bad_len and w == 0:
            ln = rng.choice([F(100), F(16), F(191), F(200), F(193), F(176), F(385, 2), F(769, 4), F(160), F(32),
                             F(200), F(216), F(232), F(248), F(184), F(196), F(194), F(204)])
            n = int(ln)
        chans = {}
        for k in defined:
            chans[k] = gen_channel_entries(rng, n, rangeinfo.get(k), marker=(k in cfg['markers'] and k not in rangeinfo),
                                           oor=(oor_case and w == 0 and k in rangeinfo and k == cfg['channels'][0]))
            chans[k][-1][0] = str(ln)
        wfs.append({'len': str(ln), 'chans': chans, 'pt': rng.choice(['const', 'table'])})
    if 'tree' in force:
        tree = force['tree']
    else:
        shape = rng.random()
        depth = 0 if shape < 0.06 else 1 if shape < 0.3 else 2 if shape < 0.7 else 3 if shape < 0.92 else 4
        pvol = rng.choice([0.2, 0.35, 0.6]) if rng.random() < 0.3 else 0.0     # volatile repetition counts
        for _ in range(20):
            tree = gen_tree(rng, depth, nwf, pvol=pvol)
            if tree_size(tree) <= 14 and played_len(tree) <= 120:
                break
        else:
            tree = gen_tree(rng, 1, nwf, pvol=pvol)
    nch = None
    if rng.random() < 0.04:
        nch = rng.choice([[1, 2], [3, 2], [2, 1], [2, 3]])
    build = force.get('build', rng.choice(['direct', 'template']))
    if 'tree' not in force and build == 'direct' and rng.random() < 0.12:
        tree = zeroify(tree, rng, rng.choice([0.15, 0.3]))      # repetition count 0 (what a volatile count can be)
    case = {'kind': 'prog', 'rate': str(rate), 'defined': defined, 'wfs': wfs, 'tree': tree, 'cfg': cfg,
            'build': build, 'ntuple': nch}
    if build == 'direct' and nch is None and rng.random() < 0.1:
        # stateful: the same Loop object was compiled before with other limits / another mode (result ignored)
        mn1 = rng.choice([1, 2, 3, 4, 6])
        case['first'] = {'min': mn1, 'max': rng.choice([mn1, mn1 + 1, mn1 + 3, 16]),
                         'mode': rng.choice([None, None, 'advanced', 'single'])}
    return case


def enum_shapes(n):
    """all ordered rooted trees with exactly n nodes (as nested child lists)"""
    if n == 1:
        return [[]]
    out = []
    for forest in enum_forests(n - 1):
        out.append(forest)
    return out


def enum_forests(n):
    if n == 0:
        return [[]]
    out = []
    for k in range(1, n + 1):
        for first in enum_shapes(k):
            for rest in enum_forests(n - k):
                out.append([first] + rest)
    return out


def shape_nodes(s):
    return 1 + sum(shape_nodes(c) for c in s)


def label_shape(shape, reps, wfpick):
    """consume repetition counts (iterator) in DFS order"""
    r = next(reps)
    if not shape:
        return [r, False, next(wfpick), []]
    return [r, False, None, [label_shape(c, reps, wfpick) for c in shape]]


def clean_case(tree, mn, mx, mode=None):
    """two constant-ish leaves of 192 / 208 samples on channel A, marker B = A, identity scaling"""
    return {'kind': 'prog', 'rate': '1', 'defined': ['A'],
            'wfs': [{'len': '192', 'pt': 'table', 'chans': {'A': [[0, '1/4'], ['192', '1/4', 'hold']]}},
                    {'len': '208', 'pt': 'table', 'chans': {'A': [[0, '-1/2'], [100, '1/2', 'hold'], ['208', '1/2', 'hold']]}}],
            'tree': tree, 'build': 'direct', 'ntuple': None,
            'cfg': {'channels': ['A', None], 'markers': [None, 'A'], 'amps': ['1', '1'], 'offs': ['0', '0'],
                    'trafo': [['1', '0'], ['1', '0']], 'min': mn, 'max': mx, 'mode': mode, 'cpp': 2}}


def gen_cases(rng, tier, ctx):
    cases = []
    n = 180 if tier == 'quick' else 2000
    for _ in range(n):
        cases.append(gen_prog_case(rng, tier))
    # targeted: small limits around hand-picked restructuring situations
    targeted = [
        [1, False, None, [[2, False, None, [[1, False, 0, []], [2, False, 1, []]]], [1, False, 0, []]]],
        [1, False, None, [[1, False, None, [[1, False, 0, []]]], [3, False, None, [[1, False, 1, []], [1, False, 0, []]]]]],
        [1, False, None, [[3, False, None, [[1, False, 1, []], [1, False, 0, []]]], [1, False, None, [[2, False, 0, []]]]]],
        [5, False, None, [[3, False, 0, []], [4, False, 1, []]]],
        [3, False, 0, []],
        [1, False, None, [[1, False, None, [[1, False, 0, []]]], [1, False, None, [[1, False, 1, []]]],
                          [1, False, None, [[1, False, 0, []]]]]],
        [2, False, None, [[2, True, None, [[2, False, None, [[1, False, 0, []], [1, False, 1, []]]]]], [1, False, 1, []]]],
        # neighbour unrolling (previous / next table) with short tables
        [1, False, None, [[2, False, None, [[1, False, 0, []]]], [1, False, None, [[1, False, 1, []]]]]],
        [1, False, None, [[1, False, None, [[1, False, 1, []]]], [2, False, None, [[1, False, 0, []]]]]],
        [1, False, None, [[3, False, None, [[1, False, 0, []], [1, False, 1, []]]], [1, False, None, [[1, False, 1, []]]],
                          [2, False, None, [[1, False, 0, []]]]]],
        [1, False, None, [[4, False, None, [[1, False, 0, []]]], [1, False, None, [[1, False, 1, []], [1, False, 0, []]]],
                          [1, False, None, [[1, False, 1, []]]]]],
    ]
    V = True
    targeted_vol = [
        # volatile root with current count 1 over leaves (encapsulated although the count is 1)
        [1, False, None, [[1, False, 0, []], [2, False, 1, []]], V],
        [1, False, 0, [], V],
        # merging two tables with count 1 is blocked when one count is volatile
        [1, False, None, [[1, False, None, [[1, False, 0, []]], V], [1, False, None, [[1, False, 1, []]]]]],
        [1, False, None, [[1, False, None, [[1, False, 0, []]]], [1, False, None, [[1, False, 1, []]], V]]],
        # a short table with a volatile count (1 or 3) cannot be unrolled
        [1, False, None, [[3, False, None, [[1, False, 0, []], [1, False, 1, []]], V], [1, False, None, [[2, False, 0, []], [1, False, 1, []], [1, False, 0, []]]]]],
        # neighbours with volatile counts > 1 lend one iteration (previous / next)
        [1, False, None, [[2, False, None, [[1, False, 0, []]], V], [1, False, None, [[1, False, 1, []]]]]],
        [1, False, None, [[1, False, None, [[1, False, 1, []]]], [3, False, None, [[1, False, 0, []]], V]]],
        # split_one_child prefers the last child with a FIXED count > 1; falls back to a volatile one
        [1, False, None, [[1, False, None, [[2, False, 0, []], [3, False, 1, [], V]]], [1, False, None, [[1, False, 1, []], [1, False, 0, []], [1, False, 1, []], [1, False, 0, []]]]]],
        [1, False, None, [[1, False, None, [[1, False, 0, []], [3, False, 1, [], V]]], [1, False, None, [[1, False, 1, []], [1, False, 0, []], [1, False, 1, []], [1, False, 0, []]]]]],
        [2, False, None, [[2, False, 0, [], V], [3, False, 1, [], V]]],
        # a node with measurements over a single child whose count is a volatile 1 cannot be merged (is unrolled)
        [1, False, None, [[2, True, None, [[1, False, None, [[1, False, 0, []], [1, False, 1, []]], V]]], [1, False, 1, []]]],
        # the key of sequencer_tables contains the entries' volatile properties: equal entries, different properties ->
        # distinct tables; unrolled copies (same property) -> one table; merged leaves carry scaled properties
        [1, False, None, [[1, False, None, [[1, False, 0, [], V]]], [1, False, None, [[1, False, 0, []]]],
                          [1, False, None, [[1, False, 0, [], V]]]]],
        [1, False, None, [[2, True, None, [[1, False, None, [[1, False, 0, [], V], [1, False, 1, []]]],
                                           [1, False, None, [[1, False, 1, []], [1, False, 0, []]]]]]]],
        [1, False, None, [[1, False, None, [[2, False, None, [[3, False, 0, [], V]]],
                                            [1, False, None, [[1, False, None, [[1, False, 1, []], [1, False, 1, []]]]]]]],
                          [1, False, None, [[6, False, 0, [], V]]], [1, False, None, [[6, False, 0, []]]]]],
        # merging a volatile parent / child count makes the merged count volatile
        [1, False, None, [[2, False, None, [[1, False, None, [[1, False, 0, []]]]], V], [1, False, None, [[1, False, None, [[1, False, 1, []]], V]]]]],
    ]
    for t in targeted_vol:
        # clean leaves / configuration: nothing but the restructuring decides about accept / reject here
        for mn, mx in ([(1, 4), (2, 3), (2, 5), (3, 6)] if tier == 'quick' else
                       [(1, 4), (2, 3), (2, 5), (3, 4), (3, 6), (3, 16), (4, 8), (1, 2), (2, 2)]):
            cases.append(clean_case(t, mn, mx))
    # de-duplication bookkeeping (clean inputs): a waveform / table that re-occurs after a different one was registered
    L0, L1 = [1, False, 0, []], [1, False, 1, []]
    T01, T10 = [2, False, None, [L0, L1]], [2, False, None, [L1, L0]]
    for t, lims in [([1, False, None, [L0, L1, L0]], [(1, 8)]),
                    ([1, False, None, [L0, L1, L1, L0]], [(1, 8)]),
                    ([1, False, None, [L1, L0, [3, False, 1, []], L0, L0]], [(1, 8)]),
                    ([3, False, None, [L0, L1, L0]], [(1, 8), (2, 3)]),
                    ([1, False, None, [T01, T10, T01]], [(2, 4)]),
                    ([1, False, None, [T01, T10, T10, T01, [2, False, None, [L0, L1, L0]]]], [(2, 4)])]:
        for mn, mx in lims:
            cases.append(clean_case(t, mn, mx))
            cases.append(clean_case(t, mn, mx, 'single' if t[0] == 1 and not t[3][0][3] else 'advanced'))
    # two waveforms of different equality classes with the same uploaded binary (they differ on an odd sample of a
    # marker-only channel, which the half-rate marker never sees): segments.setdefault maps both to one segment
    twin = clean_case([1, False, None, [L0, L1, L0, L1]], 1, 8)
    twin['defined'] = ['A', 'M']
    twin['cfg'].update({'markers': ['M', None]})
    for d, cut in zip(twin['wfs'], (2, 1)):
        d['len'] = '192'
        d['chans'] = {'A': [[0, '1/4'], ['192', '1/4', 'hold']], 'M': [[0, '1'], [cut, '0', 'hold'], ['192', '0', 'hold']]}
    cases.append(twin)
    for t in targeted:
        for mn, mx in [(1, 2), (2, 3), (3, 4), (3, 6), (2, 2), (3, 16), (4, 5), (2, 4), (3, 5), (4, 8)]:
            if tier == 'quick' and rng.random() < 0.35:
                continue
            c = gen_prog_case(rng, tier, {'tree': t, 'cfg': {'min': mn, 'max': mx, 'mode': None}})
            while len(c['wfs']) < 2:
                c['wfs'].append(c['wfs'][0])
            cases.append(c)
    if tier == 'thorough':
        # all trees with <= 4 nodes x repetition counts {1,2,3} x limits {1,2,3} (min <= max) on two constant leaves
        base = gen_prog_case(rng, tier, {'tree': [1, False, 0, []]})
        for nn in range(1, 5):
            for shape in enum_shapes(nn):
                for reps in itertools.product([1, 2, 3], repeat=nn):
                    for mn in (1, 2, 3):
                        for mx in range(mn, 4):
                            wfp = itertools.cycle([0, 1])
                            tree = label_shape(shape, iter(reps), wfp)
                            c = {'kind': 'prog', 'rate': '1', 'defined': ['A'],
                                 'wfs': [{'len': '192', 'chans': {'A': [[0, '1/4'], ['192', '1/4', 'hold']]}},
                                         {'len': '208', 'chans': {'A': [[0, '-1/2'], [100, '1/2', 'hold'],
                                                                        ['208', '1/2', 'hold']]}}],
                                 'tree': tree, 'build': 'direct', 'ntuple': None,
                                 'cfg': {'channels': ['A', None], 'markers': [None, 'A'], 'amps': ['1', '1'],
                                         'offs': ['0', '0'], 'trafo': [['1', '0'], ['1', '0']], 'min': mn, 'max': mx,
                                         'mode': None, 'cpp': 2}}
                            cases.append(c)
        # all trees with <= 3 nodes x counts {1,2} x every subset of volatile counts x limits {1,2,3}
        for nn in range(1, 4):
            for shape in enum_shapes(nn):
                for reps in itertools.product([1, 2], repeat=nn):
                    for vols in itertools.product([False, True], repeat=nn):
                        if not any(vols):
                            continue
                        for mn in (1, 2, 3):
                            for mx in range(mn, 4):
                                tree = label_shape(shape, iter(reps), itertools.cycle([0, 1]))
                                vi = iter(vols)

                                def mark(t):
                                    out = t[:3] + [None] + ([True] if next(vi) else [])
                                    out[3] = [mark(c) for c in t[3]]
                                    return out
                                cc = dict(c, tree=mark(tree), cfg=dict(c['cfg'], min=mn, max=mx))
                                cases.append(cc)
        del base
    # deterministic families, one per input class the random stream produces rarely or never (c16_families.py)
    cases.extend(c16_families.families(tier))
    return cases


# ---------------------------------------------------------------------------------------------------------------------
# running the implementation

def _num(x):
    x = F(x)
    return int(x) if x.denominator == 1 else float(x)


def _time(x):
    """a time for a TablePT entry: int / float when it is a binary fraction (exact), otherwise the exact rational as an
    expression string (a Python float would reach the waveform through sympy cut to 15 significant digits and a step
    meant to lie ON sample k would lie beside it; family step_on_sample)"""
    x = F(x)
    return _num(x) if x.denominator & (x.denominator - 1) == 0 else '%d/%d' % (x.numerator, x.denominator)


def build_template(desc, rate, rename=None):
    """rename: description channel name -> channel id used by the template"""
    from qupulse.pulses import TablePT, ConstantPT
    chans = desc['chans'] if rename is None else {rename(k): e for k, e in desc['chans'].items()}
    const = all(len(e) == 2 and e[0][1] == e[1][1] for e in chans.values())
    dur = F(desc['len']) / rate
    # 'eps': the piece is a float hair longer / shorter than len samples (get_waveform_length has a tolerance of 1e-10)
    end = float(F(desc['len']) + F(desc['eps'])) / float(rate) if desc.get('eps') else _time(dur)
    if const and desc.get('pt') == 'const':
        return ConstantPT(end, {k: _num(e[0][1]) for k, e in chans.items()})
    table = {}
    for k, ent in chans.items():
        rows = [(0, _num(ent[0][1]))]
        for e in ent[1:-1]:
            rows.append((_time(F(e[0]) / rate), _num(e[1]), e[2]))
        rows.append((end, _num(ent[-1][1]), ent[-1][2]))
        table[k] = rows
    return TablePT(table)


def volatile_count(rep, counter):
    """a VolatileRepetitionCount whose current value is rep"""
    from qupulse.program.volatile import VolatileRepetitionCount
    from qupulse.parameter_scope import DictScope
    from qupulse.expressions import ExpressionScalar
    counter[0] += 1
    name = 'vol%d' % counter[0]
    return VolatileRepetitionCount(ExpressionScalar(name), DictScope.from_kwargs(volatile={name}, **{name: rep}))


def build_direct(tree, wobjs, counter=None):
    from qupulse.program.loop import Loop
    counter = [0] if counter is None else counter
    rep, meas, w, ch = tree[:4]
    kw = {'repetition_count': volatile_count(rep, counter) if t_vol(tree) else rep}
    if meas == 'empty':
        kw['measurements'] = []
    elif meas:
        kw['measurements'] = [('m', 0., 1.)]
    if not ch:
        return Loop(waveform=wobjs[w], **kw)
    return Loop(children=[build_direct(c, wobjs, counter) for c in ch], **kw)


def build_pt(tree, templates, order, params=None):
    """params: name -> current value of the volatile repetition parameters (filled here)"""
    from qupulse.pulses import SequencePT, RepetitionPT
    params = {} if params is None else params
    rep, meas, w, ch = tree[:4]

    def repeat(body):
        if t_vol(tree):
            name = 'vol%d' % (len(params) + 1)
            params[name] = rep
            return RepetitionPT(body, name)
        return RepetitionPT(body, rep) if rep != 1 else body
    if not ch:
        order.append(w)
        return repeat(templates[w])
    parts = [build_pt(c, templates, order, params) for c in ch]
    kw = {'measurements': [('m', 0, 1)]} if meas else {}
    body = SequencePT(*parts, **kw) if (len(parts) > 1 or meas) else parts[0]
    return repeat(body)


def read_tree(loop, order_iter, vol_ids):
    vp = loop.volatile_repetition
    vol = [vol_ids.setdefault(vp, 1000 + len(vol_ids))] if vp is not None else []   # before the children: DFS order
    ch = [read_tree(c, order_iter, vol_ids) for c in loop]
    if ch:
        return [int(loop.repetition_count), bool(loop._measurements), None, ch] + vol
    return [int(loop.repetition_count), bool(loop._measurements), next(order_iter), []] + vol


def vprop_of(expression, scope):
    """the volatile property of a VolatileRepetitionCount (expression over its scope) as the model's term: ['id', k, i] =
    k * vol<i>, ['op', k, p, c] = k * (parent count p * child count c) (Loop._merge_single_child of two volatile counts);
    the operands of an operation are recovered from the JointScope it was built with"""
    e = expression.underlying_expression
    if e == 0:
        return ['id', 0, 0]
    k, rest = e.as_coeff_Mul()
    if int(k) != k:
        raise ValueError('volatile count with a non-integer factor: %s' % e)
    names = sorted(str(x) for x in rest.free_symbols)
    if names == ['child_repetition_count', 'parent_repetition_count'] and hasattr(scope, '_lookup'):
        ops = []
        for nme in ('parent_repetition_count', 'child_repetition_count'):
            ms = scope._lookup[nme]
            ops.append(vprop_of(ms._mapping[nme], ms._scope))
        if rest != rest.func(*rest.free_symbols):
            raise ValueError('unexpected operation expression: %s' % e)
        return ['op', int(k), ops[0], ops[1]]
    if len(names) == 1 and names[0].startswith('vol') and str(rest) == names[0]:
        return ['id', int(k), int(names[0][3:])]
    raise ValueError('unexpected volatile expression: %s' % e)


def read_back(loop, wid, vol_ids):
    """the tree of a directly built Loop as it is NOW (after an earlier compilation restructured it in place);
    waveforms are recognised by object identity, volatile counts are read back as the model's property terms"""
    vp = loop.volatile_repetition
    rd = loop.repetition_definition
    vol = [vprop_of(rd._expression, rd._scope)] if vp is not None else []
    ch = [read_back(c, wid, vol_ids) for c in loop]
    return [int(loop.repetition_count), bool(loop._measurements),
            None if ch else wid.get(id(loop.waveform)), ch] + vol


def leaves(loop):
    if loop.is_leaf():
        yield loop
    else:
        for c in loop:
            yield from leaves(c)


def flatten_tree(t):
    rep, _, w, ch = t[:4]
    # a node without children and without waveform (left behind when 0-count children were unrolled away) plays nothing
    once = ([] if w is None else [w]) if not ch else [x for c in ch for x in flatten_tree(c)]
    return once * max(rep, 0)


def seg_rle(arr):
    return rle([int(x) for x in arr])


EXPECTED = ('TaborException', 'ValueError', 'AssertionError')


def run_impl(case):
    try:
        with vlib.time_limit(20), warnings.catch_warnings():
            warnings.simplefilter('ignore')
            return _run_impl(case)
    except vlib.Timeout:
        return {'hang': True}
    except Exception as e:   # harness-side failure: never silently accepted
        import traceback
        return {'crash': 'harness: %s: %s | %s' % (type(e).__name__, e, traceback.format_exc()[-400:])}


def _run_impl(case):
    import numpy as np
    from qupulse._program.tabor import TaborProgram, TaborSequencing, PlottableProgram, TaborSegment, TaborException
    from qupulse.hardware.util import voltage_to_uint16
    from qupulse.utils.types import TimeType
    rate = F(case['rate'])
    cfg = case['cfg']
    names = case.get('names') or {}
    nm = lambda k: None if k is None else names.get(k, k)          # implementation-side channel id
    chmap = case.get('chmap') or {}                                 # template channel -> program channel
    inv = {v: k for k, v in chmap.items()}
    tname = lambda k: nm(inv.get(k, k))                             # the template's id of program channel k
    has_mix = any(d.get('mix') for d in case['wfs'])
    if has_mix:
        templates = [build_template(d, rate) for d in case['wfs']]
    else:
        templates = [build_template(d, rate, tname) for d in case['wfs']]
    mapping = {tname(k): nm(k) for k in case['defined']}
    wobjs = None
    if case['build'] == 'template':
        from qupulse.pulses import MappingPT
        if chmap:
            templates = [MappingPT(t, channel_mapping=mapping) for t in templates]
        order = []
        params = {}
        pt = build_pt(case['tree'], templates, order, params)
        prog = pt.create_program(parameters=dict(params), volatile=set(params))
        lv = list(leaves(prog))
        if len(lv) != len(order):
            return {'crash': 'harness: template read-back mismatch (%d leaves for %d atoms)' % (len(lv), len(order))}
        tree = read_tree(prog, iter(order), {})
        for leaf, w in zip(lv, order):
            if not case['wfs'][w].get('eps') and vlib.to_fraction(leaf.waveform.duration) * rate != F(case['wfs'][w]['len']):
                return {'crash': 'harness: template read-back mismatch (leaf duration)'}
        leaf_wf = {}
        for leaf, w in zip(lv, order):
            leaf_wf.setdefault(w, leaf.waveform)
    else:
        if has_mix:
            from qupulse.program.waveforms import TransformingWaveform
            from qupulse.program.transformation import LinearTransformation
            wobjs = []
            for t, d in zip(templates, case['wfs']):
                inner = t.build_waveform({}, {k: k for k in d['chans']})
                ins = sorted(d['chans'])
                outs = sorted(d['mix'])
                coef = {o: {i: float(F(c)) for c, i in d['mix'][o]} for o in outs}
                matrix = np.array([[coef[o].get(i, 0.) for i in ins] for o in outs])
                wobjs.append(TransformingWaveform.from_transformation(inner, LinearTransformation(matrix, ins, outs)))
        else:
            wobjs = [t.build_waveform({}, mapping) for t in templates]
        prog = build_direct(case['tree'], wobjs)
        tree = case['tree']
        leaf_wf = dict(enumerate(wobjs))
    chans, marks = tuple(nm(k) for k in cfg['channels']), tuple(nm(k) for k in cfg['markers'])
    if case.get('ntuple'):
        nc, nm_ = case['ntuple']
        chans = (chans + (None,))[:nc] if nc > 2 else chans[:nc]
        marks = (marks + (None,))[:nm_] if nm_ > 2 else marks[:nm_]
    tr = [(F(a), F(b)) for a, b in cfg['trafo']]
    trafos = tuple((lambda a, b: (lambda x: x * a + b))(float(a), float(b)) for a, b in tr)
    amps = tuple(float(F(a)) for a in cfg['amps'])
    offs = tuple(float(F(o)) for o in cfg['offs'])

    def make_tp(cf):
        props = {'chan_per_part': cf['cpp'], 'min_seq_len': cf['min'], 'max_seq_len': cf['max']}
        mode = {None: None, 'single': TaborSequencing.SINGLE, 'advanced': TaborSequencing.ADVANCED}[cf['mode']]
        return TaborProgram(prog, props, chans, marks, amps, offs, trafos,
                            TimeType.from_fraction(rate.numerator, rate.denominator), mode)
    first_changed = None
    if case.get('first') is not None:
        # stateful class: the same Loop object was compiled before (TaborProgram restructures its argument in place);
        # the model starts from the tree as it is now, the specification from the tree as it was built
        if wobjs is None:
            return {'crash': 'harness: "first" needs a direct build'}
        try:
            make_tp(dict(cfg, **case['first']))
        except Exception:
            pass
        wid = {id(w): i for i, w in enumerate(wobjs)}
        tree = read_back(prog, wid, {})
        if flatten_tree(tree) != flatten_tree(case['tree']):
            first_changed = 'a first TaborProgram(...) on the same Loop changed the sequence of waveforms the Loop plays'
    # from the full configuration (a wrong tuple length cuts chans / marks; TaborProgram rejects those before it looks)
    used = frozenset(nm(k) for k in cfg['channels'] + cfg['markers']) - {None}
    # equality classes of the waveforms as the compiler sees them (input of the model)
    classes = {}
    cls = []
    for w in range(len(case['wfs'])):
        if w in leaf_wf:
            key = leaf_wf[w].get_subset_for_channels(used)
            cls.append(classes.setdefault(key, len(classes)))
        else:
            cls.append(1000 + w)
    obs = {'tree': tree, 'cls': cls}
    if any(d.get('eps') for d in case['wfs']):
        # the exact length in samples of the waveform objects (the float duration went through TimeType.from_float)
        obs['wlen'] = [str(vlib.to_fraction(leaf_wf[w].duration) * rate) if w in leaf_wf
                       else str(F(case['wfs'][w]['len']) + F(case['wfs'][w].get('eps') or 0)) for w in range(len(case['wfs']))]
    if first_changed:
        obs['first_changed'] = first_changed
    try:
        tp = make_tp(cfg)
    except (TaborException, ValueError, AssertionError) as e:
        obs['err'] = type(e).__name__
        return obs
    except Exception as e:
        # incl. AttributeError: a sequence table entry without waveform (a node emptied by a 0-count child) is a
        # TaborException since the repair of the parsers (former known finding zero_count_empties_table)
        obs['crash'] = '%s: %s' % (type(e).__name__, e)
        return obs
    segs, lens = tp.get_sampled_segments()
    seqs = [[[int(d.repetition_count), int(d.element_id), int(d.jump_flag), v is None] for d, v in t]
            for t in tp.get_sequencer_tables()]
    adv = [[int(e.repetition_count), int(e.element_number), int(e.jump_flag)] for e in tp.get_advanced_sequencer_table()]
    if any(e[2] != 0 or not (e[3] or any_vol(tree)) for t in seqs for e in t) or any(e[2] != 0 for e in adv):
        obs['crash'] = 'jump flag / volatile entry in a non-volatile program'
        return obs
    bins = [np.array(s.get_as_binary()) for s in segs]
    obs['ok'] = {'segs': [seg_rle(b) for b in bins], 'lens': [int(x) for x in lens],
                 'seqs': [[e[:2] for e in t] for t in seqs], 'adv': [e[:2] for e in adv],
                 'advanced': tp.waveform_mode == TaborSequencing.ADVANCED}
    # ---- second, Python-side oracle: PlottableProgram as an independent table player (driver layout: idle segment and
    # idle table first, element numbers + 1) against the harness' own samples quantised with voltage_to_uint16
    why = None
    try:
        idle = TaborSegment.from_sampled(voltage_to_uint16(np.zeros(192), 1., 0., 14),
                                         voltage_to_uint16(np.zeros(192), 1., 0., 14), None, None)
        waveforms = [idle.get_as_binary()] + bins
        tabs = [[(1, 1, 0)] * 3] + [[(r, i + 2, 0) for r, i in t] for t in obs['ok']['seqs']]
        advt = [(1, 1, 1)] + [(r, n + 1, 0) for r, n in obs['ok']['adv']]
        as_arrays = lambda t: tuple(np.array(col) for col in zip(*t))
        pp = PlottableProgram.from_read_data(waveforms, [as_arrays(t) for t in tabs], as_arrays(advt))
        flat = flatten_tree(case['tree'] if case.get('first') is not None else tree)
        played = [pp._segments[e.element_number - 1] for e in pp._iter_segment_table_entry() for _ in range(e.repetition_count)]
        if played or flat:
            got_a = np.asarray(pp.get_as_single_waveform(0)).astype(np.int64)
            got_b = np.asarray(pp.get_as_single_waveform(1)).astype(np.int64)
        else:       # nothing is played (all counts 0): get_as_single_waveform cannot concatenate an empty list
            got_a = got_b = np.zeros(0, np.int64)
        got_ma = np.concatenate([s.marker_a for s in played]) if played else np.zeros(0, bool)
        got_mb = np.concatenate([s.marker_b for s in played]) if played else np.zeros(0, bool)
        samp = {}
        for w in set(flat):
            d = case['wfs'][w]
            ln = F(d['len'])
            if ln.denominator != 1:
                raise ValueError('accepted a program with a non-integer leaf length')
            samp[w] = {k: np.array([float(x) for x in desc_samples(d, k, int(ln))]) for k in desc_channels(d)}
            samp[w][None] = np.zeros(int(ln))

        def want_channel(i):
            c = cfg['channels'][i]
            v = np.concatenate([samp[w][c] for w in flat]) if flat else np.zeros(0)
            if c is None:
                return np.full(len(v), 8192, dtype=np.int64)
            return voltage_to_uint16(trafos[i](v), amps[i], offs[i], 14).astype(np.int64)

        def want_marker(i):
            v = np.concatenate([samp[w][cfg['markers'][i]] for w in flat]) if flat else np.zeros(0)
            return (v != 0)[::2]
        for name, got, want in (('channel A', got_a, want_channel(0)), ('channel B', got_b, want_channel(1)),
                                ('marker A', got_ma, want_marker(0)), ('marker B', got_mb, want_marker(1))):
            if len(got) != len(want) or not np.array_equal(got, want):
                k = next((j for j in range(min(len(got), len(want))) if got[j] != want[j]), min(len(got), len(want)))
                why = 'PlottableProgram replay of the tables differs from the quantised source on %s: lengths %d / %d, ' \
                      'first difference at sample %d' % (name, len(got), len(want), k)
                break
        if why is None:
            for s, n in zip(segs, lens):
                if s.num_points != int(n) or int(n) < 192 or int(n) % 16:
                    why = 'segment of %d points (reported %d) violates the device limits' % (s.num_points, int(n))
        if why is None:
            # the packing kernel on its own: an unassigned output / marker passed as None (the default fill of
            # TaborSegment.from_sampled) must give the same uploaded words as the explicit 8192 / False arrays that
            # TaborProgram passes, and the words must survive from_binary_data
            for s, b in zip(segs, bins):
                again = TaborSegment.from_sampled(None if cfg['channels'][0] is None else s.ch_a,
                                                  None if cfg['channels'][1] is None else s.ch_b,
                                                  None if cfg['markers'][0] is None else s.marker_a,
                                                  None if cfg['markers'][1] is None else s.marker_b) \
                    if any(c is not None for c in cfg['channels'] + cfg['markers']) else s
                back = TaborSegment.from_binary_data(s.data_a, s.data_b)
                if not np.array_equal(np.array(again.get_as_binary()), b) or not np.array_equal(np.array(back.get_as_binary()), b) \
                        or again != s or hash(back) != hash(s):
                    why = 'TaborSegment.from_sampled with None for the unassigned outputs / from_binary_data gives other words'
                    break
    except Exception as e:
        why = 'replay oracle failed: %s: %s' % (type(e).__name__, e)
    obs['py_plays'] = why
    bad_tab = [len(t) for t in obs['ok']['seqs'] if not cfg['min'] <= len(t) <= cfg['max']]
    obs['py_tables'] = ('sequencer table of length %d outside [%d, %d]' % (bad_tab[0], cfg['min'], cfg['max'])) \
        if bad_tab else None
    return obs


# ---------------------------------------------------------------------------------------------------------------------
# Gallina printers

def g_tree(t, counter=None):
    counter = [0] if counter is None else counter
    rep, meas, w, ch = t[:4]
    meas = meas is True          # 'empty' = measurements declared as an empty list: no measurement
    if t_vol(t):
        counter[0] += 1
        if isinstance(t[4], list):          # a property term read back from the Loop object
            meta = '(Build_nmeta %s (Some %s))' % (gbool(meas), g_vprop(t[4]))
        else:
            vid = counter[0] if t[4] is True else int(t[4])
            meta = '(Build_nmeta %s (Some (VId 1 %s)))' % (gbool(meas), gZ(vid))
    else:
        meta = 'plain' if not meas else '(Build_nmeta true None)'
    return '(Loop %s %s %s %s)' % (gZ(rep), meta, 'None' if w is None else '(Some %d%%nat)' % w,
                                   glist(lambda c: g_tree(c, counter), ch))


def g_vprop(v):
    if v[0] == 'id':
        return '(VId %s %s)' % (gZ(v[1]), gZ(v[2]))
    return '(VOp %s %s %s)' % (gZ(v[1]), g_vprop(v[2]), g_vprop(v[3]))


def g_chan(c):
    return 'None' if c is None else '(Some %s)' % gZ(CH_ID[c])


def g_cfg(case, cfg=None):
    cfg = case['cfg'] if cfg is None else cfg
    nc, nm = case.get('ntuple') or [2, 2]
    mode = {None: 'None', 'single': '(Some false)', 'advanced': '(Some true)'}[cfg['mode']]
    tr = lambda p: '(%s, %s)' % (gQ(F(p[0])), gQ(F(p[1])))
    return '(mk_cfg %s %s %s %s %s %s %s %s %s %s %s %s %s %s %s %s)' % (
        gZ(nc), gZ(nm), gZ(cfg['cpp']), g_chan(cfg['channels'][0]), g_chan(cfg['channels'][1]),
        g_chan(cfg['markers'][0]), g_chan(cfg['markers'][1]), gQ(F(cfg['amps'][0])), gQ(F(cfg['amps'][1])),
        gQ(F(cfg['offs'][0])), gQ(F(cfg['offs'][1])), tr(cfg['trafo'][0]), tr(cfg['trafo'][1]),
        gZ(cfg['min']), gZ(cfg['max']), mode)


def g_wf(d, cls, wlen=None):
    ln = F(d['len'])
    if d.get('eps') and wlen is not None:
        # round 6: the table carries the EXACT length of the waveform object (read from the implementation) next to the
        # nominal sample count; whether the length is within get_waveform_length's tolerance of the count is decided in
        # Coq — by the model (waveform_length) and, independently, by the specification (Spec.snap / spec_tol:
        # within the tolerance = specified as that many samples, outside = no specification).  Until round 5 this
        # harness decided it with exact fractions.
        return g_wf(dict(d, len=str(F(wlen)), eps=None, n=int(ln)), cls)
    n = d['n'] if d.get('n') is not None else (int(ln) if ln.denominator == 1 else int(round(ln)))
    data = []
    for k in desc_channels(d):
        s = rle(desc_samples(d, k, n if (ln.denominator == 1 or d.get('n') is not None) else int(ln)))
        data.append('(%s, %s)' % (gZ(CH_ID[k]), glist(lambda p: '(%s, %s)' % (gQ(p[0]), gZ(p[1])), s)))
    return '(mk_wf %s %s %s [%s])' % (gZ(cls), gQ(ln), gZ(n), '; '.join(data))


def g_pairs(l):
    return glist(lambda p: '(%s, %s)' % (gZ(p[0]), gZ(p[1])), l)


def to_coq(case, obs):
    if 'crash' in obs or 'hang' in obs:
        return 'CCrash'
    if 'ok' in obs:
        o = obs['ok']
        impl = '(Some (mk_out %s %s %s %s %s))' % (glist(g_pairs, o['segs']), glist(gZ, o['lens']),
                                                  glist(g_pairs, o['seqs']), g_pairs(o['adv']), gbool(o['advanced']))
    else:
        impl = 'None'
    tbl = glist(lambda wc: g_wf(*wc), list(zip(case['wfs'], obs['cls'], obs.get('wlen') or [None] * len(case['wfs']))))
    if case.get('first') is not None:
        # compiled twice: first configuration, second configuration, the tree as built, the tree read back from the Loop
        return '(CTwice %s %s %s %s %s %s)' % (g_cfg(case, dict(case['cfg'], **case['first'])), g_cfg(case), tbl,
                                             g_tree(case['tree']), g_tree(obs['tree']), impl)
    return '(CProg %s %s %s %s)' % (g_cfg(case), tbl, g_tree(obs['tree']), impl)


# ---------------------------------------------------------------------------------------------------------------------

def nontrivial(case, obs):
    if 'ok' not in obs:
        return 'err' in obs and tree_size(case['tree']) > 1
    o = obs['ok']
    return sum(len(t) for t in o['seqs']) > 1 or len(o['adv']) > 1


def _depth(t):
    return 0 if not t[3] else 1 + max(_depth(c) for c in t[3])


def _rmax(r):
    return max(1, abs(r))


def _W(t):
    return 1 + 3 * _rmax(t[0]) * (1 + sum(_W(c) for c in t[3]))


def _R(t):
    return _rmax(t[0]) * max(1, sum(_R(c) for c in t[3]))


def fuel_covered(tree):
    """Python copy of the two closed fuel bounds of Props.C16_compile_fixed_fuel_stable (fab_bound 2, prep_bound of
    the children of the encapsulated root) against the model's fixed fuel (40000, 4000); informational only"""
    l = [tree] if (tree[0] > 1 or t_vol(tree) or not tree[3]) else tree[3]
    return 1 + 8 * sum(_W(x) for x in l) <= 40000 and 1 + 2 * sum(_R(x) for x in l) <= 4000


def histogram_keys(case, obs):
    keys = ['build:' + case['build'], 'depth:%d' % _depth(case['tree']), 'mode_req:%s' % case['cfg']['mode']]
    if 'ok' in obs:
        o = obs['ok']
        keys.append('ok:advanced' if o['advanced'] else 'ok:single')
        keys.append('tables:%d' % min(len(o['seqs']), 5))
        keys.append('segments:%d' % min(len(o['segs']), 5))
        t = obs['tree']
        if o['advanced'] and [len(c[3]) for c in t[3]] != [len(s) for s in o['seqs']]:
            keys.append('restructured')
    elif 'err' in obs:
        keys.append('err:' + obs['err'])
    else:
        keys.append('crash')
    if case.get('family'):
        keys.append('family:' + case['family'])
    keys.append('fuel:within_closed_bounds' if fuel_covered(obs.get('tree', case['tree'])) else 'fuel:beyond_closed_bounds')
    if has_zero(case['tree']):
        keys.append('count:0')
    if any_vol(case['tree']):
        keys.append('volatile:input')
    if 'tree' in obs and any_vol(obs['tree']):
        keys.append('volatile:compiled')
    if case.get('ntuple'):
        keys.append('malformed:tuple_length')
    if any(F(d['len']).denominator != 1 or int(F(d['len'])) % 16 or F(d['len']) < 192 for d in case['wfs']):
        keys.append('malformed:leaf_length')
    for c in case['cfg']['channels'] + case['cfg']['markers']:
        if c is None:
            keys.append('assignment:None')
            break
    return keys


def py_spec(case, obs):
    if obs.get('first_changed'):
        return obs['first_changed']
    if 'ok' not in obs:
        return None
    return obs.get('py_plays') or obs.get('py_tables')


def classify(case, obs):
    """known finding: in SINGLE mode the table length is not compared with min_seq_len (lower bound only: since the
    repair of setup_single_sequence_mode a table longer than max_seq_len is rejected, so a too LONG table is a
    violation in either mode).  A case is filed under it only when the harness' OWN replay (c16_oracle: own decoder of
    the uploaded words, own table player, own exact quantiser — no qupulse code, so a change of voltage_to_uint16 /
    PlottableProgram / TaborSegment cannot agree with itself here) finds nothing else wrong: samples, markers, segment
    limits and the upper table bound are all fine and the ONLY defect is a single-mode table shorter than min_seq_len"""
    if 'ok' in obs and not obs['ok']['advanced'] and obs.get('py_plays') is None and obs.get('py_tables') \
            and not obs.get('first_changed') \
            and all(len(t) <= case['cfg']['max'] for t in obs['ok']['seqs']) \
            and any(len(t) < case['cfg']['min'] for t in obs['ok']['seqs']):
        from props import c16_oracle
        if c16_oracle.own_replay(case, obs) is None:
            return KF_SINGLE
    return None


_SHRUNK = [0]


def _still_fails(case, ctx, counter):
    """observation of a candidate on which the property still fails (crash, Python oracle, or Coq check_spec), else None"""
    import time
    if counter['n'] >= 30 or time.time() - counter['t0'] > 60:
        return None
    counter['n'] += 1
    obs = run_impl(case)
    if 'crash' in obs or 'hang' in obs:
        return obs
    if classify(case, obs) is not None:
        return None
    if py_spec(case, obs):
        return obs
    if 'ok' not in obs:
        return None
    try:
        wd = os.path.join(ctx['workdir'], 'shrink')
        res = vlib.run_coq_cases(wd, CORR_IMPORTS, [CHECK_SPEC], [to_coq(case, obs)], shard=SHARD, jobs=1)
    except Exception:
        return None
    return obs if res[CHECK_SPEC] else None


def _tree_variants(t):
    """smaller trees: a child instead of the node, one child dropped, count 1, no measurement / volatile flag,
    waveform 0"""
    out = []
    rep, meas, w, ch = t[:4]
    extra = t[4:]
    for c in ch:
        out.append(c)
    for i in range(len(ch)):
        if len(ch) > 1:
            out.append([rep, meas, w, ch[:i] + ch[i + 1:]] + extra)
    if rep > 1:
        out.append([1, meas, w, ch] + extra)
    if meas:
        out.append([rep, False, w, ch] + extra)
    if t_vol(t):
        out.append([rep, meas, w, ch])
    if w not in (None, 0):
        out.append([rep, meas, 0, ch] + extra)
    for i, c in enumerate(ch):
        for v in _tree_variants(c):
            out.append([rep, meas, w, ch[:i] + [v] + ch[i + 1:]] + extra)
    return out


def shrink(case, obs, ctx):
    """greedy: smaller tree, simpler configuration, constant leaves; every step re-runs the implementation and keeps a
    candidate only if the property still fails on it"""
    import time
    if case.get('kind') != 'prog' or _SHRUNK[0] >= 2:      # at most two replays are minimised per run (time)
        return case, obs
    _SHRUNK[0] += 1
    counter = {'n': 0, 't0': time.time()}
    best, best_obs = case, obs
    progress = True
    while progress:
        progress = False
        cands = []
        if best.get('build') != 'direct':
            cands.append(dict(best, build='direct'))
        if best.get('ntuple'):
            cands.append(dict(best, ntuple=None))
        cands.extend(dict(best, tree=tv) for tv in _tree_variants(best['tree']))
        cfg = best['cfg']
        simple = {'amps': ['1', '1'], 'offs': ['0', '0'], 'trafo': [['1', '0'], ['1', '0']], 'mode': None}
        for k, v in simple.items():
            if cfg[k] != v:
                cands.append(dict(best, cfg=dict(cfg, **{k: v})))
        for k in ('channels', 'markers'):
            for i in (0, 1):
                if cfg[k][i] is not None and sum(x is not None for x in cfg['channels'] + cfg['markers']) > 1:
                    cands.append(dict(best, cfg=dict(cfg, **{k: [None if j == i else x for j, x in enumerate(cfg[k])]})))
        if best['rate'] != '1':
            cands.append(dict(best, rate='1'))
        for wi, d in enumerate(best['wfs']):
            if any(len(e) > 2 for e in d['chans'].values()) or d['len'] != '192':
                flat = {k: [[0, e[0][1]], ['192', e[0][1], 'hold']] for k, e in d['chans'].items()}
                cands.append(dict(best, wfs=best['wfs'][:wi] + [dict(d, len='192', chans=flat)] + best['wfs'][wi + 1:]))
        for c in cands:
            o = _still_fails(c, ctx, counter)
            if o is not None:
                best, best_obs, progress = c, o, True
                break
            if counter['n'] >= 30:
                break
    return best, best_obs


def search_failing(ctx, broken):
    """Python-side oracle only (PlottableProgram replay + limits): first the full small-scope families, then a random
    stream; at most ~150 s"""
    import random
    import time
    t0 = time.time()
    rng = random.Random(ctx.get('seed', 0) + 7919)

    def stream():
        yield from c16_families.families('thorough')
        for _ in range(1500):
            yield gen_prog_case(rng, 'thorough')
    for c in stream():
        if time.time() - t0 > 150:
            break
        o = run_impl(c)
        if 'crash' in o or 'hang' in o:
            return c, o, 'the implementation failed with an unexpected exception / did not return'
        why = py_spec(c, o)
        if why and classify(c, o) is None:
            return c, o, why
    return None


MANIFEST = {
    'level_text': 'Proof (Coq, unbounded in tree shape / counts / lengths / limits / channel assignment) over an '
                  'executable model of TaborProgram.__init__ and everything it calls.  PROVED ON THE MODEL, per clause '
                  '(notes/C16.md "Clause map"): (S1, S2) C16_plays — whenever the compiler model accepts a program (either '
                  'mode, fixed or volatile counts at their current value), the emitted advanced table / sequencer tables / '
                  'segments, played by a table player that decodes the uploaded words and calls nothing of the compiler, '
                  'give exactly the quantised source program on both channels and both markers (half rate); hypotheses: '
                  'counts >= 0, exact integer piece lengths, objects of one equality class have equal data (round 5, '
                  'C16_plays_used_channels: on the USED channels only); the code is a nearest integer to '
                  '(v-off+amp)/(2amp)*16383, ties to even, defined exactly in range (C16_code_is_nearest, '
                  'C16_code_defined_iff_in_range); round 6, C16_plays_within_tolerance: the same for every table whose piece '
                  'lengths are within the tolerance of get_waveform_length (float 1e-10, in samples) of their sample counts — '
                  'the specification spec_tol takes such a piece as that many samples and is undefined for a played piece '
                  'outside the tolerance (C16_spec_tol_outside_tolerance); the compiler model cannot see the difference '
                  '(C16_tolerance_invisible).  (S3, S4) C16_limits: every emitted segment >= 192 and a multiple of 16, '
                  'every table <= max_seq_len in both modes, >= min_seq_len in advanced mode (single mode refuted by '
                  'witness = known finding, intended behaviour).  (S5) C16_accepts_or_rejects (round 5, replaces the '
                  'tautological C16_reject): within the two closed fuel bounds the model either emits tables that play the '
                  'specification and respect the limits or returns a proper error (never the unexpected-exception / fuel '
                  'result); C16_no_crash for every fuel; C16_left_behind_ok: the Loop a (possibly failed) compilation '
                  'leaves behind plays the same leaves, so a second compilation plays the ORIGINAL specification '
                  '(C16_recompile_plays_any).  Termination of both restructuring loops with closed fuel bounds.  Source '
                  'tie: the 53 if / elif / while / assert tests of the Tabor compiler and of Loop.flatten_and_balance / '
                  '_has_single_child_that_can_be_merged / split_one_child and the statement-by-statement bookkeeping of both '
                  'parsers are translated from the current source on every run (translate/py2gallina_c16.py, fail-closed) '
                  'and proved equal to the model (C16_source_*).  PARTIAL: voltage transformations are affine maps only. '
                  'TESTED ONLY: binary64 rounding of numpy (dyadic inputs; sample TIMES at rates with a non-binary period: '
                  'family step_on_sample, a step on every sample index), the float evaluation of the length deviation, the actions of the restructuring on the Loop objects.  NOT COVERED: limits of the advanced '
                  'table / of repetition counts, the instrument driver.  Tie to /repo: exact correspondence check '
                  '(segments as uploaded binary, tables, mode, accept/reject, tree left behind) and the specification '
                  'evaluated by Coq on the implementation\'s tables on every case; PlottableProgram as a second player; '
                  'random stream + 16 deterministic families for input classes the random stream cannot reach.',
    'level_note': 'Trusted: Coq kernel, harness, numpy float exactness on dyadic inputs, Waveform equality classes and '
                  'get_sampled (inputs of the model / compared through the spec), the binary layout assumed by the table '
                  'player; volatile counts are a flag + current value (updates are C15); programs beyond the two closed '
                  'fuel bounds (3 % of the quick cases) are covered by C16_plays_total (some fuel suffices) and the '
                  'correspondence check, not by the fixed-fuel theorems.  The Python-side oracle quantises with the '
                  'repository\'s voltage_to_uint16 (blind to its changes); the Coq check_spec and the known-finding '
                  'predicate (own replay, c16_oracle.py) do not.',
    'technique': 'Coq proof (translation validation of an executable compiler model, invariants over the parse folds, '
                 'termination with closed bounds) + correspondence check + PlottableProgram replay oracle',
    'design_ref': 'DESIGN.md §5 C16',
}
