"""C16 — deterministic input families (no randomness): one family per input CLASS that the random generator of
c16.py produces rarely or never.  Every family is listed in FAMILIES with the class it stands for; `families(tier)`
returns the cases (quick: a boundary selection, thorough: the full small-scope product).

Case format = c16.py's ('prog' cases); optional extra keys understood by c16._run_impl:
  names  {'A': 0}            implementation-side channel ids (falsy ids 0 / '' ...); the model keeps its own numbering
  chmap  {'A': 'B', 'B': 'A'} the leaves are defined on permuted channel names and mapped back (MappingPT /
                             build_waveform channel_mapping): a swap mapping
  mix    {'A': [['1','P'], ['1','Q']], ...} per waveform description: output channel = linear combination of the
                             described (inner) channels, built as TransformingWaveform(LinearTransformation)
  first  {cfg overrides}     the SAME Loop object is compiled once with these overrides (result ignored, exceptions
                             swallowed) before the compilation that is observed (TaborProgram restructures its argument
                             in place); the model gets the tree as it is after the first compilation
  a tree node's measurement flag may be 'empty' (measurements=[] declared, no measurement)
"""
import fractions
import itertools

F = fractions.Fraction


def L(w, r=1, vol=False):
    return [r, False, w, []] + ([True] if vol else [])


def T(children, r=1, meas=False, vol=False):
    return [r, meas, None, list(children)] + ([True] if vol else [])


def steps(n, pts):
    """step function in sample units: value v_i on [t_i, t_{i+1}); pts = [(0, v0), (t1, v1), ...]"""
    ent = [[0, str(F(pts[0][1]))]]
    for t, v in pts[1:]:
        if 0 < t < n:
            ent.append([t, str(F(v)), 'hold'])
    ent.append([str(F(n)), ent[-1][1], 'hold'])
    return ent


def wf(n, **chans):
    """waveform description of n samples; a channel is a constant or a list of (t, v) steps"""
    return {'len': str(F(n)), 'pt': 'table',
            'chans': {k: steps(F(n), v if isinstance(v, list) else [(0, v)]) for k, v in chans.items()}}


def base_cfg(**over):
    cfg = {'channels': ['A', None], 'markers': [None, None], 'amps': ['1', '1'], 'offs': ['0', '0'],
           'trafo': [['1', '0'], ['1', '0']], 'min': 1, 'max': 16, 'mode': None, 'cpp': 2}
    cfg.update(over)
    return cfg


def mk(tree, wfs, rate='1', build='direct', extra=None, **cfg_over):
    defined = sorted({k for d in wfs for k in (d.get('mix') or d['chans'])})
    c = {'kind': 'prog', 'rate': rate, 'defined': defined, 'wfs': wfs, 'tree': tree, 'cfg': base_cfg(**cfg_over),
         'build': build, 'ntuple': None}
    c.update(extra or {})
    return c


def std_wfs():
    """three distinguishable leaves on channel A (192 / 208 / 224 samples), A is also usable as a marker"""
    return [wf(192, A=F(1, 4)), wf(208, A=[(0, F(-1, 2)), (100, F(1, 2))]), wf(224, A=[(0, 0), (17, F(-1, 4)), (200, 0)])]


STD_CFG = dict(channels=['A', None], markers=[None, 'A'])


# ---------------------------------------------------------------------------------------------------------------------
def fam_short_after_repeated(tier):
    """class: a once-played SHORT table next to a REPEATED table (directly after it, directly before it, between two,
    at the end / start), so that every neighbour test of prepare_program_for_advanced_sequence_mode meets a neighbour
    whose own count is > 1 (merge must not happen, one iteration may be lent)"""
    out = []
    full = dict(ks=(2, 3), lts=(1, 2, 3), lss=(1, 2), lims=[(2, 8), (3, 8), (3, 4), (3, 5), (2, 3)])
    quick = dict(ks=(2,), lts=(1, 2), lss=(1,), lims=[])
    p = quick if tier == 'quick' else full
    for k, lt, ls in itertools.product(p['ks'], p['lts'], p['lss']):
        Tt = lambda: T([L(i % 2) for i in range(lt)], r=k)
        S = lambda: T([L((i + 1) % 3) for i in range(ls)], r=1)
        U = lambda: T([L(2), L(0), L(2)], r=1)
        # limits on the boundaries of `len(short) + len(neighbour) < max_seq_len` and `len(short) < min_seq_len`
        lims = sorted(set(p['lims']) | {(ls + 1, lt + ls), (ls + 1, lt + ls + 1), (ls + 2, lt + ls + 2), (ls + 1, 8)})
        for pat in ('TS', 'TSU', 'TST', 'UTS', 'ST', 'STS', 'TSS', 'TUS', 'SUT'):
            for mn, mx in lims:
                if mn > mx:
                    continue
                tabs = [{'T': Tt, 'S': S, 'U': U}[ch]() for ch in pat]
                out.append(mk(T(tabs), std_wfs(), min=mn, max=mx, **STD_CFG))
    # the repeated neighbour is volatile / the short table is volatile (no merging); a neighbour whose volatile count
    # is 1 has nothing to lend
    for mn, mx in [(2, 8), (3, 4), (3, 8)]:
        out.append(mk(T([T([L(0), L(1)], r=2, vol=True), T([L(2)])]), std_wfs(), min=mn, max=mx, **STD_CFG))
        out.append(mk(T([T([L(0), L(1)], r=2), T([L(2)], vol=True)]), std_wfs(), min=mn, max=mx, **STD_CFG))
        out.append(mk(T([T([L(2)]), T([L(0), L(1)], r=1, vol=True)]), std_wfs(), min=mn, max=mx, **STD_CFG))
        out.append(mk(T([T([L(0), L(1)], r=1, vol=True), T([L(2)])]), std_wfs(), min=mn, max=mx, **STD_CFG))
        out.append(mk(T([T([L(0), L(1)], r=1, vol=True), T([L(2)]), T([L(1), L(0)], r=1, vol=True)]), std_wfs(),
                      min=mn, max=mx, **STD_CFG))
    return out


def fam_piece_lengths(tier):
    """class: the per-piece length limits must hold for EVERY piece: one long piece next to one piece of 16..176 samples
    (multiple of 16 below 192), next to a piece that is not a multiple of 16, a half-integer piece; the offending piece
    first / last / in a nested table; an offending waveform that is in the table but never played is irrelevant; the
    longest piece registered first / last (the sample-time array is sized by the longest)"""
    out = []
    longs = (192, 384) if tier == 'quick' else (192, 208, 384, 1024)
    for i, short in enumerate(range(16, 192, 16)):
        for long_ in (longs if tier != 'quick' else (longs[i % 2],)):
            for order in (0, 1):
                ws = [wf(long_, A=F(1, 4)), wf(short, A=F(-1, 4))]
                if order:
                    ws.reverse()
                out.append(mk(T([L(0), L(1)]), ws, **STD_CFG))
                if tier != 'quick' or order == i % 2:
                    out.append(mk(T([T([L(0), L(1)], r=2), T([L(1), L(0)], r=2)]), ws, min=2, max=4, **STD_CFG))
    for bad in (8, 100, 184, 191, 193, 200, F(385, 2), 376, 383):
        for pos in (0, 1, 2):
            ws = [wf(192, A=F(1, 4)), wf(384, A=F(1, 8)), wf(208, A=0)]
            ws[pos] = wf(bad, A=F(-1, 4))
            if tier != 'quick' or pos != 1:
                out.append(mk(T([L(0), L(1, 2), L(2)]), ws, **STD_CFG))
    # a bad waveform that is never played
    for bad in (16, 176, 100):
        for pos in (0, 1, 2):
            ws = [wf(192, A=F(1, 4)), wf(384, A=F(1, 8)), wf(208, A=0)]
            ws[pos] = wf(bad, A=F(-1, 4))
            played = [i for i in range(3) if i != pos]
            out.append(mk(T([L(played[0]), L(played[1], 2)]), ws, **STD_CFG))
    # valid lengths, every order of (shortest, longest, middle)
    for perm in itertools.permutations([192, 384, 208]):
        ws = [wf(n, A=[(0, F(1, 4)), (n - 1, F(-1, 4))]) for n in perm]
        out.append(mk(T([L(0), L(1), L(2), L(0)]), ws, **STD_CFG))
    return out


def fam_table_patterns(tier):
    """class: a table / waveform that re-occurs after DIFFERENT ones were registered (X,Y,X; X,Y,Z,Y,X; ...), with equal
    or different repetition counts of the re-occurring table, in advanced mode (sequencer tables) and in single mode
    (waveforms -> segments)"""
    out = []
    tabs = {'X': lambda r: T([L(0), L(1)], r=r), 'Y': lambda r: T([L(1), L(0)], r=r), 'Z': lambda r: T([L(0), L(0)], r=r)}
    if tier == 'quick':
        pats = ['XYX', 'XYXY', 'XYZYX', 'XXY', 'XYY', 'XYZX', 'YXZY', 'XYZZ', 'XYZY']
    else:
        pats = [''.join(p) for n in (3, 4) for p in itertools.product('XYZ', repeat=n)] + ['XYZYX', 'XYZXYZ']
    for pat in pats:
        for reps in ([2] * len(pat), [2 + (i % 2) for i in range(len(pat))], [3 if i == len(pat) - 1 else 2 for i in range(len(pat))]):
            out.append(mk(T([tabs[ch](r) for ch, r in zip(pat, reps)]), std_wfs(), min=2, max=4, **STD_CFG))
        out.append(mk(T([L('XYZ'.index(ch)) for ch in pat]), std_wfs(), mode='single', **STD_CFG))
        out.append(mk(T([L('XYZ'.index(ch), 1 + (i % 2)) for i, ch in enumerate(pat)]), std_wfs(), **STD_CFG))
    # tables that become equal only through restructuring (two once-played singletons merged = an existing table)
    out.append(mk(T([T([L(0), L(1)], r=2), T([L(1)]), T([L(0)]), T([L(1)]), T([L(0), L(1)], r=3)]), std_wfs(), min=2, max=4, **STD_CFG))
    out.append(mk(T([T([L(0)]), T([L(1)]), T([L(1), L(0)], r=2), T([L(0), L(1)], r=2)]), std_wfs(), min=2, max=4, **STD_CFG))
    return out


def fam_marker_levels(tier):
    """class: marker levels other than 0 / 1: negative, fractional, tiny; on even samples only, odd samples only (never
    seen at half rate), first / last even / last odd sample"""
    out = []
    n = 192
    pos = {'all': lambda v: [(0, v)], 'even': lambda v: [(0, 0), (10, v), (11, 0)], 'odd': lambda v: [(0, 0), (11, v), (12, 0)],
           'first': lambda v: [(0, v), (1, 0)], 'last_even': lambda v: [(0, 0), (n - 2, v), (n - 1, 0)],
           'last_odd': lambda v: [(0, 0), (n - 1, v)], 'block': lambda v: [(0, 0), (16, v), (33, 0)]}
    levels = [F(-1), F(-1, 64)] if tier == 'quick' else [F(-1), F(-1, 2), F(-1, 64), F(1, 64), F(2), F(-3)]
    slots = [['M', None], [None, 'M'], ['M', 'M'], ['M', 'N'], ['N', 'M']]
    i = 0
    for lvl in levels:
        for name, f in pos.items():
            for markers in (slots if tier != 'quick' else [slots[i % 5]]):
                ws = [wf(n, A=F(1, 4), M=f(lvl), N=f(-lvl)), wf(n, A=F(1, 8), M=0, N=[(0, 0), (95, lvl), (97, 0)])]
                out.append(mk(T([L(0), L(1), L(0, 2)]), ws, channels=['A', None], markers=markers))
            i += 1
    return out


def fam_marker_is_analog(tier):
    """class: a marker assigned to a channel that is also played as an analog output (marker = analog voltage != 0,
    whatever the amplitude / offset / transformation of the analog output), incl. both markers on both analog channels
    crosswise"""
    out = []
    a = [(0, 0), (3, F(1, 4)), (8, 0), (9, F(-1, 4)), (64, 0), (101, F(1, 8)), (150, F(-1, 64)), (190, 0)]
    b = [(0, F(-1, 8)), (2, 0), (5, F(1, 8)), (96, 0), (191, F(1, 4))]
    ws = lambda: [wf(192, A=a, B=b), wf(208, A=b, B=a), wf(192, A=0, B=0)]
    for markers in (['A', 'B'], ['B', 'A'], ['A', 'A'], ['B', None]):
        for amps, offs, tr in ((['1', '1'], ['0', '0'], [['1', '0'], ['1', '0']]),
                               (['1/2', '2'], ['1/8', '-1/8'], [['1', '1/8'], ['-1', '0']]),
                               (['1', '1'], ['1/4', '-1/4'], [['1', '1/4'], ['1', '-1/4']])):   # f(0) - off = 0
            out.append(mk(T([L(0), L(1), L(2), L(0, 2)]), ws(), channels=['A', 'B'], markers=markers, amps=amps,
                          offs=offs, trafo=tr))
    return out


TRAFOS = [['1', '0'], ['2', '0'], ['-1', '0'], ['1', '1/4'], ['1/2', '-1/8']]


def fam_per_channel(tier):
    """class: everything that exists once per output channel differs between the two channels (amplitude, offset,
    voltage transformation, source channel) incl. both outputs fed by the SAME source channel and the two source
    channels assigned crosswise; values stay inside every range, so an exchanged parameter changes codes, not
    accept / reject"""
    out = []
    a = [(0, F(1, 8)), (16, F(-1, 8)), (40, F(1, 16)), (100, 0), (160, F(-1, 16))]
    b = [(0, F(-1, 16)), (7, F(1, 8)), (120, F(1, 32)), (191, F(-1, 8))]
    ws = lambda: [wf(192, A=a, B=b), wf(192, A=b, B=a)]
    pairs = list(itertools.permutations(range(len(TRAFOS)), 2))
    if tier == 'quick':
        pairs = [(0, 1), (1, 0), (2, 4), (4, 2), (3, 0), (1, 3), (2, 2)]
    chans = [['A', 'B'], ['B', 'A'], ['A', 'A'], ['B', 'B']]
    i = 0
    for (ta, tb) in pairs:
        for amps, offs in ((['1/2', '2'], ['1/8', '-1/8']), (['2', '1/2'], ['-1/8', '1/8']), (['1', '16383/16384'], ['0', '1/8'])):
            for ch in (chans if tier != 'quick' else [chans[i % 4]]):
                out.append(mk(T([L(0), L(1, 2)]), ws(), channels=ch, markers=[None, None], amps=amps, offs=offs,
                              trafo=[TRAFOS[ta], TRAFOS[tb]]))
            i += 1
    return out


def fam_none_channels(tier):
    """class: unassigned analog outputs (None -> code 8192) together with both markers assigned, markers on the same
    channel, on the channel the other analog output plays, no analog output at all"""
    out = []
    m = [(0, 1), (96, 0)]
    nn = [(0, 0), (10, F(-1, 2)), (11, 0), (101, 1), (102, 0)]
    for channels in ([None, 'A'], ['A', None], [None, None]):
        for markers in (['M', 'N'], ['M', 'M'], ['N', 'M'], ['A', 'M'], ['M', 'A']):
            ws = [wf(192, A=[(0, F(1, 4)), (50, 0), (60, F(-1, 4))], M=m, N=nn), wf(208, A=F(-1, 8), M=nn, N=m)]
            out.append(mk(T([L(0), L(1), L(0)]), ws, channels=channels, markers=markers))
    return out


def fam_sample_rates(tier):
    """class: sample rates other than 1 for which the leaf length in SAMPLES lands exactly on the minimum 192, on
    multiples of 16, and one sample (or one representable step) beside them; rates 3, 3/2, 3/4, 5/4 have non-dyadic
    sample times k / rate (only hold steps at multiples of 3 resp. 5 samples are used there)"""
    out = []
    dyadic = ['2', '4', '1/2', '1/4', '1/8'] if tier != 'quick' else ['2', '1/4', '8']
    for rate in dyadic:
        for n in (191, 192, 193, 207, 208, 209, 175, 176, 177, 383, 384, 385):
            if tier == 'quick' and n in (207, 209, 383, 385):
                continue
            ws = [wf(n, A=[(0, F(1, 4)), (n // 2, F(-1, 4)), (n - 1, F(1, 8))]), wf(192, A=0)]
            out.append(mk(T([L(0), L(1)]), ws, rate=rate, **STD_CFG))
            if tier != 'quick' or n in (191, 192, 193):
                out.append(mk(T([L(1), L(0, 2)]), list(reversed(ws)), rate=rate, **STD_CFG))
    for rate, step in (('3', 3), ('3/2', 3), ('3/4', 3), ('5/4', 5), ('5', 5)):
        for n in sorted({192 - step, 192, 192 + step, 240 - step, 240, 240 + step}):
            ws = [wf(n, A=[(0, F(1, 4)), (6 * step, F(-1, 4)), (20 * step, F(1, 8))]), wf(240, A=0)]
            out.append(mk(T([L(0), L(1), L(0)]), ws, rate=rate, **STD_CFG))
    return out


TARGET_TREES = [
    T([T([L(0), L(1, 2)], r=2), L(0)]),
    T([T([L(0)]), T([L(1), L(0)], r=3)]),
    T([T([L(1), L(0)], r=3), T([L(0, 2)])]),
    T([L(0, 3), L(1, 4)], r=5),
    L(0, 3),
    T([T([L(0)]), T([L(1)]), T([L(0)])]),
    T([T([T([L(0), L(1)], r=2)], r=2, meas=True), L(1)], r=2),
    T([T([L(0)], r=2), T([L(1)])]),
    T([T([L(1)]), T([L(0)], r=2)]),
    T([T([L(0), L(1)], r=3), T([L(1)]), T([L(0)], r=2)]),
    T([T([L(0)], r=4), T([L(1), L(0)]), T([L(1)])]),
]


VOL_TREES = [
    T([L(0), L(1, 2)], vol=True),                                             # volatile root: encapsulated
    T([T([L(0)], vol=True), T([L(1)])]),                                      # no merging with a volatile table
    T([T([L(0), L(1)], r=3, vol=True), T([L(2), L(0), L(2), L(1)])]),         # a short volatile table is not unrolled
    T([T([L(0)], r=2, vol=True), T([L(1)])]),                                 # lends one iteration: count becomes fixed
    T([T([L(1)]), T([L(0)], r=3, vol=True)]),
    T([T([L(0, 2), L(1, 3, vol=True)]), T([L(1), L(0), L(1), L(0)])]),        # split_one_child: fixed child preferred
    T([T([L(0), L(1, 3, vol=True)]), T([L(1), L(0), L(1), L(0)])]),           # ... falls back to the volatile one
    T([T([T([L(0), L(1)], vol=True)], r=2, meas=True), L(1)]),
    T([T([T([L(0)])], r=2, vol=True), T([T([L(1)], vol=True)])]),             # merged counts: scaled property
    T([T([T([L(0)], r=3, vol=True)], r=2, vol=True), T([L(1), L(2)])]),       # volatile * volatile: operation
    T([T([T([T([L(0)], r=2, vol=True)], r=3, vol=True)], r=2, vol=True), T([L(1), L(2)], r=2)]),   # nested operation
    T([T([T([L(0, 2, vol=True)])], r=0), L(1)]),                              # scaled by 0
    T([T([L(0, 1, vol=True)]), T([L(0)]), T([L(0, 1, vol=True)])]),           # tables equal up to the volatile tags
]


def fam_compiled_twice(tier):
    """class (stateful): the SAME Loop object is compiled twice (TaborProgram restructures its argument in place: a
    program uploaded to two channel pairs, or again with other limits); the second compilation starts from whatever
    the first left behind — also when the first one raised half way"""
    out = []
    combos = [({'min': 1, 'max': 16}, {'min': 3, 'max': 4}), ({'min': 3, 'max': 5}, {'min': 1, 'max': 16}),
              ({'min': 3, 'max': 4}, {'min': 3, 'max': 4}), ({'min': 6, 'max': 6}, {'min': 2, 'max': 8}),
              ({'min': 2, 'max': 3, 'mode': 'advanced'}, {'min': 2, 'max': 8, 'mode': 'single'}),
              ({'min': 1, 'max': 16, 'mode': 'single'}, {'min': 2, 'max': 5})]
    for i, t in enumerate(TARGET_TREES):
        for j, (first, second) in enumerate(combos):
            if tier == 'quick' and (i + j) % 2:
                continue
            out.append(mk(t, std_wfs(), extra={'first': first}, **dict(STD_CFG, **second)))
    # volatile counts: the first compilation merges (scaled / combined properties), lends iterations and splits
    # children (counts become fixed); the read-back carries the property terms
    for i, t in enumerate(VOL_TREES):
        for j, (first, second) in enumerate(combos):
            if tier == 'quick' and (i + j) % 3:
                continue
            out.append(mk(t, std_wfs(), extra={'first': first}, **dict(STD_CFG, **second)))
    # repetition counts 0: the first compilation unrolls the 0-count nodes away (a node may be left without children
    # and without waveform: it plays nothing, and the second compilation rejects it)
    zero_trees = [T([T([T([L(0)]), T([L(1), L(0)], r=2)], r=0)]),
                  T([T([L(0), L(1)], r=2), T([T([L(1)]), T([L(0, 0), L(1)])], r=0), T([L(2), L(0)])]),
                  T([T([L(0, 0), L(1)], r=2), T([L(2, 0)])])]
    for t in zero_trees:
        for first, second in combos[:3]:
            out.append(mk(t, std_wfs(), extra={'first': first}, **dict(STD_CFG, **second)))
    return out


def fam_names(tier):
    """class (name coincidence): channel ids that are falsy (the integer 0, mixed int / str ids), a swap mapping
    {A: B, B: A} between the leaves and the program, outputs that are linear mixtures of the described channels
    (TransformingWaveform leaves: A = P + Q, B = P - Q), measurements declared as an empty list"""
    out = []
    a = [(0, F(1, 8)), (16, F(-1, 8)), (100, 0)]
    b = [(0, 0), (7, F(1, 8)), (191, F(-1, 8))]
    ws = lambda: [wf(192, A=a, B=b), wf(208, A=b, B=a)]
    tree = lambda: T([L(0), L(1, 2), L(0)])
    for names in ({'A': 0}, {'B': 0}, {'A': 0, 'B': 1}, {'A': 1, 'B': 0}):
        for channels, markers in ((['A', 'B'], ['B', 'A']), (['B', None], ['A', None]), ([None, 'A'], [None, 'B'])):
            out.append(mk(tree(), ws(), channels=channels, markers=markers, extra={'names': names}))
    for build in ('direct', 'template'):
        for channels, markers in ((['A', 'B'], [None, None]), (['B', 'A'], ['A', None]), (['A', None], [None, 'B'])):
            out.append(mk(tree(), ws(), build=build, channels=channels, markers=markers,
                          extra={'chmap': {'A': 'B', 'B': 'A'}}))
    for mix in ({'A': [['1', 'P'], ['1', 'Q']], 'B': [['1', 'P'], ['-1', 'Q']]},
                {'A': [['0', 'P'], ['1', 'Q']], 'B': [['1', 'P'], ['0', 'Q']]},            # a pure swap as a matrix
                {'A': [['2', 'P'], ['1/2', 'Q']], 'B': [['1', 'P'], ['1', 'Q']]}):
        for channels, markers in ((['A', 'B'], ['A', 'B']), (['B', 'A'], [None, 'B'])):
            wsm = [dict(wf(192, P=a, Q=b), mix=mix), dict(wf(192, P=b, Q=b), mix=mix), dict(wf(192, P=b, Q=a), mix=mix)]
            out.append(mk(T([L(0), L(1), L(2), L(1)]), wsm, channels=channels, markers=markers))
    # measurements=[] on nodes whose merging / unrolling depends on "has measurements"
    for mn, mx in ((1, 8), (2, 4), (3, 6)):
        out.append(mk(T([T([T([L(0), L(1)], r=2)], r=2, meas='empty'), L(1)], r=2), std_wfs(), min=mn, max=mx, **STD_CFG))
        out.append(mk(T([T([T([L(0), L(1)], r=1)], r=2, meas='empty'), T([L(1)], meas='empty')]), std_wfs(), min=mn, max=mx, **STD_CFG))
    return out


def fam_same_source(tier):
    """class (seed C16-5): ONE source channel id feeds BOTH analog outputs while the outputs differ in exactly one of
    amplitude / offset / voltage transformation (or in all of them): anything computed once per SOURCE instead of once
    per OUTPUT shows up as wrong codes on output B only.  Both modes, the shared source also used as a marker, a falsy
    shared id (0), the shared source reached through a swap mapping"""
    out = []
    a = [(0, F(1, 8)), (16, F(-1, 8)), (40, F(1, 16)), (100, 0), (160, F(-1, 16)), (191, F(3, 32))]
    b = [(0, F(-1, 16)), (7, F(1, 8)), (120, F(1, 32))]
    ws = lambda: [wf(192, A=a, B=b), wf(208, A=b, B=a)]
    same = dict(amps=['1', '1'], offs=['0', '0'], trafo=[['1', '0'], ['1', '0']])
    diffs = [dict(amps=['1', '2']), dict(amps=['1/2', '1']), dict(offs=['0', '1/8']), dict(offs=['-1/8', '0']),
             dict(trafo=[['1', '0'], ['-1', '0']]), dict(trafo=[['2', '0'], ['1', '0']]),
             dict(trafo=[['1', '0'], ['1', '1/16']]),
             dict(amps=['1', '16383/16384']),                                   # differs by one code near the ends only
             dict(amps=['1/2', '2'], offs=['1/8', '-1/8'], trafo=[['1', '1/8'], ['-1', '0']])]
    trees = [T([L(0), L(1, 2)]), T([T([L(0), L(1)], r=2), T([L(1), L(0)], r=3)])]
    i = 0
    for src in ('A', 'B'):
        for d in diffs:
            for ti, tree in enumerate(trees):
                if tier == 'quick' and (i + ti) % 2:
                    continue
                out.append(mk(tree, ws(), channels=[src, src], markers=[None, None], min=2 if ti else 1, max=4 if ti else 16,
                              **dict(same, **d)))
            i += 1
    for d in (diffs[0], diffs[2], diffs[4], diffs[8]):
        out.append(mk(trees[0], ws(), channels=['A', 'A'], markers=['A', 'B'], **dict(same, **d)))
        out.append(mk(trees[0], ws(), channels=['A', 'A'], markers=[None, None], extra={'names': {'A': 0}}, **dict(same, **d)))
        out.append(mk(trees[0], ws(), channels=['B', 'B'], markers=[None, 'A'], extra={'chmap': {'A': 'B', 'B': 'A'}},
                      **dict(same, **d)))
    # control: same source AND same settings (must equal output A), and different sources with equal data
    out.append(mk(trees[0], ws(), channels=['A', 'A'], markers=[None, None], **same))
    out.append(mk(trees[0], [wf(192, A=a, B=a), wf(208, A=b, B=b)], channels=['A', 'B'], markers=[None, None],
                  **dict(same, **diffs[8])))
    return out


def fam_repeats_vs_limits(tier):
    """class (seed C16-6): the device limits count TABLE ENTRIES, not distinct waveforms / distinct tables: programs
    whose pieces repeat (A,B,A,B,A: 5 entries, 2 distinct) with max_seq_len / min_seq_len placed between the number of
    distinct pieces and the number of entries, in single mode (flat program), automatic mode and inside the sequencer
    tables of advanced mode; the repeats are the same object, equal objects (two descriptions of one class), or the
    same waveform with different counts"""
    out = []
    pats = ['ABABA', 'AAAA', 'ABAB', 'ABCABC', 'AAB'] if tier == 'quick' else \
        ['ABABA', 'AAAA', 'ABAB', 'ABCABC', 'AAB', 'AA', 'ABA', 'ABCA', 'AABBAABB', 'ABCBA', 'AAAAAA']

    def wfs3(twins):
        ws = std_wfs()
        if twins:          # description 3 is an equal copy of description 0 (same class, another object)
            ws.append(wf(192, A=F(1, 4)))
        return ws
    for pat in pats:
        n, d = len(pat), len(set(pat))
        for mx in sorted({max(1, d - 1), d, n - 1, n, n + 1} if tier != 'quick' else {d, n - 1, n}):
            for mode in ('single', None):
                if tier == 'quick' and mode is None and mx != d:
                    continue
                for twins in ((False, True) if tier != 'quick' else (False,)):
                    leaves = [L('ABC'.index(ch)) for ch in pat]
                    if twins:          # every second occurrence of A is the equal copy
                        occ = [sum(1 for x in pat[:k] if x == 'A') for k in range(n)]
                        leaves = [L(3) if (pat[k] == 'A' and occ[k] % 2) else lf for k, lf in enumerate(leaves)]
                    out.append(mk(T(leaves), wfs3(twins), min=1, max=mx, mode=mode, **STD_CFG))
        # the same repeats with counts (entries stay n)
        out.append(mk(T([L('ABC'.index(ch), 1 + k % 3) for k, ch in enumerate(pat)]), std_wfs(), min=1, max=d, mode='single',
                      **STD_CFG))
        out.append(mk(T([L('ABC'.index(ch), 1 + k % 3) for k, ch in enumerate(pat)]), std_wfs(), min=1, max=n, mode='single',
                      **STD_CFG))
        # advanced mode: a repeated table made of repeats; limits between distinct and entries (upper and lower bound)
        tab = lambda r: T([L('ABC'.index(ch)) for ch in pat], r=r)
        for mn, mx in sorted({(1, max(1, d - 1)), (1, d), (1, n - 1), (1, n), (d, n), (d + 1, n + 1), (n, n), (n + 1, n + 2)}):
            if mn > mx or (tier == 'quick' and (mn, mx) not in ((1, d), (1, n - 1), (n, n), (n + 1, n + 2))):
                continue
            out.append(mk(T([tab(2), T([L(1), L(2)], r=3), tab(2)]), std_wfs(), min=mn, max=mx, **STD_CFG))
    # equal TABLES repeated: the advanced table has 4 entries but 2 distinct sequencer tables
    X, Y = (lambda: T([L(0), L(1)], r=2)), (lambda: T([L(1), L(1)], r=2))
    for mn, mx in ((1, 2), (2, 2), (2, 3), (3, 4)):
        out.append(mk(T([X(), Y(), X(), Y()]), std_wfs(), min=mn, max=mx, **STD_CFG))
    return out


def fam_near_integer(tier):
    """class (numerics off the grid): a piece whose float duration is a hair beside an integer number of samples.
    get_waveform_length rounds and accepts a deviation of at most 1e-10 samples: +-2^-40, +-2^-34 (5.8e-11) are played as
    the nominal count, +-2^-33 (1.16e-10), +-2^-30 are rejected, a piece of 2^-40 samples rounds to 0 (rejected);
    TablePT and ConstantPT leaves, the odd piece first / last"""
    out = []
    good = lambda: wf(192, A=F(1, 8))
    i = 0
    for base in (192, 208):
        for k in (40, 34, 33, 30):
            for sign in (1, -1):
                for pt in ('table', 'const'):
                    i += 1
                    if tier == 'quick' and i % 2:
                        continue
                    odd = dict(wf(base, A=F(1, 4)), eps=str(F(sign, 2 ** k)), pt=pt)
                    ws = [odd, good()] if i % 4 < 2 else [good(), odd]
                    out.append(mk(T([L(0), L(1, 2)]), ws, **STD_CFG))
    for k in (40, 20):
        for pt in ('table', 'const'):
            tiny = dict(wf(0, A=F(1, 4)), eps=str(F(1, 2 ** k)), pt=pt)
            out.append(mk(T([L(0), L(1)]), [good(), tiny], **STD_CFG))
    return out


def fam_measurements(tier):
    """class: measurements on BOTH a node and its single child (Loop._merge_single_child joins the two lists when the
    child's count is a fixed 1, otherwise the node is unrolled), incl. a leaf child carrying a measurement"""
    out = []
    LM = lambda w, r=1: [r, True, w, []]
    trees = [T([T([T([L(0), L(1)], meas=True)], r=2, meas=True), L(1)]),
             T([T([LM(0)], r=2, meas=True), L(1)]),
             T([T([T([L(0), L(1)], r=2, meas=True)], r=2, meas=True), L(1)]),
             T([T([T([L(0), L(1)], meas=True)], meas=True), T([L(1)], meas=True)]),
             T([T([T([LM(0), L(1)], meas=True)], r=3, meas=True), T([LM(1, 2)], r=2, meas=True)], meas=True)]
    for t in trees:
        for mn, mx in ((1, 8), (2, 4)):
            for build in ('direct', 'template'):
                out.append(mk(t, std_wfs(), build=build, min=mn, max=mx, **STD_CFG))
    return out


def fam_lend_then_split(tier):
    """class (seed C16-8, aliasing between neighbour tables): a once-played SHORT table that is extended by ONE peeled
    iteration of a repeated neighbour which is short itself, so that the extended table is still below min_seq_len and is
    extended FURTHER by split_one_child — which decrements an entry's count in place.  If the peeled entries are the
    neighbour's own Loop objects (not copies), the neighbour's table loses repetitions too, and its own later split
    works on the altered count.  Neighbour before / after / on both sides, one or two entries with counts > 1, fixed
    and volatile entry counts, limits on the boundary of every test of that branch"""
    out = []
    ks = (2, 3) if tier == 'quick' else (2, 3, 4)
    rs = (5,) if tier == 'quick' else (2, 3, 5)
    for k in ks:
        for r in rs:
            Y1 = lambda: T([L(1, r)], r=k)                       # k x [ Y played r times ]
            Y2 = lambda: T([L(1, r), L(2, 2)], r=k)              # two entries with counts
            X = lambda: T([L(0)])
            pats = {'XY': lambda Y: [X(), Y()], 'YX': lambda Y: [Y(), X()], 'YXY': lambda Y: [Y(), X(), Y()],
                    'XYU': lambda Y: [X(), Y(), T([L(2), L(0), L(2), L(1)])],
                    'UYX': lambda Y: [T([L(2), L(0), L(2), L(1)]), Y(), X()]}
            for name, f in pats.items():
                for Y, ny in ((Y1, 1), (Y2, 2)):
                    lims = {(ny + 2, ny + 3), (ny + 2, 8), (ny + 3, 8), (ny + 3, ny + 4)}
                    if tier != 'quick':
                        lims |= {(ny + 2, ny + 2), (ny + 4, 8), (ny + 1, 8), (ny + 5, 16)}
                    for mn, mx in sorted(lims):
                        if tier == 'quick' and name in ('XYU', 'UYX') and (mn, mx) != (ny + 2, 8):
                            continue
                        out.append(mk(T(f(Y)), std_wfs(), min=mn, max=mx, **STD_CFG))
    # the entry that is split has a volatile count (split_one_child falls back to it) / the neighbour's count is volatile
    for mn, mx in ((3, 8), (4, 8)):
        out.append(mk(T([T([L(0)]), T([L(1, 5, vol=True)], r=3)]), std_wfs(), min=mn, max=mx, **STD_CFG))
        out.append(mk(T([T([L(1, 5)], r=3, vol=True), T([L(0)])]), std_wfs(), min=mn, max=mx, **STD_CFG))
        out.append(mk(T([T([L(0)]), T([L(1, 5), L(2, 3, vol=True)], r=2)]), std_wfs(), min=mn + 1, max=mx, **STD_CFG))
    # compiled twice: the shared entries would also show in the tree the first compilation leaves behind
    for first in ({'min': 3, 'max': 8}, {'min': 4, 'max': 8}):
        out.append(mk(T([T([L(0)]), T([L(1, 5)], r=3)]), std_wfs(), extra={'first': first}, min=2, max=8, **STD_CFG))
        out.append(mk(T([T([L(1, 5)], r=3), T([L(0)]), T([L(2, 4)], r=2)]), std_wfs(), extra={'first': first}, min=2, max=8, **STD_CFG))
    return out


def staircase(n, lo, hi, value):
    """a hold step at EVERY sample index lo <= k < hi (value(k) differs from value(k - 1)), constant outside"""
    return [(0, value(0))] + [(k, value(k)) for k in range(max(lo, 1), min(hi, n))]


def fam_step_on_sample(tier):
    """class (seed C16-10, sample TIMES off the binary grid): a sample rate whose period den/num is not a binary fraction
    (11/5, 7/4, 23/10, 3, 7/3: the double nearest to the period lies below it; 9/5, 6/5, 12/5, 7/5, 13/10: above it), so
    that the time k/rate of almost every sample is a ROUNDED double, together with a discontinuity of the source exactly
    on sample k — for EVERY k of the piece: the voltage is a staircase with a new level at each sample, the marker
    toggles at each marker sample (every 2nd sample).  A sample time that is one ulp below (above) the double nearest to
    k/rate plays the level from before (after) the step at that k.  Pieces of 192 / 208 / 240 samples, one piece longer
    than the other (the time array is sized by the longest), staircase on the analog channel, on the marker, on both;
    direct and template builds"""
    out = []
    down = ['11/5', '7/4', '23/10', '3', '7/3']
    up = ['9/5', '6/5', '12/5', '7/5', '13/10']
    rates = (down[:3] + up[:2]) if tier == 'quick' else (down + up + ['11/10', '5/3', '9/4', '1/3', '3/7'])
    va = lambda k: F((k * 37) % 129 - 64, 128)                 # neighbours always differ, |v| <= 1/2
    vb = lambda k: F((k * 29) % 65 - 32, 64)
    vm = lambda k: F((k // 2) % 2)                             # toggles at every even sample
    vn = lambda k: F(1 - (k // 2) % 2) * F(-1, 2)
    for i, rate in enumerate(rates):
        for n0, n1 in (((192, 208),) if tier == 'quick' else ((192, 208), (240, 192), (384, 192))):
            ws = [wf(n0, A=staircase(n0, 0, n0, va), M=staircase(n0, 0, n0, vm)),
                  wf(n1, A=staircase(n1, 0, n1, vb), M=staircase(n1, 0, n1, vn))]
            build = 'template' if i % 2 else 'direct'
            out.append(mk(T([L(0, 2), L(1), L(0)]), ws, rate=rate, build=build, channels=['A', None], markers=['M', None]))
            if tier != 'quick':
                out.append(mk(T([T([L(0), L(1)], r=2), T([L(1), L(1)], r=2)]), ws, rate=rate, min=2, max=4,
                              channels=['A', 'A'], markers=['M', 'A'], amps=['1', '1/2'], offs=['0', '0']))
        # a staircase on a window only (few table entries), the rest constant: the marker alone / the voltage alone
        ws = [wf(192, A=staircase(192, 1, 64, va), M=F(1)), wf(192, A=F(1, 8), M=staircase(192, 2, 192, vm))]
        out.append(mk(T([L(1), L(0)]), ws, rate=rate, channels=[None, 'A'], markers=[None, 'M']))
    return out


FAMILIES = [
    ('step_on_sample', fam_step_on_sample),
    ('lend_then_split', fam_lend_then_split),
    ('measurements', fam_measurements),
    ('near_integer', fam_near_integer),
    ('same_source', fam_same_source),
    ('repeats_vs_limits', fam_repeats_vs_limits),
    ('short_after_repeated', fam_short_after_repeated),
    ('piece_lengths', fam_piece_lengths),
    ('table_patterns', fam_table_patterns),
    ('marker_levels', fam_marker_levels),
    ('marker_is_analog', fam_marker_is_analog),
    ('per_channel', fam_per_channel),
    ('none_channels', fam_none_channels),
    ('sample_rates', fam_sample_rates),
    ('compiled_twice', fam_compiled_twice),
    ('names', fam_names),
]


def families(tier):
    out = []
    for name, f in FAMILIES:
        for c in f(tier):
            c['family'] = name
            out.append(c)
    return out
