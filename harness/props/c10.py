"""C10 — stored pulse templates load back as the same pulse."""
import fractions
import hashlib
import json
import os
import shutil
import warnings

import vlib
from vlib import gZ, gbool, gstr, glist, gopt
from props import c10_gen as G

F = fractions.Fraction
PID = 'C10'
COQ_DIRS = ['common', 'C10']
TARGETS = ['C10/Props.vo', 'C10/Corr.vo']
MODEL_TARGETS = ['C10/Corr.vo']
PROPS_FILE = 'C10/Props.v'
PROPS_MODULE = 'QV.C10.Props'
CORR_IMPORTS = ['QV.C10.Model', 'QV.C10.Hist', 'QV.C10.Corr']
CHECK_CORR = 'check_corr'
CHECK_SPEC = 'check_spec'
SHARD = 40
RULE = ('store cases: a forest of real pulse templates of all 14 classes (random shapes, identifiers on random subsets, '
        'the same named object shared by several parents / roots, measurements, constraints, parameter expressions, '
        'int and str channel ids, identifier clashes between distinct objects, mappings that rebind a name to an expression '
        'of itself / swap two parameters, measurement names or channels, a table parameter called t), a random history of '
        'pulse_storage[id] = template over 1-2 PulseStorage instances on one backend (dict / directory / zip); '
        'observation = outcome of every store, all backend documents (parsed, key order ignored, expression strings '
        'replaced by a semantic fingerprint), and for every stored root what a FRESH PulseStorage loads: ==, interface '
        '(parameter/measurement names, channels, integral, initial/final values incl. WHICH accesses raise), duration, '
        'rendered program + measurement windows for 2 parameter assignments, identity sharing incl. repeated queries on '
        'the same storage; storing must not change the stored objects. '
        'empties: every optional constructor argument of every class declared with each empty value ([], {}, set(), None, 0, '
        '0.0, False), AbstractPT: cross product not declared / declared empty / declared non-empty; as a root and as a named '
        'child. hist cases: histories on ONE PulseStorage of store / overwrite (same object, other object) / delete / '
        're-store / link_to(serialize_linked) / unlink between stores; the model gets the state of the object at every '
        'operation. doc cases: valid documents with optional keys dropped / defaults spelled differently, loaded and '
        're-stored. pinned cases: documents written by the pinned code (corpus) must load to the template recorded then. '
        'round 4 families (c10_ord.py): order-sensitive fields (members of every list / tuple / dict valued argument in '
        'non-sorted name orders with different duration expressions and own windows; loaded vs original also compared '
        'structurally through their public properties, list orders kept), exact rational constants, numpy scalars, floats '
        'off the decimal grid as float / string / ExpressionScalar, constructor spellings found by the coverage audit; '
        'dur cases: the value of the declared duration under 4 assignments against the model term. '
        'round 5 families: exprobj (expression texts with float sub-expressions whose printed parsed form differs from the '
        'text, handed over as ExpressionScalar object / as text / through with_parallel_channels, in every expression '
        'position), intval (integer channel ids as values, unflagged). doc and dur cases are correspondence-only case kinds '
        '(check_spec = true for them); a failing case counts as a known finding only when every clause other than the load '
        'clause holds and every failing root shows the symptom of the finding (classify). '
        'round 6 families: constraint (32 kinds of relation - unequality as text / sympy object / ParameterConstraint '
        'object, ==, <, <=, >, >=, And, Or, Not, Xor, Implies, ITE, relations over Abs / Max / rationals / powers, constant '
        'relations - as parameter constraint of each of the 8 constraint carrying classes, observed with 4 further '
        'assignments that violate / satisfy each relation: the loaded pulse must reject exactly what the original '
        'rejects), amcdur (explicit AtomicMultiChannelPT duration 0 / 1 / 2 as int, float, numpy scalar, string, '
        'ExpressionScalar, bool; alone, referenced and embedded). '
        'Non-trivial = at least one named sub-template below a root, a doc case that changes the document, a history '
        'with at least two operations one of which succeeds, or a dur case with a rational duration value.')
TRUSTED = [
    'Coq 8.16.1 kernel + vm_compute',
    'text level is an oracle: json.dumps/json.loads, sympy printing/parsing of expression strings, repr(float) round trip '
    '(expression strings are compared by a semantic fingerprint: exact evaluation on 4 rational environments)',
    'harness: introspection of the real template objects through their public properties (not through '
    'get_serialization_data), document canonicalisation, Gallina printers, table of free symbols per expression (sympy)',
    'behavioural equality of original and loaded pulse is observed on the implementation (render at sample rate 1, '
    'measurement windows) for 2 parameter assignments, not proved from a semantics of templates',
]
ASSUMPTIONS = [
    'default pulse registry is None (qupulse default); registries are not part of the model',
    'identifiers are non-empty file-name-safe strings',
    'a nested unnamed unconstrained MappingPT directly below a MappingPT never exists (merged by MappingPT.__init__)',
    'no dict key (channel / parameter / measurement name) is "#type"',
]

TMP_ROOT = os.path.join(vlib.BUILD, 'scratch.%d' % os.getpid())
_case_counter = [0]


# ---------------------------------------------------------------------------------------------------------------------
# real classes <-> model tags
def _classes():
    from qupulse.pulses import (TablePT, PointPT, FunctionPT, ConstantPT, SequencePT, RepetitionPT, ForLoopPT,
                                MappingPT, AtomicMultiChannelPT, ParallelChannelPT, ArithmeticPT,
                                ArithmeticAtomicPT, TimeReversalPT)
    from qupulse.pulses.abstract_pulse_template import AbstractPulseTemplate
    return {'Table': TablePT, 'Point': PointPT, 'Function': FunctionPT, 'Constant': ConstantPT, 'Sequence': SequencePT,
            'Repetition': RepetitionPT, 'ForLoop': ForLoopPT, 'Mapping': MappingPT, 'AtomicMulti': AtomicMultiChannelPT,
            'Parallel': ParallelChannelPT, 'Arithmetic': ArithmeticPT, 'ArithmeticAtomic': ArithmeticAtomicPT,
            'TimeReversal': TimeReversalPT, 'Abstract': AbstractPulseTemplate}


def _tag_of_type():
    return {cls.get_type_identifier(): tag for tag, cls in _classes().items()}


def _tag(obj):
    for tag, cls in _classes().items():
        if type(obj) is cls:
            return tag
    raise TypeError('unknown template class %r' % type(obj))


# ---------------------------------------------------------------------------------------------------------------------
# semantic fingerprint of expressions
_ENVS = None
_fp_cache = {}
_fp_vars = {}      # fingerprint -> free symbols (oracle table for the model's parameter_names)
_fp_expr = {}      # fingerprint -> sympy expression (oracle table for the model's duration values)


def _envs():
    global _ENVS
    if _ENVS is None:
        names = [chr(c) for c in range(ord('a'), ord('z') + 1)]
        e0 = {n: F(3 + 2 * k, 1 + (k % 3)) for k, n in enumerate(names)}
        e1 = {n: F(50 - 3 * k, 7) for k, n in enumerate(names)}
        e2 = {n: F(1) for n in names}
        e3 = {n: F(-(k % 5) - 1, 2) for k, n in enumerate(names)}
        _ENVS = [e0, e1, e2, e3]
    return _ENVS


def _env_sub(syms, env):
    import sympy
    return {s: sympy.Rational(env.get(str(s)[:1].lower(), F(5, 3)).numerator,
                              env.get(str(s)[:1].lower(), F(5, 3)).denominator) + len(str(s)) - 1 for s in syms}


def _fingerprint(sym):
    """canonical serialised form of a sympy expression, mirroring the *shape* of get_most_simple_representation:
    int / float stay numbers, everything else becomes an opaque id that identifies the expression semantically."""
    import sympy
    key = sympy.srepr(sym)
    if key in _fp_cache:
        return _fp_cache[key]
    if not sym.free_symbols and getattr(sym, 'is_Integer', False):
        r = {'i': int(sym)}
    elif not sym.free_symbols and getattr(sym, 'is_Float', False):
        r = {'f': vlib.frac_json(float(sym))}
    else:
        syms = sorted(sym.free_symbols, key=str)
        vals = []
        for env in _envs():
            sub = {s: sympy.Rational(env.get(str(s)[:1].lower(), F(5, 3)).numerator,
                                     env.get(str(s)[:1].lower(), F(5, 3)).denominator) + len(str(s)) - 1 for s in syms}
            try:
                v = sym.subs(sub)
                if getattr(v, 'is_Rational', False) or v in (sympy.true, sympy.false):
                    vals.append(str(v))
                else:
                    vals.append(str(sympy.N(v, 20)))
            except Exception as e:   # noqa
                vals.append('err:' + type(e).__name__)
        h = hashlib.sha1(repr(([str(s) for s in syms], vals)).encode()).hexdigest()[:10]
        r = {'s': 'E' + h}
        _fp_vars['E' + h] = [str(s) for s in syms]
        _fp_expr['E' + h] = sym
    _fp_cache[key] = r
    return r


def fp_value(x):
    """fingerprint of a value found in a document or in an object: int / float / str / Expression / sympy"""
    import sympy
    from qupulse.utils.sympy import sympify
    if isinstance(x, bool):
        return {'s': 'BOOL'}
    if isinstance(x, int):
        return {'i': int(x)}
    if isinstance(x, float):
        return {'f': vlib.frac_json(x)}
    if isinstance(x, str):
        try:
            if '==' in x:     # ParameterConstraint's own reading of '=='
                a, b = x.split('==')
                return _fingerprint(sympy.Eq(sympify(a), sympify(b)))
            e = sympify(x)
        except vlib.Timeout:
            raise
        except Exception:   # noqa  a text the expression parser rejects ('(a < b) ^ (b < c)': known finding cons_text)
            return {'s': 'U' + hashlib.sha1(x.encode()).hexdigest()[:10]}
        if isinstance(e, bool):     # 'True' / 'a!=b' come out of the parser as a python bool
            e = sympy.true if e else sympy.false
        return _fingerprint(e)
    if hasattr(x, 'underlying_expression'):
        u = x.underlying_expression
        if hasattr(u, 'shape') and not isinstance(u, sympy.Basic):     # ExpressionVector
            return [_fingerprint(e) for e in u.flat]
        return _fingerprint(u)
    if hasattr(x, 'sympified_expression'):
        return _fingerprint(x.sympified_expression)
    if isinstance(x, sympy.Basic):
        return _fingerprint(x)
    if isinstance(x, (list, tuple)):
        return [fp_value(e) for e in x]
    if hasattr(x, 'numerator'):   # TimeType
        return _fingerprint(sympy.Rational(int(x.numerator), int(x.denominator)))
    raise TypeError('no fingerprint for %r' % (x,))


def fp_json(x):
    """the fingerprint as a canonical document value"""
    r = fp_value(x)
    if isinstance(r, list):
        return [_fpj(e) for e in r]
    return _fpj(r)


def _fpj(r):
    if 'i' in r:
        return r['i']
    if 'f' in r:
        return {'#float': r['f']}
    return r['s']


# ---------------------------------------------------------------------------------------------------------------------
# introspection of a real object -> JSON description of the model term
def _chan(c):
    return {'ci': int(c)} if isinstance(c, int) and not isinstance(c, bool) else {'cs': str(c)}


def _chan_sort_key(c):
    return (0, c['ci'], '') if 'ci' in c else (1, 0, c['cs'])


def _entry(e):
    interp = None if e.interp is None else str(e.interp)
    return [fp_value(e.t), fp_value(e.v), interp]


def _meas(obj):
    return [[str(n), fp_value(b), fp_value(l)] for n, b, l in obj.measurement_declarations]


def _cons(obj):
    return [fp_value(c.sympified_expression)['s'] for c in obj.parameter_constraints]


def introspect(obj, oids):
    """model term (JSON form) of a real pulse template; shared objects get the same oid"""
    tag = _tag(obj)
    oid = oids.setdefault(id(obj), len(oids) + 1)
    d = {'cls': tag, 'oid': oid, 'id': obj.identifier}
    sub = lambda o: introspect(o, oids)
    if tag == 'Table':
        d['entries'] = [[_chan(ch), [_entry(e) for e in es]] for ch, es in obj.entries.items()]
        d['cons'], d['meas'] = _cons(obj), _meas(obj)
    elif tag == 'Point':
        d['points'] = [_entry(e) for e in obj.point_pulse_entries]
        d['chans'] = [_chan(c) for c in obj._channels]
        d['cons'], d['meas'] = _cons(obj), _meas(obj)
    elif tag == 'Function':
        d['ex'], d['dur'] = fp_value(obj.expression), fp_value(obj.duration)
        (ch,) = tuple(obj.defined_channels)
        d['ch'] = _chan(ch)
        d['cons'], d['meas'] = _cons(obj), _meas(obj)
    elif tag == 'Constant':
        d['name'] = obj._name
        d['dur'] = fp_value(obj._duration)
        d['amps'] = [[_chan(ch), fp_value(v)] for ch, v in obj._amplitude_dict.items()]
        d['meas'] = _meas(obj)
    elif tag == 'Sequence':
        d['subs'] = [sub(s) for s in obj.subtemplates]
        d['cons'], d['meas'] = _cons(obj), _meas(obj)
    elif tag == 'Repetition':
        d['body'], d['count'] = sub(obj.body), fp_value(obj.repetition_count)
        d['cons'], d['meas'] = _cons(obj), _meas(obj)
    elif tag == 'ForLoop':
        d['body'], d['idx'] = sub(obj.body), obj.loop_index
        r = obj.loop_range
        d['rng'] = [fp_value(r.start), fp_value(r.stop), fp_value(r.step)]
        d['cons'], d['meas'] = _cons(obj), _meas(obj)
    elif tag == 'Mapping':
        d['tmpl'] = sub(obj.template)
        d['pmap'] = [[str(k), fp_value(v)] for k, v in obj.parameter_mapping.items()]
        d['mmap'] = [[str(k), str(v)] for k, v in obj.measurement_mapping.items()]
        d['cmap'] = [[_chan(k), None if v is None else _chan(v)] for k, v in obj.channel_mapping.items()]
        d['cons'] = _cons(obj)
    elif tag == 'AtomicMulti':
        d['subs'] = [sub(s) for s in obj.subtemplates]
        d['cons'], d['meas'] = _cons(obj), _meas(obj)
        d['dur'] = None if obj._duration is None else fp_value(obj._duration)
    elif tag == 'Parallel':
        d['tmpl'] = sub(obj.template)
        d['over'] = [[_chan(ch), fp_value(v)] for ch, v in obj.overwritten_channels.items()]
    elif tag == 'Arithmetic':
        from qupulse.pulses.pulse_template import PulseTemplate
        lhs_pt = isinstance(obj.lhs, PulseTemplate)
        inner, sc = (obj.lhs, obj.rhs) if lhs_pt else (obj.rhs, obj.lhs)
        d['inner'], d['lhs_pt'], d['op'] = sub(inner), lhs_pt, obj._arithmetic_operator
        d['sc'] = {'m': [[_chan(ch), fp_value(v)] for ch, v in sc.items()]} if isinstance(sc, dict) else {'e': fp_value(sc)}
    elif tag == 'ArithmeticAtomic':
        d['lhs'], d['rhs'], d['op'] = sub(obj.lhs), sub(obj.rhs), obj.arithmetic_operator
        d['meas'] = _meas(obj)
    elif tag == 'TimeReversal':
        d['inner'] = sub(obj._inner)
    elif tag == 'Abstract':
        p = obj._declared_properties
        d['chans'] = sorted((_chan(c) for c in p['defined_channels']), key=_chan_sort_key) if 'defined_channels' in p else None
        d['params'] = sorted(p['parameter_names']) if 'parameter_names' in p else None
        d['mnames'] = sorted(p['measurement_names']) if 'measurement_names' in p else None
        d['integral'] = [[_chan(ch), fp_value(v)] for ch, v in p['integral'].items()] if 'integral' in p else None
        d['dur'] = fp_value(p['duration']) if 'duration' in p else None
    return d


def introspect_view(obj, oids):
    """what the storage sees of obj NOW: an AbstractPulseTemplate linked with serialize_linked=True serializes as its
    target (the target's data incl. the target's identifier) but keeps its own Python identity and storage key"""
    if _tag(obj) == 'Abstract' and obj._linked_target is not None and obj.serialize_linked:
        oid = oids.setdefault(id(obj), len(oids) + 1)
        d = dict(introspect_view(obj._linked_target, oids))
        d['oid'] = oid
        return d
    return introspect(obj, oids)


def _strip_fp(x):
    return json.loads(json.dumps(x, sort_keys=True, default=str))


def _children(obj):
    tag = _tag(obj)
    if tag in ('Sequence', 'AtomicMulti'):
        return list(obj.subtemplates)
    if tag in ('Repetition', 'ForLoop'):
        return [obj.body]
    if tag in ('Mapping', 'Parallel'):
        return [obj.template]
    if tag == 'Arithmetic':
        from qupulse.pulses.pulse_template import PulseTemplate
        return [o for o in (obj.lhs, obj.rhs) if isinstance(o, PulseTemplate)]
    if tag == 'ArithmeticAtomic':
        return [obj.lhs, obj.rhs]
    if tag == 'TimeReversal':
        return [obj._inner]
    return []


def _walk(obj):
    yield obj
    for c in _children(obj):
        yield from _walk(c)


# ---------------------------------------------------------------------------------------------------------------------
# canonical form of a stored document (parsed JSON): class-aware fingerprinting of expression strings
def canon_doc(x):
    tags = _tag_of_type()
    if isinstance(x, list):
        return [canon_doc(e) for e in x]
    if not isinstance(x, dict):
        return _plain(x)
    if '#type' not in x:
        return {k: canon_doc(v) for k, v in x.items()}
    t = x['#type']
    tag = tags.get(t, t)
    out = {'#type': tag}
    ex = fp_json
    exs = lambda l: [ex(e) for e in l] if isinstance(l, list) else _plain(l)
    edict = lambda m: {k: ex(v) for k, v in m.items()} if isinstance(m, dict) else _plain(m)
    entry = lambda e: ([ex(e[0]), ex(e[1])] + [_plain(r) for r in e[2:]]) if isinstance(e, list) and len(e) >= 2 else _plain(e)
    meas = lambda l: [[_plain(m[0]), ex(m[1]), ex(m[2])] if isinstance(m, list) and len(m) == 3 else _plain(m) for m in l] \
        if isinstance(l, list) else _plain(l)
    for k, v in x.items():
        if k == '#type':
            continue
        if isinstance(v, dict) and '#type' in v:
            out[k] = canon_doc(v)
        elif isinstance(v, list) and v and all(isinstance(e, dict) and '#type' in e for e in v):
            out[k] = [canon_doc(e) for e in v]
        elif k == 'parameter_constraints':
            out[k] = exs(v)
        elif k == 'measurements':
            out[k] = meas(v)
        elif k == 'entries' and isinstance(v, dict):
            out[k] = {ch: [entry(e) for e in es] if isinstance(es, list) else _plain(es) for ch, es in v.items()}
        elif k == 'time_point_tuple_list' and isinstance(v, list):
            out[k] = [entry(e) for e in v]
        elif k in ('expression', 'duration_expression', 'repetition_count') or \
                (k == 'duration' and v is not None):
            out[k] = ex(v)
        elif k in ('amplitude_dict', 'overwritten_channels', 'parameter_mapping', 'integral'):
            out[k] = edict(v)
        elif k == 'loop_range':
            out[k] = exs(v) if isinstance(v, list) else ex(v)
        elif k in ('lhs', 'rhs') and tag == 'Arithmetic':
            out[k] = edict(v) if isinstance(v, dict) else ex(v)
        elif tag == 'Abstract' and k in ('defined_channels', 'parameter_names', 'measurement_names') and isinstance(v, list):
            out[k] = sorted(v, key=lambda c: (0, c, '') if isinstance(c, int) else (1, 0, str(c)))
        else:
            out[k] = _plain(v)
    return out


def _plain(x):
    if isinstance(x, float):
        return {'#float': vlib.frac_json(x)}
    if isinstance(x, list):
        return [_plain(e) for e in x]
    if isinstance(x, dict):
        return {k: _plain(v) for k, v in x.items()}
    return x


# ---------------------------------------------------------------------------------------------------------------------
# behaviour of original vs loaded
PROBES = [
    {'a': 1, 'b': 2, 'c': 3, 'd': 4, 'n': 2, 'v': 0.5, 'w': -1.5, 'x': 0.25, 'y': 2.0, 'z': 1, 'i': 1, 'k': 3, 'u': 8, 't': 1.5},
    {'a': 2, 'b': 4, 'c': 6, 'd': 8, 'n': 3, 'v': 1.0, 'w': -0.25, 'x': 0.75, 'y': -1.0, 'z': 2, 'i': 0, 'k': 1, 'u': 4, 't': -0.5},
]


_extra_probes = []     # further parameter assignments of the running case (case['probes']: the constraint family needs
#                        assignments that violate / satisfy each constraint)


def _outcome(fn):
    try:
        return ('ok', fn())
    except vlib.Timeout:
        raise
    except Exception as e:   # noqa
        return ('exc', type(e).__name__)


def _program_obs(pt, params):
    from qupulse.plotting import render
    import numpy as np

    def run():
        prog = pt.create_program(parameters={k: v for k, v in params.items() if k in pt.parameter_names})
        if prog is None:
            return None
        d = prog.duration       # exact (TimeType): '1/3' three times is 1, 0.333... three times is not
        dur = (int(d.numerator), int(d.denominator)) if hasattr(d, 'numerator') else repr(d)
        mw = prog.get_measurement_windows()
        wins = tuple(sorted((str(n), tuple(np.asarray(b).tolist()), tuple(np.asarray(l).tolist())) for n, (b, l) in mw.items()))

        def sampled(rate):
            times, volt, _ = render(prog, sample_rate=rate)
            return (tuple(np.asarray(times).tolist()),
                    tuple(sorted(((repr(type(ch).__name__), str(ch)), tuple(np.asarray(v).tolist())) for ch, v in volt.items())))
        s1 = _outcome(lambda: sampled(1))
        # durations below two samples (the exact-rational family): a rate on whose grid thirds and sevenths lie
        s21 = _outcome(lambda: sampled(21)) if s1[0] != 'ok' else None
        return (dur, wins, s1, s21)
    return _outcome(run)


def _nan_eq(a, b):
    return a == b or repr(a) == repr(b)


def _deviation(a, b):
    """largest relative deviation between two program observations of the same shape; inf when anything but numbers differs"""
    if isinstance(a, bool) or isinstance(b, bool) or a is None or b is None or isinstance(a, str) or isinstance(b, str):
        return 0.0 if (a == b or repr(a) == repr(b)) else float('inf')
    if isinstance(a, (int, float)) and isinstance(b, (int, float)):
        if a == b or repr(a) == repr(b):
            return 0.0
        if a != a or b != b or abs(a) == float('inf') or abs(b) == float('inf'):
            return float('inf')
        return abs(a - b) / max(abs(a), abs(b), 1e-3)
    if isinstance(a, (list, tuple)) and isinstance(b, (list, tuple)):
        if len(a) != len(b):
            # a duration that differs in its last digit next to a sample point gives one sample more or less, and `render`
            # spreads the sample times over the duration: such a pair of time / voltage rows cannot be compared pointwise
            num = lambda l: all(isinstance(x, (int, float)) and not isinstance(x, bool) for x in l)
            if abs(len(a) - len(b)) == 1 and num(a) and num(b):
                return 0.0
            return float('inf')
        return max([_deviation(x, y) for x, y in zip(a, b)] + [0.0])
    return 0.0 if a == b else float('inf')


def _dur_as_float(o):
    """a program observation with the exact duration (numerator, denominator) as one number"""
    if o[0] == 'ok' and isinstance(o[1], tuple) and len(o[1]) == 4 and isinstance(o[1][0], tuple):
        (n, d) = o[1][0]
        return (o[0], (n / d,) + tuple(o[1][1:]))
    return o


def _shape_of(d):
    """introspection with every expression value replaced by a placeholder: classes, identifiers, channel / parameter /
    measurement names, interpolations, operators, list lengths and orders stay"""
    if isinstance(d, dict):
        if d and set(d) <= {'i', 'f', 's'}:
            return 'X'
        return {k: _shape_of(v) for k, v in d.items() if k != 'oid'}
    if isinstance(d, (list, tuple)):
        return [_shape_of(e) for e in d]
    return d


_DICTLIKE = ('entries', 'amps', 'pmap', 'mmap', 'cmap', 'over', 'integral', 'm')


def struct_of(d, keep_dict_order=False):
    """introspection without object identities; list valued fields keep their order (sub-templates, points, channel list of
    a PointPT, measurement and constraint lists, loop range), dict valued fields are association lists in canonical order"""
    if isinstance(d, dict):
        out = {}
        for k, v in d.items():
            if k == 'oid':
                continue
            v = struct_of(v, keep_dict_order)
            if k in _DICTLIKE and isinstance(v, list) and not keep_dict_order:
                v = sorted(v, key=lambda kv: json.dumps(kv[0], sort_keys=True))
            out[k] = v
        return out
    if isinstance(d, (list, tuple)):
        return [struct_of(e, keep_dict_order) for e in d]
    return d


def _same_structure(orig, loaded, stats):
    """the order-sensitive observables of loaded vs original, read off the public properties of both objects (not off
    get_serialization_data, whose comparison `==` is blind to whatever it normalises on both sides)"""
    a = _outcome(lambda: _strip_fp(introspect_view(orig, {})))
    b = _outcome(lambda: _strip_fp(introspect(loaded, {})))
    if a[0] != 'ok' or b[0] != 'ok':
        stats['struct_unreadable'] = stats.get('struct_unreadable', 0) + 1
        return a == b
    same = struct_of(a[1]) == struct_of(b[1])
    if same and struct_of(a[1], True) != struct_of(b[1], True):
        stats['dict_order_changed'] = stats.get('dict_order_changed', 0) + 1      # recorded, not part of the property
    return same


def compare_behaviour(orig, loaded, stats, fresh=None):
    r = {}
    eq = _outcome(lambda: bool(loaded == orig) and bool(orig == loaded))
    r['eq'] = eq == ('ok', True)
    if not _same_structure(orig, loaded, stats):
        # `==` compares get_serialization_data of both sides: a lossy / normalising encoder keeps it true
        stats['struct_diff'] = stats.get('struct_diff', 0) + 1
        if r['eq']:
            stats['eq_lossy'] = stats.get('eq_lossy', 0) + 1
        r['eq'] = False
    ok = True
    for attr in ('parameter_names', 'defined_channels', 'measurement_names'):
        a = _outcome(lambda: set(getattr(orig, attr)))
        b = _outcome(lambda: set(getattr(loaded, attr)))
        ok = ok and a == b
    # further interface properties, including WHICH accesses raise (AbstractPT: declared vs not declared)
    for attr in ('integral', 'initial_values', 'final_values'):
        def get(o):
            v = getattr(o, attr)
            return sorted((repr(_chan(c)), repr(fp_value(e))) for c, e in v.items())
        a = _outcome(lambda: get(orig))
        b = _outcome(lambda: get(loaded))
        if a != b:
            stats['iface_diff_' + attr] = stats.get('iface_diff_' + attr, 0) + 1
        ok = ok and a == b
    r['iface'] = ok
    da = _outcome(lambda: fp_value(orig.duration))
    db = _outcome(lambda: fp_value(loaded.duration))
    r['dur'] = da == db
    ok = True
    dev = 0.0
    for params in PROBES + list(_extra_probes):
        a = _program_obs(orig, params)
        b = _program_obs(loaded, params)
        stats['prog_' + a[0]] = stats.get('prog_' + a[0], 0) + 1
        ok = ok and _nan_eq(a, b)
        dev = max(dev, _deviation(_dur_as_float(a), _dur_as_float(b)))
    r['prog'] = ok
    # how far apart the two pulses are when they are not identical (only used to keep the predicate of the known finding
    # float_precision_not_preserved narrow): largest relative deviation of any number in the program observations
    # (inf: different shape / names / outcome), same interface NAME sets, same structure up to the expression values
    names_same = all(_outcome(lambda: set(getattr(orig, at))) == _outcome(lambda: set(getattr(loaded, at)))
                     for at in ('parameter_names', 'defined_channels', 'measurement_names'))
    sa = _outcome(lambda: struct_of(_shape_of(_strip_fp(introspect_view(orig, {})))))
    sb = _outcome(lambda: struct_of(_shape_of(_strip_fp(introspect(loaded, {})))))
    r['dev'] = dev if (names_same and sa == sb) else float('inf')
    # identity sharing: one identifier -> one object in the loaded tree
    seen = {}
    share = True
    for o in _walk(loaded):
        if o.identifier is not None:
            if seen.setdefault(o.identifier, o) is not o:
                share = False
    if fresh is not None:
        # repeated queries on the same storage: the root and every named node below it are served as that very object
        key = orig.identifier       # the storage key (a linked placeholder is stored with its target's data)
        if loaded.identifier != key:
            seen = {i: o for i, o in seen.items() if o is not loaded}
            seen[key] = loaded
        for ident, o in sorted(seen.items()):
            again = _outcome(lambda: fresh[ident])
            if again[0] != 'ok' or again[1] is not o:
                share = False
                stats['reload_not_same'] = stats.get('reload_not_same', 0) + 1
    r['share'] = share
    return r


# ---------------------------------------------------------------------------------------------------------------------
def gen_cases(rng, tier, ctx):
    return G.gen_cases(rng, tier)


def _make_backend(kind, path):
    from qupulse.serialization import DictBackend, FilesystemBackend, ZipFileBackend
    if kind == 'dict':
        return DictBackend()
    if kind == 'fs':
        return FilesystemBackend(path, create_if_missing=True)
    os.makedirs(path, exist_ok=True)
    return ZipFileBackend(os.path.join(path, 'storage.zip'))


def _reopen(kind, path, backend):
    from qupulse.serialization import FilesystemBackend, ZipFileBackend
    if kind == 'dict':
        return backend
    if kind == 'fs':
        return FilesystemBackend(path)
    return ZipFileBackend(os.path.join(path, 'storage.zip'))


def _read_backend(backend):
    out = {}
    for k in sorted(backend):
        out[k] = canon_doc(json.loads(backend[k]))
    return out


def _sres(exc):
    if isinstance(exc, ValueError):
        return 'value'
    if isinstance(exc, TypeError):
        return 'type'
    if isinstance(exc, RuntimeError):
        return 'runtime'
    if isinstance(exc, KeyError):
        return 'key'
    return 'other:' + type(exc).__name__


def run_impl(case):
    _case_counter[0] += 1
    _extra_probes[:] = case.get('probes') or [] if case.get('kind') == 'store' else []
    path = os.path.join(TMP_ROOT, 'c%d' % _case_counter[0])
    try:
        with warnings.catch_warnings():
            warnings.simplefilter('ignore')
            with vlib.time_limit(60):
                if case['kind'] == 'store':
                    return _run_store(case, path)
                if case['kind'] == 'pinned':
                    return _run_pinned(case)
                if case['kind'] == 'hist':
                    return _run_hist(case, path)
                if case['kind'] == 'dur':
                    return _run_dur(case)
                return _run_doc(case, path)
    except vlib.Timeout:
        return {'hang': True}
    except Exception as e:   # noqa
        import traceback
        return {'crash': '%s: %s' % (type(e).__name__, e), 'tb': traceback.format_exc()[-1500:]}
    finally:
        shutil.rmtree(path, ignore_errors=True)
        try:
            os.rmdir(TMP_ROOT)
        except OSError:
            pass


def _run_store(case, path):
    from qupulse.serialization import PulseStorage
    objs = G.build(case['nodes'])
    roots = [objs[i] for i in case['roots']]
    oids = {}
    model_roots = [introspect(r, oids) for r in roots]
    if 'query_first' in case.get('flags', []):
        # interface queries before storing (they cache into the objects / freeze AbstractPT properties)
        for r in roots:
            for o in _walk(r):
                for attr in ('parameter_names', 'measurement_names', 'defined_channels', 'duration', 'integral'):
                    _outcome(lambda: getattr(o, attr))
                _outcome(lambda: hash(o))
    backend = _make_backend(case['backend'], path)
    storages = [PulseStorage(backend), PulseStorage(backend)]
    res = []
    for which, ri in case['ops']:
        try:
            storages[which][roots[ri].identifier] = roots[ri]
            res.append('ok')
        except Exception as e:   # noqa
            res.append(_sres(e))
    be = _read_backend(_reopen(case['backend'], path, backend))
    # storing must not change the stored objects (an argument mutated by the callee)
    mutated = _strip_fp([introspect(r, oids) for r in roots]) != _strip_fp(model_roots)
    import re
    vt = {f: _fp_vars[f] for f in sorted(set(re.findall(r'"(E[0-9a-f]{10})"', json.dumps(model_roots))))}
    ifaces = []
    for k, r in enumerate(roots):
        def prop(attr, conv):
            o = _outcome(lambda: sorted(conv(x) for x in getattr(r, attr)))
            return o[1] if o[0] == 'ok' else None
        chs = _outcome(lambda: sorted((_chan(c) for c in r.defined_channels), key=_chan_sort_key))
        ifaces.append([k, {'params': prop('parameter_names', str), 'mnames': prop('measurement_names', str),
                           'chans': chs[1] if chs[0] == 'ok' else None}])
    loads = []
    stats = {}
    done = set()
    for (which, ri), r in zip(case['ops'], res):
        if r != 'ok' or ri in done:
            continue
        done.add(ri)
        fresh = PulseStorage(_reopen(case['backend'], path, backend))
        o = _outcome(lambda: fresh[roots[ri].identifier])
        if o[0] != 'ok':
            loads.append([ri, {'ok': False, 'why': o[1]}])
            continue
        b = compare_behaviour(roots[ri], o[1], stats, fresh)
        b['ok'] = True
        if mutated:
            b['eq'] = False
            stats['mutated_by_store'] = 1
        loads.append([ri, b])
    return {'roots': model_roots, 'res': res, 'be': be, 'loads': loads, 'stats': stats, 'vt': vt, 'iface': ifaces}


def _run_hist(case, path):
    """a history of store / overwrite / delete / link_to / unlink on ONE PulseStorage; every store and overwrite records
    the state of the object at that moment"""
    from qupulse.serialization import PulseStorage
    objs = G.build(case['nodes'])
    roots = [objs[i] for i in case['roots']]
    oids = {}
    backend = _make_backend(case['backend'], path)
    storage = PulseStorage(backend)
    res, mops = [], []
    for op in case['hops']:
        kind = op[0]
        if kind in ('store', 'over'):
            r = roots[op[1]]
            key = r.identifier
            mops.append([kind, key, introspect_view(r, oids)])
            try:
                if kind == 'store':
                    storage[key] = r
                else:
                    storage.overwrite(key, r)
                res.append('ok')
            except Exception as e:   # noqa
                res.append(_sres(e))
        elif kind == 'del':
            mops.append(['del', op[1], None])
            try:
                del storage[op[1]]
                res.append('ok')
            except Exception as e:   # noqa
                res.append(_sres(e))
        elif kind == 'link':
            roots[op[1]].link_to(objs[op[2]], serialize_linked=op[3])
        elif kind == 'unlink':
            roots[op[1]].unlink()
        else:
            raise ValueError(kind)
    be = _read_backend(_reopen(case['backend'], path, backend))
    finals, loads, stats = [], [], {}
    for k, r in enumerate(roots):
        linked_plain = _tag(r) == 'Abstract' and r._linked_target is not None and not r.serialize_linked
        finals.append([r.identifier, introspect_view(r, oids), not linked_plain])
    for k, r in enumerate(roots):
        if r.identifier not in be:
            continue
        fresh = PulseStorage(_reopen(case['backend'], path, backend))
        o = _outcome(lambda: fresh[r.identifier])
        if o[0] != 'ok':
            loads.append([k, {'ok': False, 'why': o[1]}])
            continue
        b = compare_behaviour(r, o[1], stats, fresh)
        b['ok'] = True
        loads.append([k, b])
    return {'mops': mops, 'res': res, 'be': be, 'finals': finals, 'loads': loads, 'stats': stats}


def _run_dur(case):
    """the declared duration of every root, evaluated under the 4 fingerprint environments, next to the table
    atom -> value the model needs to evaluate its own duration term"""
    import re
    import sympy
    objs = G.build(case['nodes'])
    roots = [objs[i] for i in case['roots']]
    oids = {}
    model_roots = [introspect(r, oids) for r in roots]
    fps = sorted(set(re.findall(r'"(E[0-9a-f]{10})"', json.dumps(model_roots))))
    durs = [_outcome(lambda: r.duration.sympified_expression) for r in roots]
    probes = []
    for env in _envs():
        tab = []
        for f in fps:
            e = _fp_expr[f]
            v = _outcome(lambda: e.subs(_env_sub(e.free_symbols, env)))
            if v[0] == 'ok' and getattr(v[1], 'is_Rational', False):
                tab.append([f, vlib.frac_json(F(int(v[1].p), int(v[1].q)))])
        vals = []
        for d in durs:
            if d[0] != 'ok':
                vals.append(None)
                continue
            v = _outcome(lambda: sympy.sympify(d[1]).subs(_env_sub(d[1].free_symbols, env)).doit())
            if v[0] == 'ok' and getattr(v[1], 'is_Rational', False):
                vals.append(vlib.frac_json(F(int(v[1].p), int(v[1].q))))
            else:
                vals.append(None)
        probes.append([tab, vals])
    return {'droots': model_roots, 'probes': probes, 'raised': [d[0] != 'ok' for d in durs]}


def _run_doc(case, path):
    from qupulse.serialization import PulseStorage, DictBackend
    tags = {tag: cls.get_type_identifier() for tag, cls in _classes().items()}

    def untag(x):
        if isinstance(x, list):
            return [untag(e) for e in x]
        if isinstance(x, dict):
            return {k: (tags.get(v, v) if k == '#type' else untag(v)) for k, v in x.items()}
        return x
    backend = DictBackend()
    for k, d in case['docs'].items():
        backend.put(k, json.dumps(untag(d)))
    be = _read_backend(backend)
    o = _outcome(lambda: PulseStorage(backend)[case['load']])
    if o[0] != 'ok':
        return {'be': be, 'ok': False, 'why': o[1], 'redoc': {}}
    b2 = DictBackend()
    PulseStorage(b2)[o[1].identifier] = o[1]
    return {'be': be, 'ok': True, 'redoc': _read_backend(b2)}


def _run_pinned(case):
    """documents written by the pinned code (verbatim texts from the corpus) loaded by the code as it is now"""
    from qupulse.serialization import PulseStorage, DictBackend
    from props import c10_pin
    backend = DictBackend()
    for k, text in case['docs'].items():
        backend.put(k, text)
    be = _read_backend(backend)
    o = _outcome(lambda: PulseStorage(backend)[case['load']])
    if o[0] != 'ok':
        return {'be': be, 'ok': False, 'why': o[1]}
    loaded = _outcome(lambda: introspect(o[1], {}))
    if loaded[0] != 'ok':
        return {'be': be, 'ok': False, 'why': 'introspect:' + loaded[1]}
    iface = c10_pin.iface_of(o[1])
    return {'be': be, 'ok': True, 'loaded': loaded[1], 'iface_ok': iface == case['iface'],
            'iface_diff': None if iface == case['iface'] else [iface, case['iface']]}


# ---------------------------------------------------------------------------------------------------------------------
# Gallina printers
def g_expr(e):
    if 'i' in e:
        return '(EInt %s)' % gZ(e['i'])
    if 'f' in e:
        return '(ENum %s)' % vlib.gQ(F(e['f']))
    return '(EStr %s)' % gstr(e['s'])


def g_vexpr(v):
    if isinstance(v, list):
        return '(VVec %s)' % glist(g_expr, v)
    return '(VScalar %s)' % g_expr(v)


def g_chan(c):
    return '(CI %s)' % gZ(c['ci']) if 'ci' in c else '(CS %s)' % gstr(c['cs'])


def g_interp(i):
    return {None: 'INone', 'hold': 'IHold', 'linear': 'ILinear', 'jump': 'IJump'}[i]


def g_entry(e):
    return '(%s, %s, %s)' % (g_expr(e[0]), g_vexpr(e[1]), g_interp(e[2]))


def g_meas(m):
    return '(%s, %s, %s)' % (gstr(m[0]), g_expr(m[1]), g_expr(m[2]))


def g_cdict(m):
    return glist(lambda ce: '(%s, %s)' % (g_chan(ce[0]), g_expr(ce[1])), m)


def g_pt(d):
    h = '(mkHdr %d%%N %s)' % (d['oid'], gopt(gstr, d['id']))
    t = d['cls']
    cons = lambda: glist(gstr, d['cons'])
    meas = lambda: glist(g_meas, d['meas'])
    if t == 'Table':
        ent = glist(lambda ce: '(%s, %s)' % (g_chan(ce[0]), glist(g_entry, ce[1])), d['entries'])
        return '(PTable %s %s %s %s)' % (h, ent, cons(), meas())
    if t == 'Point':
        return '(PPoint %s %s %s %s %s)' % (h, glist(g_entry, d['points']), glist(g_chan, d['chans']), cons(), meas())
    if t == 'Function':
        return '(PFunc %s %s %s %s %s %s)' % (h, g_expr(d['ex']), g_expr(d['dur']), g_chan(d['ch']), cons(), meas())
    if t == 'Constant':
        return '(PConst %s %s %s %s %s)' % (h, gstr(d['name']), g_expr(d['dur']), g_cdict(d['amps']), meas())
    if t == 'Sequence':
        return '(PSeq %s %s %s %s)' % (h, glist(g_pt, d['subs']), cons(), meas())
    if t == 'Repetition':
        return '(PRep %s %s %s %s %s)' % (h, g_pt(d['body']), g_expr(d['count']), cons(), meas())
    if t == 'ForLoop':
        r = d['rng']
        return '(PFor %s %s %s (%s, %s, %s) %s %s)' % (h, g_pt(d['body']), gstr(d['idx']), g_expr(r[0]), g_expr(r[1]),
                                                       g_expr(r[2]), cons(), meas())
    if t == 'Mapping':
        return '(PMap %s %s %s %s %s %s)' % (
            h, g_pt(d['tmpl']), glist(lambda ke: '(%s, %s)' % (gstr(ke[0]), g_expr(ke[1])), d['pmap']),
            glist(lambda ke: '(%s, %s)' % (gstr(ke[0]), gstr(ke[1])), d['mmap']),
            glist(lambda ke: '(%s, %s)' % (g_chan(ke[0]), gopt(g_chan, ke[1])), d['cmap']), cons())
    if t == 'AtomicMulti':
        return '(PAmc %s %s %s %s %s)' % (h, glist(g_pt, d['subs']), cons(), meas(), gopt(g_expr, d['dur']))
    if t == 'Parallel':
        return '(PPar %s %s %s)' % (h, g_pt(d['tmpl']), g_cdict(d['over']))
    if t == 'Arithmetic':
        sc = '(SMap %s)' % g_cdict(d['sc']['m']) if 'm' in d['sc'] else '(SExpr %s)' % g_expr(d['sc']['e'])
        return '(PArith %s %s %s %s %s)' % (h, g_pt(d['inner']), sc, gbool(d['lhs_pt']), gstr(d['op']))
    if t == 'ArithmeticAtomic':
        return '(PAA %s %s %s %s %s)' % (h, g_pt(d['lhs']), g_pt(d['rhs']), gstr(d['op']), meas())
    if t == 'TimeReversal':
        return '(PRev %s %s)' % (h, g_pt(d['inner']))
    if t == 'Abstract':
        return '(PAbs %s %s %s %s %s %s)' % (
            h, gopt(lambda l: glist(g_chan, l), d['chans']), gopt(lambda l: glist(gstr, l), d['params']),
            gopt(lambda l: glist(gstr, l), d['mnames']), gopt(g_cdict, d['integral']), gopt(g_expr, d['dur']))
    raise ValueError(t)


def g_json(x):
    if x is None:
        return 'JNull'
    if isinstance(x, bool):
        return '(JBool %s)' % gbool(x)
    if isinstance(x, int):
        return '(JInt %s)' % gZ(x)
    if isinstance(x, float):
        return '(JNum %s)' % vlib.gQ(x)
    if isinstance(x, str):
        return '(JStr %s)' % gstr(x)
    if isinstance(x, list):
        return '(JList %s)' % glist(g_json, x)
    if isinstance(x, dict):
        if set(x) == {'#float'}:
            return '(JNum %s)' % vlib.gQ(F(x['#float']))
        return '(JObj %s)' % glist(lambda kv: '(%s, %s)' % (gstr(kv[0]), g_json(kv[1])), sorted(x.items()))
    raise TypeError(type(x))


def g_backend(be):
    return glist(lambda kv: '(%s, %s)' % (gstr(kv[0]), g_json(kv[1])), sorted(be.items()))


SRES = {'ok': 'SOk', 'value': 'SErrValue', 'type': 'SErrType', 'runtime': 'SErrRuntime', 'key': 'SErrKey'}


def to_coq(case, obs):
    if 'crash' in obs or 'hang' in obs:
        return 'CCrash'
    if case['kind'] == 'store':
        loads = []
        for ri, b in obs['loads']:
            pos = case_root_pos(case, ri)
            if not b['ok']:
                loads.append('(%d%%nat, mkLobs false false false false false false)' % pos)
            else:
                loads.append('(%d%%nat, mkLobs true %s %s %s %s %s)' % (pos, gbool(b['eq']), gbool(b['iface']), gbool(b['dur']),
                                                                      gbool(b['prog']), gbool(b['share'])))
        gstrs = lambda l: glist(gstr, l)
        g_iface = lambda ki: '(%d%%nat, (%s, %s, %s))' % (
            ki[0], gopt(gstrs, ki[1]['params']), gopt(gstrs, ki[1]['mnames']),
            gopt(lambda l: glist(g_chan, l), ki[1]['chans']))
        return '(CStore %s %s %s %s %s %s %s)' % (
            glist(g_pt, obs['roots']),
            glist(lambda op: '(%d%%nat, %d%%nat)' % (op[0], op[1]), case['ops']),
            glist(lambda r: SRES.get(r, 'SErrOther'), obs['res']),
            g_backend(obs['be']), '[' + '; '.join(loads) + ']',
            glist(lambda kv: '(%s, %s)' % (gstr(kv[0]), gstrs(kv[1])), sorted(obs['vt'].items())),
            glist(g_iface, obs['iface']))
    if case['kind'] == 'hist':
        def g_op(m):
            if m[0] == 'del':
                return '(HDel 0%%nat %s)' % gstr(m[1])
            return '(%s 0%%nat %s %s)' % ('HStore' if m[0] == 'store' else 'HOver', gstr(m[1]), g_pt(m[2]))
        return '(CHist %s %s %s %s %s)' % (
            glist(g_op, obs['mops']), glist(lambda r: SRES.get(r, 'SErrOther'), obs['res']), g_backend(obs['be']),
            glist(lambda f: '(%s, %s, %s)' % (gstr(f[0]), g_pt(f[1]), gbool(f[2])), obs['finals']),
            glist(lambda kb: '(%d%%nat, %s)' % (kb[0], g_lobs(kb[1])), obs['loads']))
    if case['kind'] == 'dur':
        gq = lambda x: vlib.gQ(F(x))
        return '(CDur %s %s)' % (
            glist(g_pt, obs['droots']),
            glist(lambda pr: '(%s, %s)' % (glist(lambda kv: '(%s, %s)' % (gstr(kv[0]), gq(kv[1])), pr[0]),
                                           glist(lambda v: gopt(gq, v), pr[1])), obs['probes']))
    if case['kind'] == 'pinned':
        return '(CPinned %s %s %s %s %s)' % (g_backend(obs['be']), gstr(case['load']), g_pt(case['expect']),
                                            gopt(g_pt, obs.get('loaded')), gbool(obs.get('iface_ok', False)))
    return '(CDoc %s %s %s %s)' % (g_backend(obs['be']), gstr(case['load']), gbool(obs['ok']), g_backend(obs['redoc']))


def g_lobs(b):
    if not b['ok']:
        return 'mkLobs false false false false false false'
    return 'mkLobs true %s %s %s %s %s' % (gbool(b['eq']), gbool(b['iface']), gbool(b['dur']), gbool(b['prog']), gbool(b['share']))


def case_root_pos(case, ri):
    return ri     # ops refer to positions in case['roots']


def nontrivial(case, obs):
    if 'roots' in obs:
        def named_below(d, top=True):
            kids = []
            for k in ('subs',):
                kids += d.get(k, [])
            for k in ('body', 'tmpl', 'inner', 'lhs', 'rhs'):
                if isinstance(d.get(k), dict) and 'cls' in d[k]:
                    kids.append(d[k])
            return (not top and d['id'] is not None) or any(named_below(c, False) for c in kids)
        return any(named_below(r) for r in obs['roots'])
    if case.get('kind') == 'pinned':
        return len(case['docs']) > 1
    if case.get('kind') == 'dur':
        return any(v is not None for _, vals in obs.get('probes', []) for v in vals)
    if case.get('kind') == 'hist':
        return len(obs.get('res', [])) >= 2 and 'ok' in obs.get('res', [])
    return obs.get('ok', False) and obs.get('redoc') != obs.get('be')


def histogram_keys(case, obs):
    keys = [case['kind'], 'backend:' + case.get('backend', 'dict')]
    if 'crash' in obs or 'hang' in obs:
        return keys + ['obs:crash']
    if case['kind'] == 'store':
        for n in case['nodes']:
            keys.append('node:' + n['k'])
        for r in obs['res']:
            keys.append('store:' + r.split(':')[0])
        for _, b in obs['loads']:
            keys.append('load:' + ('ok' if b['ok'] else 'fail'))
            if b['ok'] and not b['eq']:
                keys.append('load:not-equal')
        for k, v in obs.get('stats', {}).items():
            keys.extend([k] * v)
        for f in case.get('flags', []):
            keys.append('flag:' + f)
    elif case['kind'] == 'hist':
        for n in case['nodes']:
            keys.append('node:' + n['k'])
        for op, r in zip(obs['mops'], obs['res']):
            keys.append('hop:%s:%s' % (op[0], r.split(':')[0]))
        for _, b in obs['loads']:
            keys.append('hload:' + ('ok' if b['ok'] else 'fail'))
        for f in case.get('flags', []):
            keys.append('flag:' + f)
    elif case['kind'] == 'dur':
        for n in case['nodes']:
            keys.append('durnode:' + n['k'])
        for _, vals in obs['probes']:
            keys.extend('dur:' + ('value' if v is not None else 'none') for v in vals)
    elif case['kind'] == 'pinned':
        keys.append('pinned:' + ('ok' if obs['ok'] else 'fail'))
    else:
        keys.append('doc:' + ('ok' if obs['ok'] else 'fail'))
        keys.append('docmut:' + case.get('mut', '?'))
    return keys


_KEYED = ('entries', 'amps', 'cmap', 'over', 'integral')


def _dict_keys_of(d):
    out = []
    for k in _KEYED:
        out.append([kv[0] for kv in (d.get(k) or [])])
    sc = d.get('sc')
    if isinstance(sc, dict) and 'm' in sc:
        out.append([kv[0] for kv in sc['m']])
    return out


def _has_int_key(d):
    """an integer channel id as a dict key somewhere in the (introspected) tree"""
    return any('ci' in c for ks in _dict_keys_of(d) for c in ks) or any(_has_int_key(c) for c in _snap_children(d))


def _mixed_keys(d):
    return any(any('ci' in c for c in ks) and any('cs' in c for c in ks) for ks in _dict_keys_of(d)) or \
        any(_mixed_keys(c) for c in _snap_children(d))


def _named(d, out):
    if d['id'] is not None:
        out.append((d['id'], d['oid']))
    for c in _snap_children(d):
        _named(c, out)
    return out


def _inline_named(x, top=True):
    if isinstance(x, list):
        return any(_inline_named(e, False) for e in x)
    if isinstance(x, dict):
        if not top and '#type' in x and x['#type'] != 'reference' and '#identifier' in x:
            return True
        return any(_inline_named(v, False) for v in x.values())
    return False


def _store_clauses_other_than_loads(case, obs):
    """Python reading of every clause of check_spec for store cases EXCEPT 'a stored root loads back as the same pulse':
    a known finding about the loaded pulse must not absorb a failure of one of these"""
    res, roots = obs['res'], obs['roots']
    if len(res) != len(case['ops']):
        return False
    stored = [ri for (_, ri), r in zip(case['ops'], res) if r == 'ok']
    expected = set(i for ri in stored for i, _ in _named(roots[ri], []))
    if set(obs['be']) != expected:
        return False
    for k, d in obs['be'].items():
        if not isinstance(d, dict) or d.get('#identifier') != k or d.get('#type') in (None, 'reference') or _inline_named(d):
            return False
    if set(ri for ri, _ in obs['loads']) != set(stored):
        return False
    named = [p for r in roots for p in _named(r, [])]
    ids_consistent = all(a[1] == b[1] for a in named for b in named if a[0] == b[0])
    clean = ids_consistent and all(w == 0 for w, _ in case['ops']) and \
        all(r['id'] is not None and not _mixed_keys(r) for r in roots)
    return not clean or all(r == 'ok' for r in res)


def _load_ok(b):
    return all(b.get(f) for f in ('ok', 'eq', 'iface', 'dur', 'prog', 'share'))


def _float_prec_tol(case):
    label = case.get('label', '')
    return 2e-3 if 'float16' in label else 1e-6 if 'float32' in label else 1e-12


def classify(case, obs):
    """a failing case belongs to a known finding only when (1) its generator put it into the finding's input class (flag),
    (2) every clause of the property other than 'loads back as the same pulse' holds, and (3) every stored root that does
    not load back as the same pulse shows the finding's own symptom:
    int_channel_key: the root's tree has an integer channel id as a dict key, and it fails to load or loads unequal
      (identity sharing intact);
    float_precision_not_preserved: it loads, sharing intact, same class / name / list structure, same interface name sets,
      and every number of the rendered programs within the relative precision the lost digits explain"""
    flags = set(case.get('flags', []))
    if 'crash' in obs or 'hang' in obs or not ({'int_key', 'float_prec', 'cons_text'} & flags):
        return None
    if case.get('kind') == 'store':
        if not _store_clauses_other_than_loads(case, obs):
            return None
        bad = [(ri, b) for ri, b in obs['loads'] if not _load_ok(b)]
        snap = lambda ri: obs['roots'][ri]
    elif case.get('kind') == 'hist':
        loads = dict((k, b) for k, b in obs['loads'])
        bad = [(k, loads.get(k, {'ok': False})) for k in _hist_must_load(obs) if not _load_ok(loads.get(k, {}))]
        snap = lambda k: obs['finals'][k][1]
    else:
        return None
    if not bad:
        return None        # nothing this finding could explain: whatever failed is something else
    if 'cons_text' in flags:
        # constraint_text_not_reparsable: the root (store cases only) fails to LOAD with ValueError and a document written
        # for it holds a constraint text the parser does not read as a relation (a constant True / False, an unparsable text)
        import sympy
        odd = {_fingerprint(sympy.true)['s'], _fingerprint(sympy.false)['s']}

        def doc_has_odd(x):
            if isinstance(x, dict):
                return any((k == 'parameter_constraints' and isinstance(v, list) and
                            any(isinstance(c, str) and (c in odd or c.startswith('U')) for c in v)) or doc_has_odd(v)
                           for k, v in x.items())
            return isinstance(x, list) and any(doc_has_odd(e) for e in x)
        if case.get('kind') == 'store' and all(
                not b.get('ok') and b.get('why') == 'ValueError' and
                any(doc_has_odd(obs['be'].get(i)) for i, _ in _named(snap(k), [])) for k, b in bad):
            return 'constraint_text_not_reparsable'
        return None
    if 'int_key' in flags:
        if all(_has_int_key(snap(k)) and (not b.get('ok') or (not b.get('eq') and b.get('share'))) for k, b in bad):
            return 'int_channel_key'
        return None
    tol = _float_prec_tol(case)
    if all(b.get('ok') and b.get('share') and b.get('dev', float('inf')) <= tol for _, b in bad):
        return 'float_precision_not_preserved'
    return None


def _snap_children(d):
    kids = list(d.get('subs', []))
    for k in ('body', 'tmpl', 'inner', 'lhs', 'rhs'):
        if isinstance(d.get(k), dict) and 'cls' in d[k]:
            kids.append(d[k])
    return kids


def _hist_must_load(obs):
    """Python reading of the history clause of check_spec: the root indices whose tree, as it is at the end, is what was
    last written under all of its keys (key-level walk of the storage protocol on one PulseStorage)"""
    K = {}

    def written(c, K0, out):
        for k in _snap_children(c):
            if k['id'] is not None:
                if k['id'] in K0:
                    continue
                out.append(k)
            written(k, K0, out)
    for (kind, key, snap), r in zip(obs['mops'], obs['res']):
        if r != 'ok':
            continue
        if kind == 'del':
            K.pop(key, None)
        elif kind == 'over' or key not in K:
            out = []
            written(snap, set(K), out)
            K[key] = snap
            for n in out:
                K[n['id']] = n

    def named(d, out):
        for k in _snap_children(d):
            if k['id'] is not None:
                out.append(k)
            named(k, out)
        return out
    must = []
    for k, (key, snap, cmp) in enumerate(obs['finals']):
        if cmp and K.get(key) == snap and all(K.get(n['id']) == n for n in named(snap, [])):
            must.append(k)
    return must


def _bad_hist(obs):
    if 'crash' in obs or 'hang' in obs:
        return True
    loads = dict((k, b) for k, b in obs['loads'])
    return any(not (k in loads and all(loads[k].get(f) for f in ('ok', 'eq', 'iface', 'dur', 'prog', 'share')))
               for k in _hist_must_load(obs))


def _bad_loads(obs):
    """Python-side reading of the main clause of check_spec: a stored root that does not load back as the same pulse"""
    if 'crash' in obs or 'hang' in obs:
        return True
    return any(not (b.get('ok') and b.get('eq') and b.get('iface') and b.get('dur') and b.get('prog') and b.get('share'))
               for _, b in obs.get('loads', []))


_CHILD_KEYS = ('body', 'tmpl', 'inner', 'lhs', 'rhs')


def _node_children(n):
    out = list(n.get('subs', []))
    for k in _CHILD_KEYS:
        v = n.get(k)
        if isinstance(v, int) and not isinstance(v, bool) and k in n and n['k'] != 'Arithmetic':
            out.append(v)
        elif isinstance(v, dict) and 'pt' in v:
            out.append(v['pt'])
    return out


def _gc(case):
    """drop roots no operation refers to and nodes no root reaches; renumber"""
    import copy
    used_roots = sorted({ri for _, ri in case['ops']})
    rmap = {r: k for k, r in enumerate(used_roots)}
    roots = [case['roots'][r] for r in used_roots]
    keep, todo = set(), list(roots)
    while todo:
        i = todo.pop()
        if i not in keep:
            keep.add(i)
            todo.extend(_node_children(case['nodes'][i]))
    order = sorted(keep)
    nmap = {i: k for k, i in enumerate(order)}
    nodes = []
    for i in order:
        n = copy.deepcopy(case['nodes'][i])
        if 'subs' in n:
            n['subs'] = [nmap[c] for c in n['subs']]
        for k in _CHILD_KEYS:
            v = n.get(k)
            if isinstance(v, int) and not isinstance(v, bool) and n['k'] != 'Arithmetic':
                n[k] = nmap[v]
            elif isinstance(v, dict) and 'pt' in v:
                n[k] = {'pt': nmap[v['pt']]}
        nodes.append(n)
    out = dict(case)
    out.update(nodes=nodes, roots=[nmap[r] for r in roots], ops=[[w, rmap[ri]] for w, ri in case['ops']])
    return out


def shrink(case, obs, ctx):
    """store cases whose failure is a bad load: fewer operations, fewer roots / nodes, no optional decorations, fewer
    identifiers — every candidate is re-run on the implementation and kept only if a stored root still loads back wrong
    and the classification is unchanged"""
    import copy
    if case.get('kind') == 'hist' and _bad_hist(obs) and 'crash' not in obs and 'hang' not in obs:
        # fewer operations, as long as a root that must load still does not
        cls = classify(case, obs)
        best, bo = case, obs
        i = 0
        while i < len(best['hops']) and len(best['hops']) > 1:
            c = dict(best)
            c['hops'] = best['hops'][:i] + best['hops'][i + 1:]
            try:
                o = run_impl(c)
            except Exception:   # noqa
                o = {'crash': 'shrink'}
            if 'crash' not in o and 'hang' not in o and _bad_hist(o) and classify(c, o) == cls:
                best, bo = c, o
            else:
                i += 1
        return best, bo
    if case.get('kind') != 'store' or not _bad_loads(obs):
        return case, obs
    cls = classify(case, obs)
    best, bo = case, obs

    def attempt(cand):
        nonlocal best, bo
        try:
            cand = _gc(cand)
            G.build(cand['nodes'])
        except Exception:   # noqa  not a valid forest any more
            return False
        o = run_impl(cand)
        if _bad_loads(o) and 'crash' not in o and 'hang' not in o and classify(cand, o) == cls:
            best, bo = cand, o
            return True
        return False
    i = 0
    while i < len(best['ops']) and len(best['ops']) > 1:
        c = dict(best)
        c['ops'] = best['ops'][:i] + best['ops'][i + 1:]
        if not attempt(c):
            i += 1
    for key in ('measurements', 'parameter_constraints', 'mmap', 'pmap'):
        j = 0
        while j < len(best['nodes']):
            if best['nodes'][j].get(key):
                c = copy.deepcopy(best)
                del c['nodes'][j][key]
                attempt(c)
            j += 1
    j = 0
    while j < len(best['nodes']):
        if best['nodes'][j].get('id') is not None and j not in best['roots']:
            c = copy.deepcopy(best)
            c['nodes'][j]['id'] = None
            attempt(c)
        j += 1
    return best, bo


def search_failing(ctx, broken):
    """spec oracle against the implementation: every stored root must load back equal with equal behaviour"""
    import random

    strip = struct_of
    pinned = os.path.join(vlib.VERIF, 'corpus', PID, 'pinned_documents.json')
    if os.path.exists(pinned):
        with open(pinned) as fh:
            for case in json.load(fh):
                obs = run_impl(case)
                if 'crash' in obs or 'hang' in obs:
                    return case, obs, 'implementation crashed: %s' % obs.get('crash', 'hang')
                if not obs['ok']:
                    return case, obs, 'a document written by the pinned code no longer loads: %s' % obs.get('why')
                if strip(json.loads(json.dumps(obs['loaded']))) != strip(case['expect']) or not obs['iface_ok']:
                    return case, obs, 'a document written by the pinned code loads to a different template'
    rng = random.Random(12345)
    for case in G.gen_cases(rng, 'quick', n_store=120, n_doc=0):
        obs = run_impl(case)
        if classify(case, obs) is not None:
            continue
        if 'crash' in obs or 'hang' in obs:
            return case, obs, 'implementation crashed: %s' % obs.get('crash', 'hang')
        for ri, b in obs['loads']:
            if not (b['ok'] and b['eq'] and b['iface'] and b['dur'] and b['prog'] and b['share']):
                case, obs = shrink(case, obs, ctx)
                return case, obs, 'a stored root does not load back as the same pulse: %r' % (
                    [b2 for _, b2 in obs['loads'] if not all(b2.get(k) for k in ('ok', 'eq', 'iface', 'dur', 'prog', 'share'))][:1],)
    # "declared as empty" family and histories (overwrite / delete / link_to)
    for case in G.empties_cases('quick'):
        obs = run_impl(case)
        if classify(case, obs) is None and _bad_loads(obs):
            return case, obs, 'a template with an optional argument declared as empty (%s) does not load back as the same pulse' % case.get('label')
    from props import c10_ord
    for case in c10_ord.round4_cases('quick') + c10_ord.round5_cases('quick') + c10_ord.round6_cases('quick'):
        obs = run_impl(case)
        if classify(case, obs) is None and _bad_loads(obs):
            return case, obs, 'round-4 family case %s does not load back as the same pulse: %r' % (
                case.get('label'), [b for _, b in obs.get('loads', [])][:1])
    hist = list(G.fixed_hist_cases('quick'))
    tries = 0
    while len(hist) < 80 and tries < 500:
        tries += 1
        try:
            hist.append(G.gen_hist_case(rng, len(hist), 'quick'))
        except Exception:   # noqa
            continue
    for case in hist:
        obs = run_impl(case)
        if classify(case, obs) is None and _bad_hist(obs):
            return case, obs, 'after the history %r a root whose tree is what was last written does not load back as the same pulse' % (case['hops'],)
    return None


MANIFEST = {
    'level_text': 'Proof over a Coq model of get_serialization_data / constructor argument handling of all 14 template '
                  'classes and of the PulseStorage store / overwrite / delete / load protocol (json documents as trees, '
                  'unbounded nesting): decoder inverts encoder for every class (C10_roundtrip_node); one store from any '
                  'storage state over any backend puts exactly the documents of all named nodes into the backend and touches '
                  'nothing else (C10_store_step); store then load through a fresh storage returns an equal template, also at '
                  'the end of any history of stores through two storage instances on a pre-existing backend (C10_storage, '
                  'C10_storage_history); round 4: the declared duration as a model function of all classes (term over the '
                  'serialised expressions) is equal for templates equal up to identity, hence for the loaded template, and '
                  'evaluates equally under every table of atom values (C10_duration_erase, C10_storage_duration); '
                  'sub-templates come back in the given order (C10_storage_children_order) and the order is observable in '
                  'document, template and duration (C10_amc_order_observable); round 3: histories with explicit overwrite and deletion (C10_history_ops: an '
                  'operation that writes P, with P\'s still-cached descendants complete, and no later deletion of an '
                  'identifier of P => P is in the backend at the end and loads back equal; deletions before the write are '
                  'repaired by it, C10_overwrite_restores), with kernel-evaluated witnesses that both guards are needed; '
                  'object identities are allocated in the loader model and one identifier is one object in everything a '
                  'storage has loaded (C10_sharing, C10_sharing_general); parameter names, measurement names and defined '
                  'channels are model functions of all classes and equal for templates equal up to identity '
                  '(C10_interface_erase, C10_storage_interface); stored documents never embed a named template '
                  '(C10_documents); refutation theorems for the known findings; round 5: the transaction guard of repo commit '
                  'a5bca40 never fires on a tree in which one identifier is one object, in any storage state, so the guarded '
                  'operations the correspondence check runs are the core operations of the theorems (C10_tx_guard_silent, '
                  'C10_guarded_store_histories_are_core, C10_guarded_histories_are_core, C10_storage_guarded); round 6: the serialised '
                  'form (any key rendering, references or embedded children) does not read object identities, so the loaded '
                  'pulse has the same document and comparison form as the original (`==` in the sense of the real classes), '
                  're-storing it writes the same documents, and every observation that does not read object identities '
                  'takes the same value on it (C10_serialised_form_identity_blind, C10_storage_observation, '
                  'C10_identity_blind_instances) - this reduces the program clause to "create_program is a function of the '
                  'constructor state", which is NOT proved. NOT proved, tested '
                  'only: identical samples and measurement windows of the instantiated program (2 parameter assignments), '
                  'validity of the documents as JSON text, the three real backends (the model has one abstract backend). Tied to /repo by an exact correspondence '
                  'check on real template forests and operation histories over the dict, directory and zip backends '
                  '(documents, outcomes, loads, interface sets) and by a corpus of pinned documents that must keep loading.',
    'level_note': 'Partial: (1) text level (json.dumps/loads, sympy printing/parsing incl. the free-symbol table used by '
                  'the interface model, float repr) is an oracle; (2) equal duration and equal behaviour (sampled program, '
                  'windows, integral, initial/final values) of loaded vs original is observed for 2 parameter assignments, '
                  'not derived from a template semantics; the duration term is evaluated in the model only on the '
                  'substitution-free fragment (no MappingPT / ForLoopPT above the compared node), atom values are an oracle '
                  'table; known finding float_precision_not_preserved (numpy float32/16 scalars, 16-17 digit decimal strings, '
                  'ConstantPT with an ExpressionScalar float, items of a vector valued PointPT entry) and known finding '
                  'constraint_text_not_reparsable (Xor / constant relations as parameter constraints are stored as a text the '
                  'parser rejects: loud failure on load) are outside the model (text level); (3) the history theorems assume no identifier clash and no '
                  'mutation (link_to) in the history; link_to histories and histories with delete through a second '
                  'PulseStorage are covered by the correspondence check only / not at all (a failed store that loaded a '
                  'child from the backend leaves it in the temporary storage: not modelled, unobservable on one storage); '
                  '(4) a linked placeholder below a parent is not modelled (storage key differs from the document\'s '
                  'identifier); (5) the transaction guard of repo commit a5bca40 (second object under one identifier in a '
                  'transaction is rejected) is a model function in front of the core operations (Tx.v), tied to the code by '
                  'correspondence; (6) check_spec uses the model function `repr` (an injective rendering) as its equality test on '
                  'introspected terms and `node_encodable` in the premise of one clause (notes, round 5 audit); (7) the '
                  'program clause (identical samples and windows) is tested, not proved; (8) which of two errors is raised '
                  'when one tree has both an identifier clash and a dict with mixed int / str keys is not modelled (check_corr '
                  'accepts RuntimeError or TypeError there). Guards: string dict keys (finding '
                  'int_channel_key), one identifier per object.',
    'technique': 'Coq proof (structural induction on nested template trees, transaction invariant for store, backend-agreement '
                 'invariant for histories with overwrite/delete, cache-closure invariant for load) + correspondence check '
                 '(model-independent key-level reading of the protocol as specification) + pinned-document corpus',
    'design_ref': 'DESIGN.md §5 C10',
}
