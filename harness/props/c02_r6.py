"""C02 round 6: the second observation point judged in Coq.  `render` cases: a template tree is instantiated and the program
is handed to plotting.render(prog, sample_rate, render_measurements=True, time_slice)[2]; the answer (windows / ValueError
for an invalid slice / PlottingNotPossibleException) is compared with Render.render_meas of the model program (check_corr)
and with the specification Render.render_denote of the template tree (check_spec: all denoted windows for the default
slice, exactly those with begin < end and begin + length > start for an explicit slice).

The slice of a random case is chosen relative to what the program reports (`sel`): the concrete numbers are part of the
observation, so every case is judged on the slice that was really used."""
import fractions
import warnings

import vlib

F = fractions.Fraction

SELS = ['none', 'none', 'none', 'full', 'full', 'win', 'win', 'before', 'after', 'touch-left', 'touch-right', 'inner',
        'point', 'short', 'bad-order', 'neg-start']


def _tnum(f):
    """time_slice entries as a user writes them: ints where possible, floats (dyadic: exact) otherwise"""
    f = F(f)
    return int(f) if f.denominator == 1 else float(f)


def pick_slice(sel, k, dur, ws):
    """the slice selected by `sel` for a program of duration dur with windows ws (sorted [name, begin, length])"""
    dur = F(dur)
    w = None
    if ws:
        n, b, l = ws[k % len(ws)]
        w = (F(b), F(l))
    if sel == 'none':
        return None
    if sel == 'full':
        return (F(0), dur)
    if sel == 'bad-order':
        return (dur, dur / 2) if dur > 0 else (F(1), F(0))
    if sel == 'neg-start':
        return (F(-1, 2), dur)
    if sel == 'point':
        t = w[0] if w else dur / 2
        return (min(max(t, F(0)), dur),) * 2
    if sel == 'short':
        return (F(0), F(1, 8))
    if w is None or sel == 'inner':
        return (dur / 4, dur * 3 / 4)
    b, l = w
    b, e = min(max(b, F(0)), dur), min(max(b + l, F(0)), dur)
    if sel == 'win':
        return (b, e)
    if sel == 'before':
        return (F(0), b)                # the window begins exactly where the slice ends: not reported
    if sel == 'after':
        return (e, dur)                 # the window ends exactly where the slice begins: not reported
    if sel == 'touch-left':
        return (b, dur)
    if sel == 'touch-right':
        return (F(0), e)
    raise ValueError(sel)


def run_render(case, C):
    from qupulse.plotting import render, PlottingNotPossibleException
    singles = []
    pt = C.build_pt(case['pt'], singles, False)
    env = {k: C._num(v) for k, v in case['env'].items()}
    mm = case['mm']
    if mm is not None:
        mm = dict(mm)
        if None in pt.measurement_names:
            mm[None] = None
    try:
        prog = pt.create_program(parameters=env, measurement_mapping=mm, to_single_waveform=set(singles))
    except vlib.Timeout:
        raise
    except Exception as e:
        return {'rejected': type(e).__name__}
    if prog is None:
        return {'none': True}
    obs = {'dur': vlib.frac_json(prog.duration), 'ws': C._windows(prog)}
    rate = F(case['rate'])
    if 'slice' in case:
        sl = None if case['slice'] is None else (F(case['slice'][0]), F(case['slice'][1]))
    else:
        sl = pick_slice(case['sel'], case.get('k', 0), F(obs['dur']), obs['ws'])
    obs['slice'] = None if sl is None else [vlib.frac_json(sl[0]), vlib.frac_json(sl[1])]
    end = F(obs['dur']) if sl is None else sl[1]
    if end > F(obs['dur']) or (end - (0 if sl is None else sl[0])) * rate > 4096:
        obs['r'] = ['skipped', 'slice beyond the end of the waveform / too many samples']
        return obs
    try:
        with warnings.catch_warnings():
            warnings.simplefilter('ignore')
            res = render(prog, sample_rate=_tnum(rate), render_measurements=True,
                         time_slice=None if sl is None else (_tnum(sl[0]), _tnum(sl[1])))[2]
        rm = [[n, vlib.frac_json(vlib.to_fraction(b)), vlib.frac_json(vlib.to_fraction(l))] for n, b, l in res]
        obs['r'] = ['ok', sorted(rm, key=lambda w: (str(w[0]), F(w[1]), F(w[2])))]
        if [F(w[1]) for w in rm] != sorted(F(w[1]) for w in rm):
            obs['unsorted'] = True
    except PlottingNotPossibleException:
        obs['r'] = ['short']
    except vlib.Timeout:
        raise
    except ValueError as e:
        if 'time_slice is not valid' in str(e):
            obs['r'] = ['bad']
        else:
            # to_waveform: leaves with different channel sets (generated atomic composites over a channel subset) -
            # waveform construction is not this property's business
            obs['r'] = ['skipped', ('ValueError: ' + str(e))[:80]]
    return obs


def to_coq(case, obs, C):
    if 'rejected' in obs or 'none' in obs or obs['r'][0] == 'skipped':
        return 'CPyOnly'
    r = obs['r']
    o = {'ok': lambda: '(RoOk %s)' % C.g_windows(r[1]), 'bad': lambda: 'RoBadSlice', 'short': lambda: 'RoTooShort'}[r[0]]()
    sl = 'None' if obs['slice'] is None else '(Some (%s, %s))' % (C.g_q(obs['slice'][0]), C.g_q(obs['slice'][1]))
    return '(CRender %s %s %s %s %s %s)' % (C.g_pt(case['pt']), C.g_env(case['env']), C.g_mm(case['mm']),
                                            C.g_q(case['rate']), sl, o)


def histogram_keys(case, obs):
    keys = ['render', 'family:' + case.get('family', 'render')]
    if 'r' not in obs:
        return keys + ['render:no-program']
    keys.append('render:' + obs['r'][0])
    keys.append('render-slice:' + ('default' if obs['slice'] is None else 'explicit'))
    if obs['r'][0] == 'ok' and obs['slice'] is not None:
        n, m = len(obs['r'][1]), len(obs['ws'])
        keys.append('render-filter:' + ('all-kept' if n == m else 'none-kept' if n == 0 else 'some-dropped'))
    if obs['r'][0] == 'ok' and any(F(w[2]) == 0 and F(w[1]) in (0, F(obs['dur'])) for w in obs['ws']):
        keys.append('render:zero-length-window-at-a-boundary')
    return keys


def py_spec(case, obs):
    if obs.get('unsorted'):
        return 'plotting.render(...)[2] is not sorted by begin'
    return None


# ---- generators ------------------------------------------------------------------------------------------------------

def gen_render(rng, g, C):
    while True:
        c = g.prog_case(rng.choice([1, 2, 2, 3]))
        if any(x.startswith('i') for x in C.free_params(c['pt']) - set(c['env'])):
            continue
        break
    c['kind'] = 'render'
    c['family'] = 'render'
    c['sel'] = rng.choice(SELS)
    c['k'] = rng.randrange(8)
    c['rate'] = str(rng.choice([1, 4, 8, 16]))
    return c


def enum_render(C):
    """deterministic: zero-length windows (time stamps) at t = 0, inside, and at t = duration, windows touching a slice
    boundary, on an atom / first + last part of a sequence / repeated body / reversed part / for-loop body; every slice
    of a small grid incl. the default one, the whole program, invalid ones and one giving fewer than two samples"""
    e_c = C.e_c
    stamps = [['m0', e_c(0), e_c(0)], ['m1', e_c(2), e_c(0)], ['m2', e_c(1), e_c(0)], ['m3', e_c(0), e_c(1)],
              ['m4', e_c(1), e_c(1)]]
    A = lambda ms: {'k': 'atom', 'cls': 'const', 'dur': e_c(2), 'ms': ms, 'chs': ['A']}
    plain = A([])
    trees = [
        A(stamps),
        {'k': 'seq', 'ms': [['m5', e_c(0), e_c(0)], ['m5', e_c(4), e_c(0)]], 'subs': [A(stamps[:1]), A(stamps[1:2])]},
        {'k': 'rep', 'ms': [['m5', e_c(4), e_c(0)]], 'count': e_c(2), 'body': A(stamps[:3])},
        {'k': 'rev', 'body': {'k': 'seq', 'ms': [], 'subs': [A(stamps[1:2] + stamps[3:4]), plain]}},
        {'k': 'for', 'ms': [], 'idx': 'i0', 'start': e_c(0), 'stop': e_c(2), 'step': e_c(1),
         'body': {'k': 'atom', 'cls': 'const', 'dur': e_c(2), 'chs': ['A'],
                  'ms': [['m0', ['*', e_c(2), ['v', 'i0']], e_c(0)], ['m1', e_c(0), ['v', 'i0']]]}},
        {'k': 'single', 'body': {'k': 'rep', 'ms': [], 'count': e_c(2), 'body': A(stamps[:2])}},
    ]
    cases = []
    for t in trees:
        for sl in [None, 'full', (0, 2), (0, 1), (1, 2), (2, 4), (1, 3), (0, F(1, 2)), (2, 2), (0, 0), (2, 1), (-1, 2)]:
            for rate in ([1, 4] if sl in (None, 'full', (0, F(1, 2))) else [1]):
                c = {'kind': 'render', 'family': 'render-enum', 'pt': t, 'env': {p: '1' for p in C.PARAMS}, 'mm': None,
                     'rate': str(rate)}
                if sl == 'full':
                    c['sel'], c['k'] = 'full', 0
                else:
                    c['slice'] = None if sl is None else [str(F(sl[0])), str(F(sl[1]))]
                cases.append(c)
    return cases
