"""C06 — hardware-preparation rewrites of a program preserve its output and terminate.

Cases: a program (built from a JSON recipe: literal tree through the Loop constructor or append_child, optional
reverse_inplace at some nodes, or create_program of a small template), a rewrite applied to the node at a path, and the
observation of the real code: the program afterwards (shape, counts, leaf waveforms described by what they play),
reported duration, depth()/is_balanced(), error kind, hang; plus — independent of the model — sampled voltages of the
program before and after, played leaf by leaf by a small reference player, and of to_waveform(program).
"""
import fractions
import itertools
import json
import math
import os
import warnings

import vlib
from vlib import gZ, gQ, gbool, gopt, glist

F = fractions.Fraction
PID = 'C06'
COQ_DIRS = ['common', 'C06']
TARGETS = ['C06/Props.vo', 'C06/Corr.vo']
MODEL_TARGETS = ['C06/Corr.vo']
PROPS_FILE = 'C06/Props.v'
PROPS_MODULE = 'QV.C06.Props'
CORR_IMPORTS = ['QV.C06.Model', 'QV.C06.Model_idx', 'QV.C06.Model_vol', 'QV.C06.Corr']
CHECK_CORR = 'check_corr'
CHECK_SPEC = 'check_spec'
SHARD = 150
RULE = ('program trees: random (depth <= 5, counts 1-4, 1-4 children, leaf kinds constant / table / sequence / '
        'repetition / two-channel, optional measurements, optional empty loops for cleanup, optional count 0 for the '
        'purely structural rewrites), built through the Loop constructor or append_child, optionally reverse_inplace at '
        'inner nodes, or produced by create_program of small templates (constant, table, sequence, repetition, time '
        'reversal); x rewrite (unroll, unroll_children, encapsulate, split_one_child, _merge_single_child, cleanup x 4 '
        'action sets, flatten_and_balance depth -1..5, make_compatible and roll_constant_waveforms x (min, quantum, '
        'sample rate) triples, to_waveform) applied at the root or at an inner path; smallest_factor_ge on n <= 400; '
        'programs with volatile counts (random + directed split-preference / measured-parent merges; tree, kind of every '
        'count and the VolatileModificationWarning compared with Model_vol.v); programs observed with the recorded '
        'parent_index of every node (some with two indices swapped by hand); decimal stream: leaf durations k/10, k/5, '
        'k/3, k/7 ... (ramps whose end value differs from the start value; since round 4 also tables with 3-4 entries at '
        'multiples of 1/den, hold / linear / jump, the value jumping at every inner entry), sample rate a multiple of the denominator, '
        'grid points = correctly rounded doubles of k/rate, samples of to_waveform(program) before / after the rewrite '
        'against the exact rational voltages under the absolute tolerance 2^-30 (counted as inexact_cases). '
        'Stateful / aliasing classes (round 3): the same waveform OBJECT at several leaves (build option share); the same '
        'rewrite twice on the same objects; the same program and rewrite with the duration caches populated nowhere / '
        'everywhere / only below some nodes (paired cases) and a rewritten sibling afterwards; measurements declared as '
        'an empty list vs not declared; flatten_and_balance(d), d = 3..6, over sub programs that already have depth d - 1 '
        'but are unbalanced (4 shapes x below the root / reached through the recursive call / below an inner path, built '
        'deterministically); volatile counts that share ONE scope with one parameter per node, re-evaluated under two '
        'other parameter assignments after the rewrite; directed make_compatible / roll_constant_waveforms shapes on '
        'volatile programs. Observed in addition: .duration of EVERY node afterwards against the duration of what it '
        'contains, a copy taken before the rewrite afterwards, sampling twice, the caller\'s time array. '
        'Round 4: deterministic to_waveform / from_sequence family (single-child chains r0 x r1 as encapsulate() builds '
        'them, alone, next to a sibling, through encapsulate / flatten_and_balance and a following make_compatible; the '
        'constant fold of from_sequence: first part constant or not x later plain part same / other / none x nested '
        'part (count-1 sub loop, count-2 sub loop, wrapped, all-constant same / other values, repeated leaf) x 3 orders; '
        'a constant table and a one-part sequence as first part; cleanup dropping measured empty loops); programs built '
        'top-down (append_child on nodes that already have a parent, optionally with the root duration read after '
        'every append: incremental cache updates along the whole ancestor chain); for make_compatible on volatile '
        'programs the duration under two re-evaluations of the volatile parameters before and after. '
        'Round 5: Repetition / Reversed / Subset / Functor / Arithmetic / Transforming / FunctionWaveform objects (plain '
        'constructors, around constants and around ramps) as leaves x to_waveform next to equal / other constants, '
        'make_compatible into one waveform, roll_constant_waveforms, flatten_and_balance, unroll_children (273 cases, the '
        'same in every seed). '
        'Round 6: every leaf waveform is sampled through Waveform.get_sampled as well (the entry point of the drivers: '
        'constant_value short cut, cache, with and without an output array, asked twice) and compared with unsafe_sample, '
        'before and after every rewrite and on to_waveform(program); kind cv: constant_value(channel) of every leaf '
        'waveform the rewrite built and of to_waveform(program), with the answers of the opaque atoms, compared with '
        'Model_cv.constant_value and judged admissible for the pieces in Coq (every 8th rewrite / 4th to_waveform case of '
        'the random streams once more in this form); deterministic family of constant LEVEL runs (12 orders of 0 / x / y '
        'levels, zero as 0.0 / int 0 / -0.0, one channel / next to a constant channel / as second channel / next to a '
        'ramp channel) x to_waveform, make_compatible keeping / unrolling the repetition, merging an inner node '
        '(320 + 64 cases, the same in every seed). '
        'Non-trivial = the rewrite returned and changed the tree, or failed with an error, on a program with >= 3 '
        'nodes; distinct = distinct canonical JSON of the case.')
TRUSTED = [
    'Coq 8.16.1 kernel + vm_compute (no native_compute)',
    'constant_value(channel) of an opaque atom (table, multi-channel waveform with a non-constant channel, wrapper classes) '
    'is an oracle observed on the real object (Model_cv.acv); that an atom keeps its own promise is the hypothesis acv_sound '
    'of C06_get_sampled_eq_unsafe_sample and is tested by the get_sampled / unsafe_sample comparison on every leaf',
    'harness: generators, program builder from JSON recipes, describer Loop -> model tree (atoms named by waveform '
    'equality; constant waveforms by constant_value_dict), reference player used for the sample comparison, Gallina printers',
    'leaf waveform classes (Table/Constant/MultiChannel/Reversed sampling) are C08\'s subject; here a non-constant leaf '
    'is an opaque atom and only its duration and identity are used',
    'sympy.ntheory.divisors (fall-back of smallest_factor_ge) is an oracle: it enters the proofs only through the '
    'hypothesis fallback_spec and is compared with the brute-force definition by the CSfg cases',
    'translator translate/py2gallina.py + translate/py2gallina_c06.py (fail-closed; its output coq/C06/Gen_sfg.v is '
    're-proved equal to the model on every run)',
    'decimal stream: binary64 samples are compared with exact rationals under the absolute tolerance 2^-30',
]
ASSUMPTIONS = [
    'a volatile count is described by its current value, the fact that it is volatile and (programs built with one '
    'shared scope, no rewrite before) the values its expression takes under two other assignments of the volatile '
    'parameters; after a prefix of other rewrites the expression is not compared',
    'smallest_factor_ge: arguments are Python ints, min_factor >= 1',
    'programs are valid: counts >= 1 (>= 0 for the purely structural rewrites), a leaf carries a waveform, an inner '
    'node carries none, all leaves define the same channels',
    'the bookkeeping invariant of utils/tree.py (parent_index = position) holds — C09; inputs that violate it '
    '(after Node._reverse_children) are detected on the real objects and reported as the known finding',
    'min_quanta >= 1, quantum >= 1, sample_rate > 0 for roll_constant_waveforms / make_compatible (quantum 0 only as error case)',
]

from props.c06_pregen import pregen, GEN_FILE      # translator step: coq/C06/Gen_sfg.v from qupulse/utils/numeric.py

CH = {'A': 0, 'B': 1, 'C': 2}
OP_TIME_LIMIT = 4.0
_HANGS = [0]


def op_time_limit():
    """4 s per rewrite (the programs are tiny: a legitimate run takes milliseconds); once several hangs were seen the
    limit drops so that a code change that makes a rewrite loop forever does not stall the whole check"""
    return OP_TIME_LIMIT if _HANGS[0] < 3 else 0.3


# ---------------------------------------------------------------------------------------------------------------------
# building real objects from JSON recipes

def _fr(x):
    return F(x) if not isinstance(x, F) else x


_SHARE = [None]      # dict while a program with build['share'] is built: equal leaf recipes -> the SAME waveform object


def build_wf(d):
    if _SHARE[0] is not None:
        key = json.dumps(d, sort_keys=True)
        if key not in _SHARE[0]:
            memo, _SHARE[0] = _SHARE[0], None
            try:
                memo[key] = build_wf(d)
            finally:
                _SHARE[0] = memo
        return _SHARE[0][key]
    from qupulse.program.waveforms import (ConstantWaveform, TableWaveform, SequenceWaveform, RepetitionWaveform,
                                           MultiChannelWaveform, ReversedWaveform)
    from qupulse.utils.types import TimeType
    k = d['k']
    if k == 'const':
        dur = _fr(d['d'])
        # round 6: `zk` = how a level that is a whole number / zero is handed over: float (default), Python int, -0.0
        zk = d.get('zk')
        val = lambda v: (int(_fr(v)) if zk == 'int' and _fr(v).denominator == 1 else
                         -0.0 if zk == 'neg' and _fr(v) == 0 else float(_fr(v)))
        return ConstantWaveform.from_mapping(TimeType.from_fraction(dur.numerator, dur.denominator),
                                             {c: val(v) for c, v in d['v'].items()})
    if k == 'table':
        from qupulse.pulses.interpolation import (HoldInterpolationStrategy, JumpInterpolationStrategy,
                                                  LinearInterpolationStrategy)
        strat = {'hold': HoldInterpolationStrategy(), 'jump': JumpInterpolationStrategy(),
                 'linear': LinearInterpolationStrategy()}
        ent = [(float(_fr(t)), float(_fr(v)), strat[ip]) for t, v, ip in d['e']]
        return TableWaveform.from_table(d['ch'], ent)
    if k == 'ramp':     # linear v0 -> v1 over an exact rational duration (decimal stream: 7/10, 1/3 ...)
        from qupulse.pulses.interpolation import HoldInterpolationStrategy, LinearInterpolationStrategy
        dur = _fr(d['d'])
        return TableWaveform.from_table(d['ch'], [(0, float(_fr(d['v0'])), HoldInterpolationStrategy()),
                                                  (TimeType.from_fraction(dur.numerator, dur.denominator),
                                                   float(_fr(d['v1'])), LinearInterpolationStrategy())])
    if k == 'dtable':   # table with inner entries at exact rational times (decimal stream): [[t, v, interpolation], ...]
        from qupulse.pulses.interpolation import (HoldInterpolationStrategy, JumpInterpolationStrategy,
                                                  LinearInterpolationStrategy)
        strat = {'hold': HoldInterpolationStrategy(), 'jump': JumpInterpolationStrategy(),
                 'linear': LinearInterpolationStrategy()}
        return TableWaveform.from_table(d['ch'], [(TimeType.from_fraction(_fr(t).numerator, _fr(t).denominator),
                                                   float(_fr(v)), strat[ip]) for t, v, ip in d['e']])
    if k == 'par':
        return MultiChannelWaveform.from_parallel([build_wf(x) for x in d['l']])
    if k == 'seq':
        return SequenceWaveform.from_sequence([build_wf(x) for x in d['l']])
    if k == 'rep':
        return RepetitionWaveform.from_repetition_count(build_wf(d['b']), d['n'])
    if k == 'rev':
        return ReversedWaveform.from_to_reverse(build_wf(d['b']))
    # round 5: the remaining Waveform classes as leaves, built with their plain constructors (no folding class method), so
    # that the wrapper object itself is what the rewrites meet: constant_value_dict() of the wrapper decides whether
    # from_sequence / from_repetition_count / roll_constant_waveforms treat the leaf as constant
    if k == 'rep_raw':      # RepetitionWaveform(body, n): constant_value_dict() = the body's (Model.cvd (WRep b _) = cvd b)
        return RepetitionWaveform(build_wf(d['b']), d['n'])
    if k == 'rev_raw':      # ReversedWaveform(inner), also around a constant
        return ReversedWaveform(build_wf(d['b']))
    if k == 'subset':       # SubsetWaveform: constant_value_dict() = the inner one restricted to the subset, or None
        from qupulse.program.waveforms import SubsetWaveform
        return SubsetWaveform(build_wf(d['b']), set(d['chs']))
    if k == 'functor':      # FunctorWaveform(inner, negate / identity per channel): never constant_value_dict()
        import numpy as np
        from qupulse.program.waveforms import FunctorWaveform
        fs = {'neg': np.negative, 'pos': np.positive}
        return FunctorWaveform(build_wf(d['b']), {c: fs[f] for c, f in d['f'].items()})
    if k == 'arith':        # ArithmeticWaveform(lhs, op, rhs): never constant_value_dict()
        from qupulse.program.waveforms import ArithmeticWaveform
        return ArithmeticWaveform(build_wf(d['l']), d['op'], build_wf(d['r']))
    if k == 'transf':       # TransformingWaveform(inner, ScalingTransformation): never constant_value_dict()
        from qupulse.program.waveforms import TransformingWaveform
        from qupulse.program.transformation import ScalingTransformation
        return TransformingWaveform(build_wf(d['b']), ScalingTransformation({c: float(_fr(v)) for c, v in d['s'].items()}))
    if k == 'func':         # FunctionWaveform a*t + b (exact on the dyadic grid)
        from qupulse.program.waveforms import FunctionWaveform
        from qupulse.expressions import ExpressionScalar
        dur = _fr(d['d'])
        return FunctionWaveform(ExpressionScalar('%s*t + %s' % (float(_fr(d['a'])), float(_fr(d['b0'])))),
                                TimeType.from_fraction(dur.numerator, dur.denominator), d['ch'])
    raise ValueError(k)


def _meas(ids, declared_empty=False):
    """no windows: `None` (not declared) or, with t['me'], an empty list (declared as empty)"""
    return [('m%d' % i, float(i), 1.0) for i in ids] or ([] if declared_empty else None)


_VSCOPE = [None]     # (scope shared by all volatile counts of the program being built, {id(node recipe): parameter index})


def vol_index(tree):
    """volatile nodes of a recipe in pre-order -> index i of their parameter n<i> (VVar i in Model_vol.v)"""
    out = {}

    def rec(t):
        if t.get('v'):
            out[id(t)] = len(out)
        for c in t['c']:
            rec(c)
    rec(tree)
    return out


def vol_values(tree):
    out = []

    def rec(t):
        if t.get('v'):
            out.append(t['r'])
        for c in t['c']:
            rec(c)
    rec(tree)
    return out


def _count(t):
    if not t.get('v'):
        return t['r']
    from qupulse.program.volatile import VolatileRepetitionCount
    from qupulse.expressions import ExpressionScalar
    from qupulse.parameter_scope import DictScope
    if _VSCOPE[0] is not None:      # the real situation: every volatile count of a program evaluates in the same scope
        scope, index = _VSCOPE[0]
        return VolatileRepetitionCount(expression=ExpressionScalar('n%d' % index[id(t)]), scope=scope)
    return VolatileRepetitionCount(expression=ExpressionScalar('n'),
                                   scope=DictScope.from_mapping({'n': t['r']}, volatile={'n'}))


def build_tree_ctor(t):
    from qupulse.program.loop import Loop
    return Loop(children=[build_tree_ctor(c) for c in t['c']],
                waveform=None if t['w'] is None else build_wf(t['w']),
                measurements=_meas(t['m'], t.get('me')), repetition_count=_count(t))


def build_tree_append(t):
    from qupulse.program.loop import Loop
    node = Loop(waveform=None if t['w'] is None else build_wf(t['w']), measurements=_meas(t['m'], t.get('me')),
                repetition_count=_count(t))
    for c in t['c']:
        node.append_child(loop=build_tree_append(c))
    return node


def build_tree_append_td(t, read):
    """top-down: a node is appended to its parent BEFORE its own children are appended to it, so append_child runs on nodes
    that have a parent; with `read` the root's duration is asked after every append (all caches above are populated and the
    next append goes through the incremental update of the whole ancestor chain)"""
    from qupulse.program.loop import Loop
    mk = lambda n: Loop(waveform=None if n['w'] is None else build_wf(n['w']), measurements=_meas(n['m'], n.get('me')),
                        repetition_count=_count(n))
    root = mk(t)

    def fill(node, rec):
        for c in rec['c']:
            child = mk(c)
            node.append_child(loop=child)
            if read:
                root.duration
            fill(child, c)
    fill(root, t)
    return root


def build_template(d):
    from qupulse.pulses import ConstantPT, TablePT, SequencePT, RepetitionPT, TimeReversalPT, AtomicMultiChannelPT
    k = d['k']
    meas = [('m%d' % i, 0, 1) for i in d.get('m', [])]
    if k == 'const':
        return ConstantPT(float(_fr(d['d'])) if _fr(d['d']).denominator != 1 else int(_fr(d['d'])),
                          {c: float(_fr(v)) for c, v in d['v'].items()}, measurements=meas or None)
    if k == 'table':
        return TablePT({c: [(float(_fr(t)), float(_fr(v)), ip) for t, v, ip in e] for c, e in d['e'].items()},
                       measurements=meas or None)
    if k == 'seq':
        return SequencePT(*[build_template(x) for x in d['l']], measurements=meas or None)
    if k == 'rep':
        return RepetitionPT(build_template(d['b']), d['n'], measurements=meas or None)
    if k == 'rev':
        return TimeReversalPT(build_template(d['b']))
    raise ValueError(k)


def build_program(recipe):
    if 'template' in recipe:
        return build_template(recipe['template']).create_program()
    t = recipe['tree']
    _SHARE[0] = {} if recipe.get('share') else None
    _VSCOPE[0] = None
    if recipe.get('vscope'):
        from qupulse.parameter_scope import DictScope
        vals = vol_values(t)
        _VSCOPE[0] = (DictScope.from_mapping({'n%d' % i: v for i, v in enumerate(vals)},
                                             volatile={'n%d' % i for i in range(len(vals))}), vol_index(t))
    try:
        style = recipe.get('style')
        prog = (build_tree_append(t) if style == 'append' else
                build_tree_append_td(t, style == 'append_td_read') if style in ('append_td', 'append_td_read') else
                build_tree_ctor(t))
    finally:
        _SHARE[0] = None
        _VSCOPE[0] = None
    for path in recipe.get('reverse', []):
        prog.locate(tuple(path)).reverse_inplace()
    read_durations(prog, recipe.get('read_dur'))
    return prog


def read_durations(prog, how):
    """populate the duration caches: True = every node, a list of paths = only the sub trees at these paths (their
    ancestors stay unpopulated), False/None = nowhere"""
    if how is True:
        for n in prog.get_depth_first_iterator():
            n.duration
    elif how:
        for path in how:
            try:
                prog.locate(tuple(path)).duration
            except IndexError:
                pass


# ---------------------------------------------------------------------------------------------------------------------
# describing real objects in model terms

class Registry:
    def __init__(self):
        self.atoms = {}
        self.meas = {}

    def atom(self, wf):
        try:
            return self.atoms.setdefault(wf, len(self.atoms))
        except TypeError:
            return self.atoms.setdefault(id(wf), len(self.atoms))

    def window(self, w):
        key = (w[0], vlib.frac_json(w[1]), vlib.frac_json(w[2]))
        return self.meas.setdefault(key, len(self.meas))


def describe_wf(wf, reg):
    from qupulse.program.waveforms import SequenceWaveform, RepetitionWaveform
    cv = wf.constant_value_dict()
    if isinstance(wf, RepetitionWaveform):
        return ['R', describe_wf(wf._body, reg), int(wf._repetition_count)]
    if isinstance(wf, SequenceWaveform):
        return ['S', [describe_wf(x, reg) for x in wf.sequenced_waveforms]]
    if cv is not None:
        return ['C', vlib.frac_json(wf.duration), sorted([CH[c], vlib.frac_json(v)] for c, v in cv.items())]
    return ['A', reg.atom(wf), vlib.frac_json(wf.duration)]


def describe_wf_cv(wf, reg, acv, chans):
    """describe_wf + what every opaque atom answers to constant_value(channel) (the oracle `acv` of Model_cv.v)"""
    from qupulse.program.waveforms import SequenceWaveform, RepetitionWaveform
    if isinstance(wf, RepetitionWaveform):
        return ['R', describe_wf_cv(wf._body, reg, acv, chans), int(wf._repetition_count)]
    if isinstance(wf, SequenceWaveform):
        return ['S', [describe_wf_cv(x, reg, acv, chans) for x in wf.sequenced_waveforms]]
    d = describe_wf(wf, reg)
    if d[0] == 'A':
        acv[d[1]] = sorted([CH[c], _cv_json(wf.constant_value(c))] for c in chans)
    return d


def _cv_json(v):
    return None if v is None else vlib.frac_json(v)


def _run_cv(case, prog, reg, obs, chans, times, before):
    """Round 6 (seed C06-9 class): the per-channel constant_value(channel) of the waveforms the rewrites BUILD — every
    leaf waveform of the program after the rewrite and to_waveform(program) — observed together with the answers of the
    opaque atoms; Coq side: CCv (model Model_cv.constant_value = observation; every answer admissible for the pieces)."""
    from qupulse.program.loop import to_waveform
    op = case['op']
    wfs, whole = [], None
    with vlib.time_limit(op_time_limit() * 3):
        if op[0] != 'twf':
            try:
                apply_op(prog, case['path'], op)
            except (RuntimeError, ValueError, AssertionError, ZeroDivisionError, IndexError) as e:
                obs['err'] = ERRS.get(type(e).__name__, 'EDomain')
            for n in prog.get_depth_first_iterator():
                if n.is_leaf() and n.waveform is not None and not any(n.waveform is w for w in wfs):
                    wfs.append(n.waveform)
        obs['after'] = describe_tree(prog, reg)
        if _counts_positive(obs['after']):
            try:
                whole = to_waveform(prog.copy_tree_structure())
                if whole is not None:         # a program that is one empty loop: to_waveform hands back its `None`
                    wfs.append(whole)
            except (ValueError, AssertionError, AttributeError, TypeError):
                pass
    acv, items = {}, []
    for wf in wfs[:12]:
        d = describe_wf_cv(wf, reg, acv, chans)
        for c in chans:
            items.append([d, CH[c], _cv_json(wf.constant_value(c))])
    obs['acv'] = sorted([k, v] for k, v in acv.items())
    obs['items'] = items
    gs_bad = []
    play(prog, chans, times, gs_bad)
    if whole is not None and len(times) and 'err' not in obs:
        wf = whole
        gs_bad.extend(b for b in (gs_differs(wf, c, times, wf.unsafe_sample(c, times)) for c in chans) if b is not None)
    if gs_bad:
        obs['gs_bad'] = gs_bad[:3]
    return obs


def _counts_positive(t):
    """to_waveform is only meant for programs whose counts are all >= 1 (what create_program produces)"""
    return t['r'] >= 1 and all(_counts_positive(c) for c in t['c'])


def describe_tree(node, reg):
    from qupulse.program.volatile import VolatileRepetitionCount
    return {'r': int(node.repetition_count), 'w': None if node.waveform is None else describe_wf(node.waveform, reg),
            'v': isinstance(node.repetition_definition, VolatileRepetitionCount),
            'm': [reg.window(w) for w in (node._measurements or [])], 'c': [describe_tree(c, reg) for c in node]}


PROBE_ENVS = [[3, 5, 7, 11, 13, 17, 19, 23], [2, 9, 4, 25, 6, 49, 8, 27]]     # values of n0, n1, ... (cyclic)


def probe_envs(nvol):
    return [[[i, env[i % len(env)] + (i // len(env))] for i in range(nvol)] for env in PROBE_ENVS] if nvol else []


def probe_tree(node, envs):
    """every volatile count re-evaluated under other values of the volatile parameters (nothing is mutated: a new
    VolatileRepetitionCount over the changed scope); [] for a plain int"""
    from qupulse.program.volatile import VolatileRepetitionCount
    rd = node.repetition_definition
    vals = []
    if isinstance(rd, VolatileRepetitionCount):
        for env in envs:
            sc = rd._scope.change_constants({'n%d' % i: v for i, v in env})
            vals.append(int(type(rd)(rd._expression, sc)))
    return {'v': vals, 'c': [probe_tree(c, envs) for c in node]}


def probe_duration(node, env):
    """duration of the program when every volatile count is re-evaluated under `env` (nothing is mutated, no cache used)"""
    from qupulse.program.volatile import VolatileRepetitionCount
    rd = node.repetition_definition
    if isinstance(rd, VolatileRepetitionCount):
        n = max(int(type(rd)(rd._expression, rd._scope.change_constants({'n%d' % i: v for i, v in env}))), 0)
    else:
        n = int(rd)
    if node.is_leaf():
        body = F(0) if node.waveform is None else F(node.waveform.duration)
    else:
        body = sum((probe_duration(c, env) for c in node), F(0))
    return body * n


def node_durations_wrong(node, reg, path=()):
    """paths of nodes whose reported .duration differs from the duration of what they contain (computed from the
    description of the real objects, not from any cache)"""
    out = []
    d = describe_tree(node, reg)
    if vlib.to_fraction(node.duration) != _desc_total(d):
        out.append([list(path), vlib.frac_json(node.duration), str(_desc_total(d))])
    for i, c in enumerate(node):
        out.extend(node_durations_wrong(c, reg, path + (i,)))
    return out


def has_stale_index(node):
    for i, c in enumerate(node):
        if c.parent_index != i or c.parent is not node or has_stale_index(c):
            return True
    return False


def channels_of(node):
    for n in node.get_depth_first_iterator():
        if n.is_leaf() and n.waveform is not None:
            return sorted(n.waveform.defined_channels)
    return []


def gs_differs(wf, c, local, us):
    """Round 6: what the hardware drivers call is Waveform.get_sampled (constant_value short cut, sample cache, optional
    output array), not unsafe_sample.  Both entry points must give the same voltages, with and without an output array,
    and the first answer must not change when it is asked again."""
    import numpy as np
    first = np.array(wf.get_sampled(c, local))
    into = wf.get_sampled(c, local, output_array=np.full(len(local), np.nan))
    again = np.array(wf.get_sampled(c, local))
    if not (np.array_equal(first, us, equal_nan=True) and np.array_equal(np.array(into), us, equal_nan=True)
            and np.array_equal(again, us, equal_nan=True)):
        cv = wf.constant_value(c)
        return [type(wf).__name__, c, None if cv is None else str(cv), [float(x) for x in us[:6]], [float(x) for x in first[:6]],
                [float(x) for x in np.array(into)[:6]]]
    return None


def play(node, channels, times, gs_bad=None):
    """Reference player: the voltages a sequencer outputs when it walks the tree (leaf by leaf, repetitions unrolled);
    a grid point on a junction belongs to the later piece.  `gs_bad` (a list): every leaf is sampled through
    Waveform.get_sampled as well (as the drivers do) and disagreements with unsafe_sample are appended."""
    import numpy as np
    from qupulse.utils.types import TimeType
    out = {c: np.full(len(times), np.nan) for c in channels}
    budget = [20000]

    def rec(n, t0):
        for _ in range(n.repetition_count):
            budget[0] -= 1
            if budget[0] < 0:
                raise vlib.Timeout()
            if n.is_leaf():
                wf = n.waveform
                if wf is None:
                    continue
                t1 = t0 + wf.duration
                lo, hi = np.searchsorted(times, (float(t0), float(t1)), 'left')
                if hi > lo:
                    local = times[lo:hi] - float(t0)
                    for c in channels:
                        out[c][lo:hi] = wf.unsafe_sample(c, local)
                        if gs_bad is not None and len(gs_bad) < 3:
                            bad = gs_differs(wf, c, local, out[c][lo:hi])
                            if bad is not None:
                                gs_bad.append(bad)
                t0 = t1
            else:
                for ch in n:
                    t0 = rec(ch, t0)
        return t0
    end = rec(node, TimeType.from_fraction(0, 1))
    return out, end


def grid_for(duration):
    import numpy as np
    d = vlib.to_fraction(duration)
    n = int(math.ceil(d * 2))
    step = 0.5
    while n > 400:
        n = (n + 1) // 2
        step *= 2
    return np.arange(n) * step


def same_arrays(a, b):
    import numpy as np
    return all(np.array_equal(a[c], b[c], equal_nan=True) for c in a) and set(a) == set(b)


ERRS = {'RuntimeError': 'ERuntime', 'ValueError': 'EValue', 'AssertionError': 'EAssert', 'ZeroDivisionError': 'EZeroDiv',
        'IndexError': 'EIndex'}


def apply_op(prog, path, op):
    from qupulse.program.loop import make_compatible, roll_constant_waveforms
    from qupulse.utils.types import TimeType
    node = prog.locate(tuple(path))
    k = op[0]
    if k == 'unroll':
        node.unroll()
    elif k == 'unroll_children':
        node.unroll_children()
    elif k == 'encapsulate':
        node.encapsulate()
    elif k == 'split':
        node.split_one_child() if op[1] is None else node.split_one_child(op[1])
    elif k == 'merge':
        node._merge_single_child()
    elif k == 'cleanup':
        acts = tuple(a for a, f in (('remove_empty_loops', op[1]), ('merge_single_child', op[2])) if f)
        node.cleanup(acts)
    elif k == 'flatten':
        node.flatten_and_balance(op[1])
    elif k == 'make_compat':
        sr = _fr(op[3])
        make_compatible(node, op[1], op[2], TimeType.from_fraction(sr.numerator, sr.denominator))
    elif k == 'roll':
        sr = _fr(op[3])
        roll_constant_waveforms(node, op[1], op[2], TimeType.from_fraction(sr.numerator, sr.denominator))
    else:
        raise ValueError(k)


def run_impl(case):
    warnings.simplefilter('ignore')
    try:
        return _run_impl(case)
    except vlib.Timeout:
        return {'hang': True, 'where': 'harness'}
    except Exception as e:       # unexpected
        return {'crash': '%s: %s' % (type(e).__name__, str(e)[:200])}


def _run_impl(case):
    from qupulse.program.loop import to_waveform
    from qupulse.utils import numeric
    if case['kind'] == 'sfg':
        try:
            with vlib.time_limit(OP_TIME_LIMIT):
                return {'ret': int(numeric.smallest_factor_ge(case['n'], case['m']))}
        except (AssertionError, ZeroDivisionError, ValueError) as e:
            return {'err': ERRS[type(e).__name__]}
    with vlib.time_limit(60):
        prog = build_program(case['build'])
        reg = Registry()
        obs = {'input': describe_tree(prog, reg), 'stale': has_stale_index(prog)}
        chans = channels_of(prog)
        if case['kind'] == 'dec':
            return _run_dec(case, prog, reg, obs)
        if case['kind'] == 'idx':
            return _run_idx(case, prog, reg, obs)
        witness_copy = prog.copy_tree_structure()      # shares the waveform objects with prog, nothing else
        times = grid_for(witness_copy.duration)
        gs_bad = []
        before, end_before = play(prog, chans, times, gs_bad)
        obs['n_times'] = int(len(times))
        if gs_bad:
            obs['gs_bad_before'] = gs_bad
    if case['kind'] == 'cv':
        return _run_cv(case, prog, reg, obs, chans, times, before)
    if case['kind'] == 'twf':
        try:
            with vlib.time_limit(op_time_limit()):
                wf = to_waveform(prog)
        except vlib.Timeout:
            obs['hang'] = True
            _HANGS[0] += 1
            return obs
        except (ValueError, AssertionError) as e:
            obs['err'] = ERRS[type(e).__name__]
            return obs
        if wf is None:
            obs['crash'] = 'to_waveform returned None'
            return obs
        obs['wf'] = describe_wf(wf, reg)
        import numpy as np
        times0 = times.copy()
        smp = {c: wf.unsafe_sample(c, times) if len(times) else np.zeros(0) for c in chans}
        obs['twf_same'] = same_arrays(smp, before) and set(wf.defined_channels) == set(chans)
        if len(times):
            bad = [b for b in (gs_differs(wf, c, times, smp[c]) for c in chans) if b is not None]
            if bad:
                obs['gs_bad'] = bad[:3]
        # to_waveform must not have touched the program; asking again gives an equal waveform and the same samples
        wf2 = to_waveform(prog)
        smp2 = {c: wf2.unsafe_sample(c, times) if len(times) else np.zeros(0) for c in chans}
        obs['twf_again'] = (describe_tree(prog, reg) == obs['input'] and describe_wf(wf2, reg) == obs['wf']
                            and same_arrays(smp2, smp) and np.array_equal(times, times0)
                            and not node_durations_wrong(prog, reg))
        return obs
    steps = [(st[0], st[1], st[2] if len(st) > 2 else False) for st in case.get('prefix', [])]
    steps.append((case['path'], case['op'], False))
    executed = []
    last = None
    for k, (path, op, read) in enumerate(steps):
        try:
            prog.locate(tuple(path))
        except IndexError:
            if k < len(steps) - 1:
                continue                  # a prefix step whose path does not exist (any more) is skipped
            if 'prefix' not in case:
                obs['crash'] = 'harness: invalid path %r' % (path,)
                return obs
            path = list(path)             # last step of a sequence: longest existing prefix of the path
            while path:
                path.pop()
                try:
                    prog.locate(tuple(path))
                    break
                except IndexError:
                    pass
            if op[0] == 'unroll' and not path:
                op = ['unroll_children']
        if read:
            for n in prog.get_depth_first_iterator():
                n.duration
        mid = describe_tree(prog, reg) if (executed or k < len(steps) - 1) else obs['input']
        last = (path, op)
        if k == len(steps) - 1 and case.get('volatile') and case['build'].get('vscope') and op[0] == 'make_compat':
            penvs = probe_envs(len(vol_values(case['build']['tree'])))
            obs['pdur_before'] = [vlib.frac_json(probe_duration(prog, e)) for e in penvs]
        wlog = []
        try:
            with warnings.catch_warnings(record=True) as wlog:
                warnings.simplefilter('always')
                with vlib.time_limit(op_time_limit()):
                    apply_op(prog, path, op)
            if k < len(steps) - 1:
                executed.append([path, op])
                continue
        except vlib.Timeout:
            obs['hang'] = True
            _HANGS[0] += 1
            return obs
        except (RuntimeError, ValueError, AssertionError, ZeroDivisionError, IndexError) as e:
            if type(e).__name__ not in ERRS:
                obs['crash'] = '%s: %s' % (type(e).__name__, str(e)[:200])
                return obs
            obs['err'] = ERRS[type(e).__name__]
        break
    obs['prefix'] = executed
    obs['mid'] = mid
    obs['last'] = [last[0], last[1]]
    obs['warned'] = any(w.category.__name__ == 'VolatileModificationWarning' for w in wlog)
    case_path = last[0]
    with vlib.time_limit(60):
        obs['after'] = describe_tree(prog, reg)
        obs['dur'] = vlib.frac_json(prog.duration)
        obs['node_durs_wrong'] = node_durations_wrong(prog, reg)[:3]
        # the copy taken before the rewrite shares only the waveform objects: it must still be the input program
        obs['copy_intact'] = describe_tree(witness_copy, reg) == obs['input'] and not node_durations_wrong(witness_copy, reg)
        if 'pdur_before' in obs:
            obs['pdur_after'] = [vlib.frac_json(probe_duration(prog, e))
                                 for e in probe_envs(len(vol_values(case['build']['tree'])))]
        if case.get('volatile'):
            # the expression behind a volatile count is observed by re-evaluating it under other parameter values; the
            # model knows the expressions of the input only when nothing ran before (tags VVar i in pre-order)
            tagged = bool(case['build'].get('vscope')) and not executed
            obs['envs'] = probe_envs(len(vol_values(case['build']['tree']))) if tagged else []
            obs['probes'] = probe_tree(prog, obs['envs'])
        if 'err' not in obs:
            try:
                node = prog.locate(tuple(case_path))
                obs['depth'], obs['bal'] = int(node.depth()), bool(node.is_balanced())
            except IndexError:
                obs['depth'], obs['bal'] = None, None
        gs_bad = []
        after, end_after = play(prog, chans, times, gs_bad)
        obs['play_same'] = same_arrays(before, after) and end_before == end_after
        try:
            prog.assert_tree_integrity()
            obs['stale_after'] = has_stale_index(prog)
        except Exception:
            obs['stale_after'] = True
        # to_waveform(program) after the rewrite must still sample to what the program played before (where defined)
        try:
            wf = to_waveform(prog.copy_tree_structure()) if _counts_positive(obs['after']) else None
            if wf is not None and len(times):
                smp = {c: wf.unsafe_sample(c, times) for c in chans}
                obs['twf_after_same'] = same_arrays(smp, before)
                gs_bad.extend(b for b in (gs_differs(wf, c, times, smp[c]) for c in chans) if b is not None)
        except vlib.Timeout:
            raise
        except Exception:
            obs['twf_after_same'] = None      # empty leaves / count 0: to_waveform is not defined on such trees
        if gs_bad:
            obs['gs_bad'] = gs_bad[:3]
    return obs


# ---------------------------------------------------------------------------------------------------------------------
# decimal stream: leaf durations k/10, k/5, k/3 ... (not binary fractions), grid points exactly on junctions.
# Floating point is NOT exact here: sampled values are compared with the exact rational model under the declared absolute
# tolerance DEC_TOL (a wrong piece at a junction differs grossly: the ramps end at a value different from where they start)

DEC_TOL = F(1, 2 ** 30)
_STATS = {'inexact_cases': 0, 'inexact_samples': 0, 'inexact_known_finding_cases': 0}


def dec_grid(total, sr):
    """grid points k / sr for k < total * sr, each the correctly rounded double of the exact rational"""
    import numpy as np
    n = int(math.floor(total * sr))
    return np.array([float(F(k) / sr) for k in range(n)], dtype=float)


def _samples_json(arr):
    import numpy as np
    return [None if np.isnan(x) else vlib.frac_json(float(x)) for x in arr]


def _ramp_table(tree, reg):
    """atom id -> segments [t0, t1, v0, v1] (linear from v0 at local time t0 to v1 at t1, half open) of the ramps and
    tables of the recipe (ids as handed out by the describer: equal waveforms, equal id)"""
    out = {}

    def wf(w):
        if w['k'] == 'ramp':
            out[reg.atom(build_wf(w))] = [['0', w['d'], w['v0'], w['v1']]]
        elif w['k'] == 'dtable':
            segs = []
            for (t1, v1, _), (t2, v2, ip) in zip(w['e'], w['e'][1:]):
                segs.append([t1, t2] + {'hold': [v1, v1], 'jump': [v2, v2], 'linear': [v1, v2]}[ip])
            out[reg.atom(build_wf(w))] = segs
        elif w['k'] in ('seq', 'par'):
            for x in w['l']:
                wf(x)
        elif w['k'] == 'rep':
            wf(w['b'])

    def rec(t):
        if t['w'] is not None:
            wf(t['w'])
        for c in t['c']:
            rec(c)
    rec(tree)
    return sorted([k, v] for k, v in out.items())


def _run_dec(case, prog, reg, obs):
    """one rewrite on a program with decimal durations; besides everything the 'rw' cases observe: samples of
    to_waveform(program) on the junction grid before and after the rewrite, and the structure of both waveforms"""
    import numpy as np
    from qupulse.program.loop import to_waveform
    sr = F(case['sr'])
    _STATS['inexact_cases'] += 1
    with vlib.time_limit(60):
        total = vlib.to_fraction(prog.copy_tree_structure().duration)
        times = dec_grid(total, sr)
        obs['n_times'] = int(len(times))
        obs['ramps'] = _ramp_table(case['build']['tree'], reg)
        before, end_before = play(prog, ['A'], times)
        wf = to_waveform(prog.copy_tree_structure())
        obs['wfb'] = describe_wf(wf, reg)
        obs['sb'] = _samples_json(np.array(wf.get_sampled('A', times)) if len(times) else np.zeros(0))
    path, op = case['path'], case['op']
    try:
        with vlib.time_limit(op_time_limit()):
            apply_op(prog, path, op)
    except vlib.Timeout:
        obs['hang'] = True
        _HANGS[0] += 1
        return obs
    except (RuntimeError, ValueError, AssertionError, ZeroDivisionError, IndexError) as e:
        obs['err'] = ERRS[type(e).__name__]
    obs['prefix'], obs['mid'], obs['last'] = [], obs['input'], [path, op]
    with vlib.time_limit(60):
        obs['after'] = describe_tree(prog, reg)
        obs['dur'] = vlib.frac_json(prog.duration)
        if 'err' not in obs:
            try:
                node = prog.locate(tuple(path))
                obs['depth'], obs['bal'] = int(node.depth()), bool(node.is_balanced())
            except IndexError:
                obs['depth'], obs['bal'] = None, None
        after, end_after = play(prog, ['A'], times)
        # the leaf-by-leaf player computes every local time as (grid point - float(exact offset of the leaf)) both
        # times: the same leaves at the same offsets must give bit-identical samples
        # (make_compatible replaces leaves by composite waveforms, which sample their parts at float-difference local
        # times: not the same computation any more, so only the end time is compared exactly there)
        obs['play_same'] = (op[0] == 'make_compat' or same_arrays(before, after)) and end_before == end_after
        try:
            prog.assert_tree_integrity()
            obs['stale_after'] = has_stale_index(prog)
        except Exception:
            obs['stale_after'] = True
        wf = to_waveform(prog.copy_tree_structure())
        obs['wfa'] = describe_wf(wf, reg)
        obs['sa'] = _samples_json(np.array(wf.get_sampled('A', times)) if len(times) else np.zeros(0))
        # the same query again on the same objects (sample cache, shared time array), and the caller's array untouched
        again = _samples_json(np.array(wf.get_sampled('A', times)) if len(times) else np.zeros(0))
        obs['resample_same'] = again == obs['sa'] and np.array_equal(times, dec_grid(total, sr))
        obs['node_durs_wrong'] = node_durations_wrong(prog, reg)[:3]
    _STATS['inexact_samples'] += 2 * len(times)
    return obs


def describe_itree(node, reg):
    pi = node.parent_index
    return {'p': None if pi is None else int(pi), 'r': int(node.repetition_count),
            'w': None if node.waveform is None else describe_wf(node.waveform, reg),
            'm': [reg.window(w) for w in (node._measurements or [])], 'c': [describe_itree(c, reg) for c in node]}


def _run_idx(case, prog, reg, obs):
    """a rewrite that reads / writes Node.__parent_index, observed with the recorded index of every node"""
    if case.get('poke') is not None:            # break C09's invariant on purpose: swap two recorded indices
        n = prog.locate(tuple(case['poke']))
        a, b = n[0], n[1]
        a._Node__parent_index, b._Node__parent_index = b._Node__parent_index, a._Node__parent_index
    obs['iinput'] = describe_itree(prog, reg)
    try:
        with vlib.time_limit(op_time_limit()):
            apply_op(prog, case['path'], case['op'])
    except vlib.Timeout:
        obs['hang'] = True
        _HANGS[0] += 1
        return obs
    except (RuntimeError, ValueError, IndexError, TypeError) as e:
        obs['err'] = {'TypeError': 'EDomain'}.get(type(e).__name__) or ERRS[type(e).__name__]
    obs['iafter'] = describe_itree(prog, reg)
    obs['after'] = describe_tree(prog, reg)
    return obs


def g_itree(t):
    return '(INode %s %s %s %s %s)' % (gopt(gZ, t['p']), gZ(t['r']), gopt(g_wf, t['w']),
                                       glist(lambda i: '%d%%N' % i, t['m']), glist(g_itree, t['c']))


def _desc_pieces(w, rep=1):
    """pieces (kind, id/values, duration) a described waveform plays, repetitions unrolled"""
    k = w[0]
    if k == 'A':
        return [('A', w[1], F(w[2]))]
    if k == 'C':
        return [('C', dict((c, F(v)) for c, v in w[2]), F(w[1]))]
    if k == 'S':
        return [p for x in w[1] for p in _desc_pieces(x)]
    return _desc_pieces(w[1]) * w[2]


def _tree_pieces(t):
    body = (_desc_pieces(t['w']) if t['w'] is not None else []) if not t['c'] else [p for c in t['c'] for p in _tree_pieces(c)]
    return body * max(t['r'], 0)


def dec_expected(pieces, ramps, sr, n):
    """exact rational voltage of channel A at k / sr (junction belongs to the later piece)"""
    out = []
    bounds = []
    t0 = F(0)
    for p in pieces:
        bounds.append((t0, t0 + p[2], p))
        t0 += p[2]
    j = 0
    for k in range(n):
        t = F(k) / sr
        while j < len(bounds) and t >= bounds[j][1]:
            j += 1
        if j >= len(bounds):
            out.append(None)
            continue
        a, b, p = bounds[j]
        if p[0] == 'C':
            out.append(p[1].get(CH['A']))
        else:
            out.append(_seg_volt(ramps[p[1]], t - a))
    return out


def _seg_volt(segs, t):
    for t0, t1, v0, v1 in segs:
        if t < t1:
            return v0 + (v1 - v0) * (t - t0) / (t1 - t0)
    return None


def dec_float_path(w, ramps, times):
    """what the sampling algorithm of Sequence/RepetitionWaveform computes in binary64 when every boundary is the
    correctly rounded double of the EXACT boundary and the local time handed to a part is `times - float(boundary)`
    (the reference algorithm; used only to recognise the known finding C06-float-local-time-nested)"""
    import numpy as np
    out = np.full(len(times), np.nan)
    k = w[0]
    if k == 'A':
        for t0, t1, v0, v1 in ramps[w[1]]:          # as TableWaveform.unsafe_sample: later segments overwrite
            lo, hi = np.searchsorted(times, float(t0), 'left'), np.searchsorted(times, float(t1), 'right')
            out[lo:hi] = float(v0) + (float(v1) - float(v0)) * (times[lo:hi] - float(t0)) / (float(t1) - float(t0))
        return out
    if k == 'C':
        out[:] = float(dict((c, F(v)) for c, v in w[2])[CH['A']])
        return out
    parts = w[1] if k == 'S' else [w[1]] * w[2]
    t = F(0)
    for x in parts:
        end = t + _desc_dur(x)
        lo, hi = np.searchsorted(times, (float(t), float(end)), 'left')
        out[lo:hi] = dec_float_path(x, ramps, times[lo:hi] - np.float64(float(t)))
        t = end
    return out


def _close(xs, ys, tol=DEC_TOL):
    if len(xs) != len(ys):
        return False
    for x, y in zip(xs, ys):
        if (x is None) != (y is None):
            return False
        if x is not None and abs(F(x) - F(y)) > tol:
            return False
    return True


def dec_verdict(case, obs):
    """(why the property fails on this observation | None, explained by the reference float path?)"""
    import numpy as np
    sr = F(case['sr'])
    ramps = {k: [tuple(F(x) for x in sg) for sg in segs] for k, segs in obs['ramps']}
    n = obs['n_times']
    exp = dec_expected(_tree_pieces(obs['input']), ramps, sr, n)
    why = None
    if not _close(obs['sb'], exp):
        why = 'to_waveform(program) before the rewrite does not sample to the program\'s voltages (tolerance 2^-30)'
    elif not _close(obs['sa'], exp):
        why = 'to_waveform(program) after the rewrite samples differently from the program before the rewrite (tolerance 2^-30)'
    elif not _close(obs['sa'], obs['sb']):
        why = 'samples before and after the rewrite differ by more than 2^-30'
    if why is None:
        return None, False
    times = dec_grid(F(n) / sr, sr)
    fl = lambda w: [None if np.isnan(x) else F(float(x)) for x in dec_float_path(w, ramps, times)]
    explained = _close(obs['sb'], fl(obs['wfb'])) and _close(obs['sa'], fl(obs['wfa']))
    return why, explained


# ---------------------------------------------------------------------------------------------------------------------
# Gallina printers

def g_wf(d):
    k = d[0]
    if k == 'A':
        return '(WAtom %d%%N %s)' % (d[1], gQ(F(d[2])))
    if k == 'C':
        return '(WConst %s %s)' % (gQ(F(d[1])), glist(lambda cv: '(%d%%N, %s)' % (cv[0], gQ(F(cv[1]))), d[2]))
    if k == 'S':
        return '(WSeq %s)' % glist(g_wf, d[1])
    if k == 'R':
        return '(WRep %s %s)' % (g_wf(d[1]), gZ(d[2]))
    raise ValueError(k)


def g_tree(t):
    return '(Node %s %s %s %s)' % (gZ(t['r']), gopt(g_wf, t['w']), glist(lambda i: '%d%%N' % i, t['m']),
                                   glist(g_tree, t['c']))


def g_vtree(t, ctr=None):
    """ctr = [next index]: volatile counts are numbered in pre-order (parameter n<i> of the shared scope = VVar i);
    without it every volatile count is VVar 0 (expression not known: after a prefix, or one private scope per node)"""
    if t.get('v'):
        i = 0
        if ctr is not None:
            i = ctr[0]
            ctr[0] += 1
        r = '(Volatile %s (VVar %d%%N))' % (gZ(t['r']), i)
    else:
        r = '(Fixed %s)' % gZ(t['r'])
    return '(VNode %s %s %s %s)' % (r, gopt(g_wf, t['w']), glist(lambda i: '%d%%N' % i, t['m']),
                                   glist(lambda c: g_vtree(c, ctr), t['c']))


def g_ptree(p):
    return '(PNode %s %s)' % (glist(gZ, p['v']), glist(g_ptree, p['c']))


def g_op(op):
    k = op[0]
    if k == 'unroll':
        return 'OUnroll'
    if k == 'unroll_children':
        return 'OUnrollChildren'
    if k == 'encapsulate':
        return 'OEncapsulate'
    if k == 'split':
        return '(OSplit %s)' % gopt(gZ, op[1])
    if k == 'merge':
        return 'OMerge'
    if k == 'cleanup':
        return '(OCleanup %s %s)' % (gbool(op[1]), gbool(op[2]))
    if k == 'flatten':
        return '(OFlatten %s)' % gZ(op[1])
    if k == 'make_compat':
        return '(OMakeCompat %s %s %s)' % (gZ(op[1]), gZ(op[2]), gQ(F(op[3])))
    if k == 'roll':
        return '(ORoll %s %s %s)' % (gZ(op[1]), gZ(op[2]), gQ(F(op[3])))
    raise ValueError(k)


def to_coq(case, obs):
    if 'crash' in obs or 'hang' in obs:
        return 'CCrash'
    if case['kind'] == 'sfg':
        r = '(Ok %s)' % gZ(obs['ret']) if 'ret' in obs else '(Err %s)' % obs['err']
        return '(CSfg %s %s %s)' % (gZ(case['n']), gZ(case['m']), r)
    if case['kind'] == 'twf':
        r = '(Ok %s)' % g_wf(obs['wf']) if 'wf' in obs else '(Err %s)' % obs['err']
        return '(CToWf %s %s)' % (g_tree(obs['input']), r)
    gpath = lambda p: glist(lambda i: '%d%%nat' % i, p)
    if case['kind'] == 'cv':
        goq = lambda x: gopt(lambda y: gQ(F(y)), x)
        acv = glist(lambda kv: '(%d%%N, %s)' % (kv[0], glist(lambda cv: '(%d%%N, %s)' % (cv[0], goq(cv[1])), kv[1])), obs['acv'])
        items = glist(lambda it: '(%s, %d%%N, %s)' % (g_wf(it[0]), it[1], goq(it[2])), obs['items'])
        return '(CCv %s %s)' % (acv, items)
    if case['kind'] == 'idx':
        io = '(IObsErr %s %s)' % (obs['err'], g_itree(obs['iafter'])) if 'err' in obs else '(IObsOk %s)' % g_itree(obs['iafter'])
        return '(CIdx %s %s %s %s)' % (g_itree(obs['iinput']), gpath(case['path']), g_op(case['op']), io)
    lpath, lop = obs['last']
    path = gpath(lpath)
    if 'err' in obs:
        o = '(ObsErr %s %s)' % (obs['err'], g_tree(obs['after']))
    else:
        dp = obs['depth'] if obs['depth'] is not None else -1
        o = '(ObsOk %s %s %s %s)' % (g_tree(obs['after']), gQ(F(obs['dur'])), gZ(dp), gbool(bool(obs['bal'])))
    if case['kind'] == 'dec':
        gs = lambda l: glist(lambda x: gopt(lambda y: gQ(F(y)), x), l)
        rt = glist(lambda r: '(%d%%N, %s)' % (r[0], glist(lambda sg: '(%s, %s, %s, %s)' % tuple(gQ(F(x)) for x in sg), r[1])),
                   obs['ramps'])
        return '(CDec %s %s %s %s %s %s %s %s)' % (g_tree(obs['input']), path, g_op(lop), o, gQ(F(case['sr'])), rt,
                                                   gs(obs['sb']), gs(obs['sa']))
    if case.get('volatile'):
        if 'err' in obs:
            vo = '(VObsErr %s %s %s)' % (obs['err'], g_vtree(obs['after']), gbool(obs['warned']))
        else:
            vo = '(VObsOk %s %s %s %s %s)' % (g_vtree(obs['after']), gQ(F(obs['dur'])), gZ(dp), gbool(bool(obs['bal'])),
                                             gbool(obs['warned']))
        envs = glist(lambda e: glist(lambda kv: '(%d%%N, %s)' % (kv[0], gZ(kv[1])), e), obs['envs'])
        return '(CVol %s %s %s %s %s %s)' % (g_vtree(obs['mid'], [0] if obs['envs'] else None), path, g_op(lop), vo, envs,
                                             g_ptree(obs['probes']))
    if obs['prefix']:
        pre = glist(lambda st: '(%s, %s)' % (gpath(st[0]), g_op(st[1])), obs['prefix'])
        return '(CSeq %s %s %s %s %s %s)' % (g_tree(obs['input']), pre, g_tree(obs['mid']), path, g_op(lop), o)
    return '(CRewrite %s %s %s %s)' % (g_tree(obs['input']), path, g_op(lop), o)


# ---------------------------------------------------------------------------------------------------------------------
# python-side part of the specification (independent of the Coq model): sampled voltages before = after

def py_spec(case, obs):
    if 'hang' in obs:
        return 'the rewrite did not return within %.0f s' % OP_TIME_LIMIT
    if 'crash' in obs:
        return 'unexpected exception: ' + obs['crash']
    if obs.get('gs_bad') or obs.get('gs_bad_before'):
        return ('Waveform.get_sampled (what the drivers upload) differs from unsafe_sample on a leaf waveform %s '
                '[class, channel, constant_value, unsafe_sample, get_sampled, get_sampled(output_array)]: %r'
                % ('of the input program' if obs.get('gs_bad_before') else 'after the rewrite / of to_waveform(program)',
                   (obs.get('gs_bad_before') or obs.get('gs_bad'))[:1]))
    if case['kind'] == 'cv':
        return None
    if case['kind'] == 'twf':
        if 'wf' in obs and not obs['twf_same']:
            return 'to_waveform(program) samples differ from the program played leaf by leaf'
        if obs.get('twf_again') is False:
            return 'to_waveform changed the program, the time array, or answers differently when asked again'
        return None
    if obs.get('node_durs_wrong'):
        return 'after the rewrite a node reports a duration different from what it contains (path, reported, actual): %r' \
            % (obs['node_durs_wrong'][:1],)
    if obs.get('copy_intact') is False:
        return 'a copy of the program taken before the rewrite (shared waveform objects only) changed'
    if case['kind'] == 'dec':
        if obs.get('resample_same') is False:
            return 'sampling to_waveform(program) a second time gives different samples, or the time array was modified'
        if not obs.get('play_same', True):
            return 'leaf-by-leaf samples (or the end time) of the program differ before and after the rewrite'
        if 'sb' in obs and 'sa' in obs:
            return dec_verdict(case, obs)[0]
        return None
    if case['kind'] == 'rw':
        if not obs.get('play_same', True):
            return 'sampled voltages (or the end time) of the program differ before and after the rewrite'
        if ('pdur_after' in obs and 'err' not in obs and not obs.get('warned')
                and obs['pdur_after'] != obs['pdur_before']):
            # repaired in round 4 (former finding C06-make-compatible-silent-volatile-freeze); Coq side:
            # Props.C06_vol_make_compatible_repaired_follows
            return ('make_compatible emitted no VolatileModificationWarning but the program no longer follows its volatile '
                    'parameters: durations under re-evaluated counts %r before, %r after'
                    % (obs['pdur_before'], obs['pdur_after']))
        if obs.get('twf_after_same') is False:
            return 'to_waveform(program) after the rewrite samples differently from the program before the rewrite'
    return None


def _leaf_durs(t):
    if not t['c']:
        return [] if t['w'] is None else [_desc_dur(t['w'])]
    return [d for c in t['c'] for d in _leaf_durs(c)]


def _desc_dur(w):
    k = w[0]
    if k == 'A':
        return F(w[2])
    if k == 'C':
        return F(w[1])
    if k == 'S':
        return sum((_desc_dur(x) for x in w[1]), F(0))
    return _desc_dur(w[1]) * w[2]


def _desc_total(t):
    if not t['c']:
        return (F(0) if t['w'] is None else _desc_dur(t['w'])) * max(t['r'], 0)
    return sum((_desc_total(c) for c in t['c']), F(0)) * max(t['r'], 0)


def py_post(obs):
    """postconditions and duration read off the implementation's observation in plain Python (used by the failing-input
    search when the Coq side cannot be consulted)"""
    path, op = obs['last']
    if _desc_total(obs['after']) != _desc_total(obs['input']) or F(obs['dur']) != _desc_total(obs['input']):
        return 'duration changed: %s -> %s (reported %s)' % (_desc_total(obs['input']), _desc_total(obs['after']), obs['dur'])
    if 'err' in obs:
        return None
    try:
        node = _node_at(obs['after'], path)
    except (IndexError, KeyError):
        return None
    if op[0] == 'flatten' and op[1] >= 1 and node['c']:
        if obs['depth'] != op[1] or _depth(node) != op[1]:
            return 'depth after flatten_and_balance(%d) is %s' % (op[1], obs['depth'])
        if not obs['bal']:
            return 'program is not balanced after flatten_and_balance'
    if op[0] == 'make_compat' and op[2] > 0:
        sr = F(op[3])
        for d in _leaf_durs(node):
            n = d * sr
            if n.denominator != 1 or n < op[1] or n % op[2] != 0:
                return 'leaf of %s samples after make_compatible(min=%d, quantum=%d)' % (n, op[1], op[2])
    return None


def _size(t):
    return 1 + sum(_size(c) for c in t['c'])


def nontrivial(case, obs):
    if case['kind'] == 'sfg':
        return case['n'] > 6
    if 'input' not in obs:
        return False
    if _size(obs['input']) < 3:
        return False
    if case['kind'] == 'twf':
        return True
    if case['kind'] == 'idx':
        return obs.get('iafter') != obs.get('iinput')
    return 'err' in obs or obs.get('after') != obs.get('input')


def histogram_keys(case, obs):
    k = case['kind']
    keys = [k]
    if k == 'dec':
        keys.append('dec_op:' + case['op'][0])
        keys.append('dec_den:%d' % F(case['sr']).numerator)
        if 'sa' in obs:
            why, explained = dec_verdict(case, obs)
            keys.append('dec:' + ('samples_within_tolerance' if why is None else
                                  'float_local_time_explains_mismatch' if explained else 'unexplained_mismatch'))
    if k == 'cv':
        keys.append('cv_op:' + case['op'][0])
        vals = [it[2] for it in obs.get('items', [])]
        keys.append('cv:' + ('some_channel_constant' if any(v is not None for v in vals) else 'no_channel_constant'))
        if any(it[0][0] in ('S', 'R') and it[2] is not None for it in obs.get('items', [])):
            keys.append('cv:composite_answers_a_value')
        if any(it[0][0] in ('S', 'R') and it[2] is None for it in obs.get('items', [])):
            keys.append('cv:composite_answers_none')
    if k == 'idx':
        keys.append('idx_op:' + case['op'][0])
        keys.append('idx:' + ('invariant_broken_on_purpose' if case.get('poke') is not None else 'invariant_holds'))
    if k == 'rw':
        keys.append('op:' + case['op'][0])
        keys.append('at:' + ('root' if not case['path'] else 'inner'))
        if obs.get('prefix'):
            keys.append('sequence_len:%d' % (len(obs['prefix']) + 1))
        if case.get('volatile'):
            keys.append('volatile_counts')
            keys.append('volatile_op:' + obs.get('last', [0, case['op']])[1][0])
            keys.append('volatile:' + ('expressions_observed' if obs.get('envs') else 'expressions_not_observed'))
            if obs.get('warned'):
                keys.append('volatile:warned')
    if 'build' in case:
        b = case['build']
        if b.get('share'):
            keys.append('shared_waveform_objects')
        rd = b.get('read_dur')
        keys.append('caches:' + ('everywhere' if rd is True else 'partly' if rd else 'nowhere'))
        if k == 'rw' and len(case.get('prefix', [])) == 1 and case['prefix'][0][:2] == [case['path'], case['op']]:
            keys.append('same_rewrite_twice')
        keys.append('build:' + ('template' if 'template' in b else b.get('style', 'ctor') +
                                ('+reversed' if b.get('reverse') else '')))
    if 'input' in obs:
        keys.append('size:%s' % min(_size(obs['input']), 40) if _size(obs['input']) < 10 else 'size:10+')
        keys.append('depth:%d' % _depth(obs['input']))
    keys.append('obs:' + ('hang' if 'hang' in obs else 'crash' if 'crash' in obs else
                          'err:' + obs['err'] if 'err' in obs else 'ok'))
    if obs.get('stale'):
        keys.append('stale_parent_index')
    return keys


def _depth(t):
    return 0 if not t['c'] else 1 + max(_depth(c) for c in t['c'])


def _node_at(t, path):
    for i in path:
        t = t['c'][i]
    return t


def _has_unaligned_const(t, q, sr):
    if t['w'] is not None and t['w'][0] == 'C':
        if (F(t['w'][1]) * sr / q).denominator != 1:
            return True
    return any(_has_unaligned_const(c, q, sr) for c in t['c'])


def _is_nested(w):
    """a composite waveform with a composite part: the part is sampled at local times that are float differences"""
    if w[0] == 'S':
        return any(x[0] in ('S', 'R') for x in w[1])
    if w[0] == 'R':
        return w[1][0] in ('S', 'R')
    return False


def classify(case, obs):
    """Which listed finding (known_findings.d/C06.json) does this failing case belong to?  None is listed any more (all
    seven findings of rounds 1-4 are repaired in /repo), so every failing case is a violation.  Round-5 audit: the
    predicates of the repaired findings (stale parent index, roll floor division, unroll_children of a leaf, negative
    split index) were still computed here; their ids were in no list, so they could not hide anything, and they are
    removed so that nobody re-lists an id with a predicate as wide as 'any split with a negative index'."""
    return None


# ---------------------------------------------------------------------------------------------------------------------
# generators

VALS = ['0', '1', '-1', '1/2', '1/4', '3/4', '-1/2', '2', '3/2']


def g_const(rng, chans, dur=None):
    d = dur if dur is not None else rng.choice([1, 1, 2, 2, 3, 4, 5, 6, 8, '3/2', '1/2', 12, 16])
    return {'k': 'const', 'd': str(d), 'v': {c: rng.choice(VALS) for c in chans}}


def g_table1(rng, ch, dur):
    """non-constant single-channel table of the given duration; all interpolation arithmetic exact in binary64"""
    dur = F(dur)
    v0, v1 = rng.sample(VALS, 2)
    pow2 = dur in (F(1, 2), 1, 2, 4, 8, 16)
    if pow2 and (dur < 1 or rng.random() < 0.5):
        return {'k': 'table', 'ch': ch, 'e': [['0', v0, 'hold'], [str(dur), v1, 'linear']]}
    if dur < 1:
        return {'k': 'table', 'ch': ch, 'e': [['0', v0, 'hold'], [str(dur / 2), v1, 'hold'], [str(dur), v1, 'hold']]}
    mid = rng.choice([m for m in (F(1, 2), F(1), F(2), F(3)) if m < dur])
    v2 = rng.choice(VALS)
    # hold: v0 on [0, mid), v1 on [mid, dur); jump at the end: v2 only at t = dur
    return {'k': 'table', 'ch': ch, 'e': [['0', v0, 'hold'], [str(mid), v0, 'hold'], [str(mid), v1, 'hold'],
                                          [str(dur), v1, 'hold']] if rng.random() < 0.5 else
            [['0', v0, 'hold'], [str(mid), v1, 'linear' if mid in (F(1, 2), 1, 2) else 'hold'], [str(dur), v2, 'hold']]}


def g_atom(rng, chans, dur=None):
    d = dur if dur is not None else rng.choice([1, 2, 2, 3, 4, 4, 5, 6, 8, '3/2', '1/2'])
    if len(chans) == 1:
        return g_table1(rng, chans[0], d)
    parts = [g_table1(rng, chans[0], d)]
    for c in chans[1:]:
        parts.append(g_table1(rng, c, d) if rng.random() < 0.5 else g_const(rng, [c], d))
    return {'k': 'par', 'l': parts}


def g_leafwf(rng, chans, allow_composite=True):
    r = rng.random()
    if r < 0.35:
        return g_const(rng, chans)
    if r < 0.75 or not allow_composite:
        return g_atom(rng, chans)
    if r < 0.9:
        n = rng.randint(2, 3)
        if rng.random() < 0.3:      # equal constants: from_sequence collapses them
            c = g_const(rng, chans)
            return {'k': 'seq', 'l': [dict(c, d=str(rng.choice([1, 2, 3]))) for _ in range(n)]}
        return {'k': 'seq', 'l': [g_leafwf(rng, chans, False) for _ in range(n)]}
    return {'k': 'rep', 'b': g_leafwf(rng, chans, False), 'n': rng.randint(2, 3)}


def g_tree_rec(rng, chans, depth, opts):
    rep = rng.choice([1, 1, 1, 2, 2, 3, 4])
    if opts.get('zero') and rng.random() < 0.12:
        rep = 0
    meas = []
    if opts.get('meas') and rng.random() < 0.25:
        meas = [opts['mctr'][0]]
        opts['mctr'][0] += 1
        if rng.random() < 0.3:
            meas.append(opts['mctr'][0])
            opts['mctr'][0] += 1
    vol = bool(opts.get('vol')) and rep >= 1 and rng.random() < 0.3
    if depth <= 0 or (rng.random() < 0.3 and not opts.get('top')):
        if opts.get('empty') and rng.random() < 0.2:
            return {'r': rep, 'w': None, 'm': meas, 'c': []}
        return {'r': rep, 'w': g_leafwf(rng, chans, opts.get('composite', True)), 'm': meas, 'c': [], 'v': vol}
    n = rng.choice([1, 1, 2, 2, 3, 4])
    opts = dict(opts, top=False)
    ch = [g_tree_rec(rng, chans, depth - 1, opts) for _ in range(n)]
    if opts.get('empty') and rng.random() < 0.1:
        ch = []
        return {'r': rep, 'w': None, 'm': meas, 'c': []}
    return {'r': rep, 'w': None, 'm': meas, 'c': ch, 'v': vol}


def _json_wf_dur(w):
    k = w['k']
    if k in ('const', 'ramp'):
        return F(w['d'])
    if k in ('table', 'dtable'):
        return F(w['e'][-1][0])
    if k == 'par':
        return _json_wf_dur(w['l'][0])
    if k == 'seq':
        return sum((_json_wf_dur(x) for x in w['l']), F(0))
    if k == 'rep':
        return _json_wf_dur(w['b']) * w['n']
    if k in ('rev', 'rev_raw', 'subset', 'functor', 'transf'):
        return _json_wf_dur(w['b'])
    if k == 'rep_raw':
        return _json_wf_dur(w['b']) * w['n']
    if k == 'arith':
        return _json_wf_dur(w['l'])
    if k == 'func':
        return F(w['d'])
    raise ValueError(k)


def _json_dur(t):
    if not t['c']:
        return (F(0) if t['w'] is None else _json_wf_dur(t['w'])) * t['r']
    return sum((_json_dur(c) for c in t['c']), F(0)) * t['r']


def unrolled_leaves(t):
    if not t['c']:
        return max(t['r'], 1)
    return max(t['r'], 1) * sum(unrolled_leaves(c) for c in t['c'])


def gen_tree(rng, chans, maxdepth, **opts):
    opts = dict(opts)
    opts['mctr'] = [0]
    for _ in range(50):
        opts['mctr'][0] = 0
        opts['top'] = rng.random() < 0.85
        t = g_tree_rec(rng, chans, rng.randint(1, maxdepth) if opts['top'] else 0, opts)
        if unrolled_leaves(t) <= 150:
            return t
    return {'r': 1, 'w': g_leafwf(rng, chans), 'm': [], 'c': []}


def paths_of(t, pred=lambda n, p: True, path=()):
    out = [list(path)] if pred(t, path) else []
    for i, c in enumerate(t['c']):
        out.extend(paths_of(c, pred, path + (i,)))
    return out


def g_template(rng, chans, depth):
    r = rng.random()
    meas = [rng.randint(0, 5)] if rng.random() < 0.15 else []
    if depth <= 0 or r < 0.3:
        if rng.random() < 0.4:
            d = rng.choice([1, 2, 3, 4])
            return {'k': 'const', 'd': str(d), 'v': {c: rng.choice(VALS) for c in chans}, 'm': meas}
        d = rng.choice([1, 2, 4])
        return {'k': 'table', 'e': {c: g_table1(rng, c, d)['e'] for c in chans}, 'm': meas}
    if r < 0.6:
        return {'k': 'seq', 'l': [g_template(rng, chans, depth - 1) for _ in range(rng.randint(2, 3))], 'm': meas}
    if r < 0.8:
        return {'k': 'rep', 'b': g_template(rng, chans, depth - 1), 'n': rng.randint(2, 3), 'm': meas}
    return {'k': 'rev', 'b': g_template(rng, chans, depth - 1)}


TRIPLES = [(1, 1, '1'), (2, 2, '1'), (4, 4, '1'), (4, 2, '1'), (8, 4, '1'), (16, 16, '1'), (2, 1, '2'), (4, 4, '2'),
           (1, 1, '1/2'), (2, 2, '1/2'), (3, 1, '1'), (6, 3, '1'), (5, 5, '1'), (12, 4, '1'), (192, 16, '1'), (4, 8, '1')]


def gen_build(rng, tier, **opts):
    chans = rng.choice([['A'], ['A'], ['A', 'B']])
    r = rng.random()
    if r < 0.12 and not opts.get('empty') and not opts.get('zero'):
        return {'template': g_template(rng, chans, rng.randint(1, 3))}, None
    t = gen_tree(rng, chans, opts.pop('maxdepth', 4), **opts)
    b = {'tree': t, 'style': rng.choice(['ctor', 'ctor', 'ctor', 'append', 'append', 'append_td', 'append_td_read']),
         'read_dur': rng.random() < 0.5}
    r2 = rng.random()
    if r2 < 0.15:                   # the same waveform OBJECT at several leaves
        t = share_leaves(rng, t)
        b['tree'], b['share'] = t, True
    elif r2 < 0.25:                 # caches populated only below some nodes
        b['read_dur'] = rng.sample(paths_of(t), min(len(paths_of(t)), rng.randint(1, 2)))
    if rng.random() < 0.1:
        declare_empty(rng, t)
    if rng.random() < 0.12 and not opts.get('empty'):
        inner = paths_of(t, lambda n, p: len(n['c']) >= 1)
        if inner:
            b['reverse'] = [rng.choice(inner)]
            b['tree'] = _strip_composite(t)
            t = _reversed_at(b['tree'], b['reverse'][0])
    return b, t


def share_leaves(rng, t):
    """every leaf plays one of at most two waveform recipes of the tree (built with build['share']: one object each)"""
    pool = []

    def collect(n):
        if not n['c'] and n['w'] is not None:
            pool.append(n['w'])
        for c in n['c']:
            collect(c)
    collect(t)
    if not pool:
        return t
    pick = rng.sample(pool, min(len(pool), rng.choice([1, 1, 2])))

    def rec(n):
        if not n['c'] and n['w'] is not None:
            return dict(n, w=rng.choice(pick))
        return dict(n, c=[rec(c) for c in n['c']])
    return rec(t)


def declare_empty(rng, t):
    """measurements=[] (declared as empty) instead of None (not declared) at some nodes without windows"""
    if not t['m'] and rng.random() < 0.5:
        t['me'] = True
    for c in t['c']:
        declare_empty(rng, c)


def _chain(rng, chans, k, rep=1):
    """balanced sub program of depth k (k = 0: a leaf)"""
    if k == 0:
        return {'r': rep, 'w': g_leafwf(rng, chans, False), 'm': [], 'c': []}
    n = rng.choice([1, 1, 2])
    return {'r': rep, 'w': None, 'm': [], 'c': [_chain(rng, chans, k - 1, rng.choice([1, 1, 2])) for _ in range(n)]}


def _unbalanced(rng, chans, k, variant):
    """sub program whose depth is exactly k >= 2 and which is NOT balanced: a (repeated) block next to something
    shallower.  variant 0: block + bare waveform, 1: bare waveform + block, 2: block + shallower block,
    3: the imbalance sits one level further down"""
    blk = _chain(rng, chans, k - 1, rng.choice([1, 2, 3]))
    if variant == 0:
        ch = [blk, _chain(rng, chans, 0, rng.choice([1, 2]))]
    elif variant == 1:
        ch = [_chain(rng, chans, 0, rng.choice([1, 2])), blk]
    elif variant == 2 or k < 3:
        ch = [blk, _chain(rng, chans, max(k - 2, 0) if k >= 3 else 0, rng.choice([1, 2])), _chain(rng, chans, 0)]
    else:
        ch = [_unbalanced(rng, chans, k - 1, 0), _chain(rng, chans, k - 1)]
    return {'r': rng.choice([1, 1, 2]), 'w': None, 'm': [], 'c': ch}


def gen_unbalanced_at_depth(rng, tier):
    """flatten_and_balance(d), d >= 3, on programs with a sub program that already has depth d - 1 but is unbalanced
    (accepting it because 'the depth is right' breaks the postcondition: seed C06-4's class), directly below the root,
    below a deeper unbalanced node (reached through the recursive call with d - 1), and below an inner path"""
    cases = []
    chans = ['A']
    for d in (3, 4, 5):
        for variant in (0, 1, 2, 3):
            for place in ('root', 'recursive', 'inner'):
                for read in ((False, True) if tier == 'quick' else (False, True, [[0]], [[]])):
                    sub = _unbalanced(rng, chans, d - 1, variant)
                    sibs = [_chain(rng, chans, rng.choice([0, d - 1, d - 2]), rng.choice([1, 2]))
                            for _ in range(rng.randint(0, 2))]
                    kids = sibs[:1] + [sub] + sibs[1:]
                    if place == 'root':
                        t, path, dd = {'r': 1, 'w': None, 'm': [], 'c': kids}, [], d
                    elif place == 'recursive':
                        # target d + 1: the root's child `mid` (depth d, unbalanced) is handed to the recursive call with
                        # target d, which meets the unbalanced block of depth d - 1
                        mid = {'r': rng.choice([1, 2]), 'w': None, 'm': [], 'c': kids}
                        t, path, dd = {'r': 1, 'w': None, 'm': [], 'c': [mid, _chain(rng, chans, 0)]}, [], d + 1
                    else:
                        mid = {'r': rng.choice([1, 2]), 'w': None, 'm': [], 'c': kids}
                        t, path, dd = {'r': 1, 'w': None, 'm': [], 'c': [_chain(rng, chans, 1), mid]}, [1], d
                    if unrolled_leaves(t) > 150:
                        continue
                    cases.append({'kind': 'rw', 'build': {'tree': t, 'style': rng.choice(['ctor', 'append']),
                                                          'read_dur': read}, 'path': path, 'op': ['flatten', dd]})
    return cases


def gen_to_waveform_shapes(rng, tier):
    """Deterministic family for the two decisions of to_waveform / SequenceWaveform.from_sequence that the random trees
    reach only by luck (seeds C06-5, C06-6):
    A. single-child chains, i.e. what encapsulate() builds: outer count r0 around ONE child with count r1 (leaf, or an
       inner node with one or two children), alone and next to a sibling; the combined count r0 * r1 must come out for
       every (r0, r1) in {1,2} x {1,2,3}, in particular r0 = 1 < r1;
    B. the constant fold of from_sequence: first part constant / not constant, a later plain part with the same / other /
       no constant, and a NESTED part (sub loop with count 1 -> SequenceWaveform, count 2 -> RepetitionWaveform, wrapped
       once more, itself all-constant with the same values) in both orders: the result may only be one ConstantWaveform
       when every part, nested ones included, is the same constant.
    Every shape as `to_waveform(program)` (kind twf), the merging ones again through make_compatible (the whole program
    shorter than the minimal length of its parts) and, for A, through encapsulate / flatten_and_balance first."""
    cases = []
    ch = ['A']

    def leaf(w, r=1):
        return {'r': r, 'w': w, 'm': [], 'c': []}

    def node(kids, r=1):
        return {'r': r, 'w': None, 'm': [], 'c': kids}

    def ramp(d=4):
        return g_table1(rng, 'A', d)

    def const(v, d=4):
        return {'k': 'const', 'd': str(d), 'v': {'A': v}}

    def twf(t):
        cases.append({'kind': 'twf', 'build': {'tree': t, 'style': 'ctor', 'read_dur': False}})

    def rw(t, path, op, prefix=None):
        c = {'kind': 'rw', 'build': {'tree': t, 'style': 'ctor', 'read_dur': False}, 'path': path, 'op': op}
        if prefix is not None:
            c['prefix'] = prefix
        cases.append(c)

    # A
    for r0 in (1, 2):
        for r1 in (1, 2, 3):
            for kind in ('ramp', 'const', 'inner1', 'inner2'):
                if kind == 'ramp':
                    child = leaf(ramp(), r1)
                elif kind == 'const':
                    child = leaf(const('1/2'), r1)
                elif kind == 'inner1':
                    child = node([leaf(ramp(), rng.choice([1, 2]))], r1)
                else:
                    child = node([leaf(ramp()), leaf(const('1'))], r1)
                chain = node([child], r0)
                twf(chain)
                twf(node([chain, leaf(ramp(2))], rng.choice([1, 2])))
                if kind in ('ramp', 'const') and r0 == 1:
                    # the shape as encapsulate() / flatten_and_balance make it from a repeated leaf, then merged
                    sub = node([leaf(ramp()), leaf(ramp())], 2)
                    t = node([leaf(child['w'], r1), sub])
                    total = int(_json_dur(t))
                    rw(t, [0], ['encapsulate'])
                    rw(t, [], ['flatten', 2])
                    rw(t, [], ['make_compat', total, total, '1'], prefix=[[[], ['flatten', 2], False]])
                    rw(t, [], ['make_compat', total, total, '1'], prefix=[[[0], ['encapsulate'], False]])
    # B
    v = '1/2'
    firsts = {'const': lambda: leaf(const(v, 8)), 'ramp': lambda: leaf(ramp(8))}
    plains = {'none': lambda: [], 'same': lambda: [leaf(const(v, 2))], 'other': lambda: [leaf(const('1', 2))]}
    nesteds = {
        'seq_ramps': lambda: node([leaf(ramp()), leaf(ramp())]),
        'seq_const_ramp': lambda: node([leaf(const(v)), leaf(ramp())]),
        'seq_same_consts': lambda: node([leaf(const(v)), leaf(const(v, 2))]),
        'seq_other_consts': lambda: node([leaf(const('1')), leaf(const('1', 2))]),
        'rep_ramps': lambda: node([leaf(ramp()), leaf(ramp())], 2),
        'wrapped': lambda: node([node([leaf(ramp()), leaf(const(v))])]),
        'rep_leaf': lambda: leaf(ramp(), 2),
    }
    # a first part that only BECOMES a ConstantWaveform when it is built: a table whose entries all have the same value,
    # a one-part sequence (from_sequence returns the part)
    firsts2 = {'const_table': lambda: leaf({'k': 'table', 'ch': 'A', 'e': [['0', v, 'hold'], ['8', v, 'hold']]}),
               'seq1_const': lambda: leaf({'k': 'seq', 'l': [const(v, 8)]}),
               'seq1_ramp': lambda: leaf({'k': 'seq', 'l': [ramp(8)]})}
    for fk, first in sorted(firsts2.items()):
        for nk, nested in sorted(nesteds.items()):
            t = node([first(), leaf(const(v, 2)), nested()])
            twf(t)
            if tier == 'thorough':
                total = int(_json_dur(t))
                rw(t, [], ['make_compat', total, total, '1'])
    # cleanup('remove_empty_loops') drops an empty leaf that declares measurements (DroppedMeasurementWarning): at the top,
    # below an inner node, as the only child (the parent becomes empty itself)
    for mg in (False, True):
        empty_m = {'r': rng.choice([1, 2]), 'w': None, 'm': [0], 'c': []}
        inner = node([dict(empty_m, m=[1]), leaf(ramp())], 2)
        only = node([dict(empty_m, m=[2])])
        t = node([leaf(const(v)), empty_m, inner, only])
        for path in ([], [2], [3]):
            rw(t, path, ['cleanup', True, mg])
    for fk, first in sorted(firsts.items()):
        for pk, plain in sorted(plains.items()):
            for nk, nested in sorted(nesteds.items()):
                for order in (0, 1, 2):
                    kids = [first()]
                    if order == 0:
                        kids += plain() + [nested()]
                    elif order == 1:
                        kids += [nested()] + plain()
                    else:
                        if pk == 'none':
                            continue
                        kids = [nested()] + kids + plain()          # the nested part first
                    t = node(kids, 1 if order != 1 else 2)
                    twf(t)
                    if fk == 'const' and order == 0 or tier == 'thorough':
                        total = int(_json_dur(t)) // t['r']
                        rw(t, [], ['make_compat', total, total, '1'])
    return cases


WRAPPED_KINDS = ['rep_raw_c', 'rep_raw_t', 'rev_raw_c', 'rev_raw_t', 'subset_c', 'subset_t', 'functor_c', 'functor_t',
                 'arith_cc', 'arith_tc', 'transf_c', 'transf_t', 'func']


def _wrapped_leaf(kind, d, v='1/2'):
    """single-channel ('A') leaf waveform of duration d (a power of two >= 2) of a class the random trees never build; `_c`:
    made of constants with value v (whether the WRAPPER answers constant_value_dict() differs per class), `_t`: a ramp"""
    const = lambda dur, val=v: {'k': 'const', 'd': str(dur), 'v': {'A': val}}
    ramp = lambda dur: {'k': 'table', 'ch': 'A', 'e': [['0', '0', 'hold'], [str(dur), '1', 'linear']]}
    both = lambda a: {'k': 'par', 'l': [a, {'k': 'const', 'd': a.get('d', str(d)), 'v': {'B': '-1'}}]}
    return {
        'rep_raw_c': lambda: {'k': 'rep_raw', 'b': const(F(d, 2)), 'n': 2},
        'rep_raw_t': lambda: {'k': 'rep_raw', 'b': ramp(F(d, 2)), 'n': 2},
        'rev_raw_c': lambda: {'k': 'rev_raw', 'b': const(d)},
        'rev_raw_t': lambda: {'k': 'rev_raw', 'b': ramp(d)},
        'subset_c': lambda: {'k': 'subset', 'b': both(const(d)), 'chs': ['A']},
        'subset_t': lambda: {'k': 'subset', 'b': both(ramp(d)), 'chs': ['A']},
        'functor_c': lambda: {'k': 'functor', 'b': const(d), 'f': {'A': 'neg'}},
        'functor_t': lambda: {'k': 'functor', 'b': ramp(d), 'f': {'A': 'neg'}},
        'arith_cc': lambda: {'k': 'arith', 'l': const(d), 'op': '-', 'r': const(d, '1/4')},
        'arith_tc': lambda: {'k': 'arith', 'l': ramp(d), 'op': '+', 'r': const(d)},
        'transf_c': lambda: {'k': 'transf', 'b': const(d), 's': {'A': '2'}},
        'transf_t': lambda: {'k': 'transf', 'b': ramp(d), 's': {'A': '1/2'}},
        'func': lambda: {'k': 'func', 'ch': 'A', 'd': str(d), 'a': '1/4', 'b0': '1'},
    }[kind]()


def gen_wrapped_leaves(rng, tier):
    """Round 5 (audit of the quantifier 'leaf waveform kinds'): Repetition / Reversed / Subset / Functor / Arithmetic /
    Transforming / FunctionWaveform OBJECTS as leaves (plain constructors).  Deterministic: every kind x the rewrites whose
    decisions read constant_value_dict() of a leaf (to_waveform's from_sequence fold next to an equal / another constant,
    make_compatible merging, roll_constant_waveforms) and two purely structural ones."""
    cases = []
    leaf = lambda w, r=1: {'r': r, 'w': w, 'm': [], 'c': []}
    node = lambda ch, r=1: {'r': r, 'w': None, 'm': [], 'c': ch}
    const = lambda dur, val: {'k': 'const', 'd': str(dur), 'v': {'A': val}}
    ramp = lambda dur: {'k': 'table', 'ch': 'A', 'e': [['0', '1', 'hold'], [str(dur), '0', 'linear']]}
    for kind in WRAPPED_KINDS:
        w4, w32 = _wrapped_leaf(kind, 4), _wrapped_leaf(kind, 32)
        twf = [node([leaf(w4, 3)]),
               node([leaf(const(4, '1/2')), leaf(w4)]), node([leaf(w4), leaf(const(4, '1/2'))], 2),
               node([leaf(const(2, '1/4')), leaf(w4), leaf(const(2, '1/4'))]),
               node([leaf(const(2, '-1/2')), leaf(w4, 2)]), node([leaf(const(2, '1')), leaf(w4)]),
               node([leaf(w4), node([leaf(ramp(4)), leaf(w4)], 2)])]
        for t in twf:
            cases.append({'kind': 'twf', 'build': {'tree': t, 'style': 'ctor', 'read_dur': False}})
            tot = int(_json_dur(t))           # one waveform for the whole program: every child is too short
            cases.append({'kind': 'rw', 'build': {'tree': t, 'style': 'ctor', 'read_dur': True}, 'path': [],
                          'op': ['make_compat', tot, tot, '1']})
        for mq, q in ((1, 1), (2, 4), (3, 2), (4, 1)):
            t = node([leaf(w32, 2), leaf(ramp(8)), node([leaf(w32)], 3)])
            cases.append({'kind': 'rw', 'build': {'tree': t, 'style': 'ctor', 'read_dur': mq % 2 == 0}, 'path': [],
                          'op': ['roll', mq, q, '1']})
        t = node([node([leaf(w4), leaf(ramp(4))], 2), leaf(w4, 2)], 2)
        cases.append({'kind': 'rw', 'build': {'tree': t, 'style': 'append', 'read_dur': True}, 'path': [], 'op': ['flatten', 1]})
        cases.append({'kind': 'rw', 'build': {'tree': t, 'style': 'ctor', 'read_dur': False}, 'path': [0],
                      'op': ['unroll_children']})
        cases.append({'kind': 'rw', 'build': {'tree': t, 'style': 'ctor', 'read_dur': True}, 'path': [],
                      'op': ['make_compat', 8, 4, '1']})
    return cases


CONST_LEVELS = [['0', '1'], ['0', '0', '1', '1'], ['0', '1', '0'], ['0', '-1/2', '-1/2'], ['1', '0'], ['0', '1', '2'],
                ['1', '1'], ['0', '0'], ['1', '2'], ['0', '1', '1', '0'], ['-1', '0', '-1'], ['0', '0', '0', '3/4']]


def gen_const_levels(rng, tier):
    """Round 6 (class of seed C06-9): programs whose leaves are constant LEVELS, first among them 0 V (as float 0.0, as
    the int 0, as -0.0), in the orders 0,x / 0,0,x,x / 0,x,0 / x,0 / 0,x,y / x,x / 0,0 / x,y ...; on one channel, next to
    a second channel that is constant throughout, as the second channel, and in a two-channel leaf whose other channel
    is a ramp (an opaque atom that answers constant_value per channel).  make_compatible / to_waveform turn exactly
    such runs into ONE SequenceWaveform / RepetitionWaveform leaf, which the drivers sample through get_sampled: its
    constant_value(channel) decides whether anything is sampled at all.  Deterministic (the same in every seed)."""
    cases = []
    leaf = lambda w, r=1: {'r': r, 'w': w, 'm': [], 'c': []}
    node = lambda ch, r=1: {'r': r, 'w': None, 'm': [], 'c': ch}
    ramp = lambda ch, dur: {'k': 'table', 'ch': ch, 'e': [['0', '1', 'hold'], [str(dur), '0', 'linear']]}

    def const(vals, zk, dur=4):
        w = {'k': 'const', 'd': str(dur), 'v': vals}
        if zk:
            w['zk'] = zk
        return w
    for pi, pat in enumerate(CONST_LEVELS):
        for zk in ([None, 'int', 'neg'] if pi < 4 else [None]):
            variants = [
                [const({'A': v}, zk) for v in pat],
                [const({'A': v, 'B': '1/2'}, zk) for v in pat],
                [const({'A': '-1/4', 'B': v}, zk) for v in pat],
                [{'k': 'par', 'l': [const({'A': v}, zk), ramp('B', 4)]} for v in pat],
            ]
            for vi, ws in enumerate(variants):
                tot = 4 * len(ws)
                b = lambda t, rd=False: {'tree': t, 'style': 'ctor', 'read_dur': rd}
                cases.append({'kind': 'cv', 'build': b(node([leaf(w) for w in ws], 2)), 'path': [], 'op': ['twf']})
                cases.append({'kind': 'cv', 'build': b(node([leaf(w) for w in ws], 3), True), 'path': [],
                              'op': ['make_compat', tot, tot, '1']})                       # merged leaf, count kept
                cases.append({'kind': 'cv', 'build': b(node([leaf(w) for w in ws], 3)), 'path': [],
                              'op': ['make_compat', 3 * tot, 3 * tot, '1']})               # repetition unrolled into the leaf
                inner = node([node([leaf(w) for w in ws], 2), leaf(dict(ws[-1], d=str(2 * tot)) if ws[-1]['k'] == 'const'
                                                                    else ws[-1], 1 if ws[-1]['k'] == 'const' else 2 * len(ws))])
                cases.append({'kind': 'cv', 'build': b(inner), 'path': [], 'op': ['make_compat', tot, tot, '1']})
                if vi < 2 and zk in (None, 'int'):
                    # the same programs through the ordinary streams (tree compared with Model.v, samples before / after)
                    cases.append({'kind': 'rw', 'build': b(node([leaf(w) for w in ws], 3), True), 'path': [],
                                  'op': ['make_compat', tot, tot, '1']})
                    cases.append({'kind': 'twf', 'build': b(node([leaf(w) for w in ws], 2))})
    return cases


def derive_cv(cases):
    """every 8th plain rewrite case that builds or keeps leaf waveforms and every 4th to_waveform case once more as a
    constant_value observation (kind cv)"""
    out = []
    k = 0
    for c in cases:
        if c.get('volatile') or c.get('prefix') or 'tree' not in c.get('build', {}):
            continue
        if c['kind'] == 'rw' and c['op'][0] in ('make_compat', 'roll', 'flatten', 'cleanup', 'unroll_children'):
            k += 1
            if k % 8 == 0:
                out.append({'kind': 'cv', 'build': c['build'], 'path': c['path'], 'op': c['op']})
        elif c['kind'] == 'twf':
            k += 1
            if k % 4 == 0:
                out.append({'kind': 'cv', 'build': c['build'], 'path': [], 'op': ['twf']})
    return out


def _reversed_at(t, path):
    """shape of the tree after reverse_inplace at `path` (used only to choose valid paths)"""
    def rev(n):
        return dict(n, c=[rev(c) for c in reversed(n['c'])])
    if not path:
        return rev(t)
    return dict(t, c=[_reversed_at(c, path[1:]) if i == path[0] else c for i, c in enumerate(t['c'])])


def _strip_composite(t):
    """reversed programs: only plain atoms/constants as leaves (reversal of composite waveforms is C08's subject)"""
    w = t['w']
    if w is not None and w['k'] in ('seq', 'rep'):
        w = w['l'][0] if w['k'] == 'seq' else w['b']
    return {'r': t['r'], 'w': w, 'm': t['m'], 'c': [_strip_composite(c) for c in t['c']]}


def gen_cases(rng, tier, ctx):
    mult = {'quick': 1, 'thorough': 8}[tier]      # round 5: 16 -> 8, the full run has to fit ~25 min
    cases = []

    def add(kind, build, path=None, op=None):
        c = {'kind': kind, 'build': build}
        if kind == 'rw':
            c['path'], c['op'] = path, op
        cases.append(c)

    def some_path(t, pred, p_root=0.5):
        if t is None:
            return []
        ps = paths_of(t, pred)
        if not ps:
            return None
        if [] in ps and rng.random() < p_root:
            return []
        return rng.choice(ps)

    # --- flatten_and_balance -----------------------------------------------------------------------------------------
    for _ in range(290 * mult):
        b, t = gen_build(rng, tier, meas=rng.random() < 0.4, maxdepth=5 if rng.random() < 0.3 else 4)
        d = rng.choice([0, 1, 1, 2, 2, 3, 4, -1, 5] if rng.random() < 0.8 else [1, 2])
        path = some_path(t, lambda n, p: len(n['c']) >= 1, 0.75) if t else []
        add('rw', b, path or [], ['flatten', d])
    # --- cleanup -----------------------------------------------------------------------------------------------------
    for _ in range(160 * mult):
        b, t = gen_build(rng, tier, meas=rng.random() < 0.5, empty=rng.random() < 0.7)
        add('rw', b, some_path(t, lambda n, p: True, 0.8) or [], ['cleanup', rng.random() < 0.75, rng.random() < 0.75])
    # --- unroll / unroll_children / encapsulate / split / merge ------------------------------------------------------
    for _ in range(270 * mult):
        zero = rng.random() < 0.15
        b, t = gen_build(rng, tier, meas=rng.random() < 0.4, zero=zero)
        if t is None:
            add('rw', b, [], rng.choice([['encapsulate'], ['unroll_children'], ['split', None]]))
            continue
        k = rng.choice(['unroll', 'unroll', 'unroll_children', 'encapsulate', 'split', 'split', 'merge'])
        if k == 'unroll':
            p = some_path(t, lambda n, p: len(p) >= 1 and (len(n['c']) >= 1 or rng.random() < 0.05), 0)
            if p:
                add('rw', b, p, ['unroll'])
        elif k == 'unroll_children':
            p = some_path(t, lambda n, p: len(n['c']) >= 1 or rng.random() < 0.05)
            if p is not None:
                add('rw', b, p, ['unroll_children'])
        elif k == 'encapsulate':
            add('rw', b, some_path(t, lambda n, p: True), ['encapsulate'])
        elif k == 'split':
            p = some_path(t, lambda n, p: len(n['c']) >= 1)
            if p is not None:
                n = len(_node_at(t, p)['c'])
                idx = None if rng.random() < 0.5 else rng.choice(list(range(n)) + [n, -1, -n])
                add('rw', b, p, ['split', idx])
        else:
            p = some_path(t, lambda n, p: len(n['c']) == 1 or rng.random() < 0.05)
            if p is not None:
                add('rw', b, p, ['merge'])
    # --- make_compatible ---------------------------------------------------------------------------------------------
    for _ in range(200 * mult):
        b, t = gen_build(rng, tier, meas=rng.random() < 0.2)
        ml, q, sr = rng.choice(TRIPLES)
        if t is not None and rng.random() < 0.5:
            # boundary triples: minimum length / quantum taken from the sample count of one run of some node
            n = _node_at(t, rng.choice(paths_of(t)))
            srf = F(rng.choice(['1', '1', '2', '1/2']))
            run = (_json_dur(n) / max(n['r'], 1) if rng.random() < 0.7 else _json_dur(n)) * srf
            if run.denominator == 1 and run > 0:
                run = int(run)
                divs = [k for k in range(1, run + 1) if run % k == 0]
                ml, q, sr = rng.choice([run, run, run + 1, max(run - 1, 1), 1]), rng.choice(divs + [run + 1]), str(srf)
        if rng.random() < 0.03:
            q = 0
        add('rw', b, some_path(t, lambda n, p: True, 0.85) or [], ['make_compat', ml, q, sr])
    # --- roll_constant_waveforms -------------------------------------------------------------------------------------
    for _ in range(160 * mult):
        chans = rng.choice([['A'], ['A', 'B']])
        opts = {'mctr': [0], 'meas': rng.random() < 0.2, 'composite': rng.random() < 0.3}
        t = gen_tree(rng, chans, 3, **opts)
        q = rng.choice([1, 2, 4, 16])
        srq = rng.choice(['1', '1', '2', '1/2'])

        def long_consts(n):
            if n['w'] is not None and n['w']['k'] == 'const' and rng.random() < 0.7:
                quanta = rng.choice([2, 3, 4, 5, 6, 7, 8, 9, 12, 15, 16, 25, 35, 49])
                extra = rng.choice([0, 0, 0, 1, q // 2]) if q > 1 else 0
                n['w']['d'] = str(F(quanta * q + extra) / F(srq))
            for c in n['c']:
                long_consts(c)
        long_consts(t)
        if rng.random() < 0.06 and t['c']:
            t['w'] = g_const(rng, chans, 64)      # invalid but constructible: a loop with children AND a waveform
        b = {'tree': t, 'style': rng.choice(['ctor', 'append']), 'read_dur': rng.random() < 0.5}
        add('rw', b, [], ['roll', rng.choice([1, 1, 2, 3, 4]), q, srq])
    # --- several rewrites in a row on the same objects (caches / indices left by one rewrite meet the next) ----------
    def rnd_step():
        k = rng.choice(['flatten', 'flatten', 'cleanup', 'encapsulate', 'unroll_children', 'split', 'roll', 'make_compat',
                        'unroll', 'merge'])
        path = rng.choice([[], [], [], [0], [1], [0, 0], [rng.randint(0, 2)]])
        if k == 'flatten':
            return [path, ['flatten', rng.choice([0, 1, 2, 3])]]
        if k == 'cleanup':
            return [path, ['cleanup', rng.random() < 0.8, rng.random() < 0.8]]
        if k == 'split':
            return [path, ['split', rng.choice([None, None, 0, 1, -1])]]
        if k == 'roll':
            return [path, ['roll', rng.choice([1, 2]), rng.choice([1, 2, 4]), rng.choice(['1', '2', '1/2'])]]
        if k == 'make_compat':
            ml, q, sr = rng.choice(TRIPLES[:10])
            return [path, ['make_compat', ml, q, sr]]
        if k == 'unroll':
            return [path or [0], ['unroll']]
        return [path, [k]]
    for _ in range(190 * mult):
        b, t = gen_build(rng, tier, meas=rng.random() < 0.3)
        steps = [rnd_step() + [rng.random() < 0.5] for _ in range(rng.randint(1, 3))]
        lp, lo = rnd_step()
        cases.append({'kind': 'rw', 'build': b, 'prefix': steps, 'path': lp, 'op': lo})
    # --- the same rewrite twice on the same objects (idempotence is not required, preservation is) -------------------
    for _ in range(70 * mult):
        b, t = gen_build(rng, tier, meas=rng.random() < 0.3)
        st = rnd_step()
        if t is not None and rng.random() < 0.7:
            ps = paths_of(t, lambda n, p: len(n['c']) >= 1)
            if ps:
                st[0] = rng.choice(ps) if st[1][0] != 'unroll' else (rng.choice([q for q in ps if q] or [[0]]))
        cases.append({'kind': 'rw', 'build': b, 'prefix': [[st[0], st[1], rng.random() < 0.5]], 'path': st[0], 'op': st[1]})
    # --- the same program and rewrite with the duration caches populated nowhere / everywhere / only below the target /
    #     only at the root's other children (seed C06-3's class: a rewrite that is only right on fresh caches) -----------
    for _ in range(30 * mult):
        b, t = gen_build(rng, tier, meas=rng.random() < 0.2)
        if t is None:
            continue
        st = rnd_step()
        ps = paths_of(t, lambda n, p: len(n['c']) >= 1)
        if ps and rng.random() < 0.8:
            st[0] = rng.choice(ps) if st[1][0] != 'unroll' else (rng.choice([q for q in ps if q] or [[0]]))
        if st[1][0] == 'flatten' and rng.random() < 0.5:
            st[0] = []
        try:
            _node_at(t, st[0])
        except IndexError:
            if st[1][0] == 'unroll':
                continue
            st[0] = []
        if st[1][0] == 'unroll' and not st[0]:
            continue
        others = [[i] for i in range(len(t['c'])) if [i] != st[0][:1]]
        for read in (False, True, [st[0]], others or [[]]):
            cases.append({'kind': 'rw', 'build': dict(b, read_dur=read), 'path': st[0], 'op': st[1]})
    # directed: encapsulate / unroll_children / split / merge of a repeated inner node, then a sibling is rewritten
    for _ in range(16 * mult):
        chans = ['A']
        a = _chain(rng, chans, rng.choice([0, 1]), rng.choice([2, 3, 4]))
        bsub = {'r': rng.choice([1, 2]), 'w': None, 'm': [], 'c': [_chain(rng, chans, 1, rng.choice([1, 2, 3]))]}
        t = {'r': rng.choice([1, 2]), 'w': None, 'm': [], 'c': [a, bsub] if rng.random() < 0.5 else [bsub, a]}
        ia = t['c'].index(a)
        first = rng.choice([[[ia], ['encapsulate']], [[ia], ['encapsulate']], [[1 - ia], ['unroll_children']],
                            [[1 - ia], ['split', None]], [[1 - ia], ['merge']]])
        last = rng.choice([[[1 - ia], ['unroll_children']], [[1 - ia], ['merge']], [[], ['flatten', 2]], [[], ['flatten', 3]],
                           [[ia], ['encapsulate']], [[], ['cleanup', True, True]]])
        for read in (False, True):
            cases.append({'kind': 'rw', 'build': {'tree': t, 'style': 'ctor', 'read_dur': read},
                          'prefix': [first + [False]], 'path': last[0], 'op': last[1]})
    # --- flatten_and_balance to depth >= 3 over sub programs that have the requested depth but are unbalanced -------
    cases.extend(gen_unbalanced_at_depth(rng, tier))
    # --- volatile repetition counts (Model_vol.v) ---------------------------------------------------------------------
    for _ in range(220 * mult):
        chans = rng.choice([['A'], ['A', 'B']])
        t = gen_tree(rng, chans, 4, vol=True, meas=rng.random() < 0.5)
        b = {'tree': t, 'style': rng.choice(['ctor', 'append']), 'read_dur': rng.random() < 0.5,
             'vscope': rng.random() < 0.85}
        lp, lo = rnd_step()
        if rng.random() < 0.6:
            lp = some_path(t, lambda n, p: len(n['c']) >= 1, 0.5) or []
            lo = rng.choice([['flatten', rng.choice([0, 1, 2, 3])], ['flatten', 1], ['cleanup', True, True],
                              ['cleanup', False, True], ['merge'], ['merge'], ['split', None]])
        cases.append({'kind': 'rw', 'build': b, 'prefix': [rnd_step() + [False] for _ in range(rng.randint(0, 2))],
                      'path': lp, 'op': lo, 'volatile': True})
    # directed: split preference (fixed before volatile, rightmost of each kind) and merging below a measured parent
    for _ in range(40 * mult):
        chans = ['A']
        kids = []
        for _k in range(rng.randint(2, 4)):
            r = rng.choice([1, 2, 2, 3])
            kids.append({'r': r, 'w': g_leafwf(rng, chans, False), 'm': [], 'c': [], 'v': rng.random() < 0.5})
        t = {'r': rng.choice([1, 2]), 'w': None, 'm': [], 'c': kids, 'v': rng.random() < 0.3}
        cases.append({'kind': 'rw', 'build': {'tree': t, 'style': 'ctor', 'read_dur': False, 'vscope': True}, 'prefix': [],
                      'path': [], 'op': ['split', None], 'volatile': True})
    for _ in range(30 * mult):
        chans = ['A']
        leaf = {'r': rng.choice([1, 2]), 'w': g_leafwf(rng, chans, False), 'm': [], 'c': [], 'v': rng.random() < 0.5}
        mid = {'r': rng.choice([1, 1, 2]), 'w': None, 'm': [1] if rng.random() < 0.3 else [], 'c': [leaf],
               'v': rng.random() < 0.6}
        top = {'r': rng.choice([1, 2]), 'w': None, 'm': [0] if rng.random() < 0.7 else [], 'c': [mid], 'v': rng.random() < 0.3}
        root = {'r': 1, 'w': None, 'm': [], 'c': [top, dict(leaf, v=False)], 'v': False}
        cases.append({'kind': 'rw', 'build': {'tree': root, 'style': 'ctor', 'read_dur': False, 'vscope': True},
                      'prefix': [], 'path': rng.choice([[0], [0], []]),
                      'op': rng.choice([['merge'], ['cleanup', True, True], ['flatten', 1], ['flatten', 2]]), 'volatile': True})
    # directed: make_compatible / roll_constant_waveforms on volatile programs (Model_vol.v): a volatile node whose body is
    # merged and stays repeated (definition kept), one that has to be unrolled (frozen), a volatile leaf that is too
    # short, a volatile count below a merged node (frozen; since /repo 57d5a3e with a VolatileModificationWarning), volatile
    # constant leaves that are rolled (count multiplied, expression scaled)
    for _ in range(60 * mult):
        chans = ['A']
        q = rng.choice([1, 2, 4])
        a, b2 = rng.choice([1, 2, 3]) * q, rng.choice([1, 2, 3]) * q
        if rng.random() < 0.3:
            a += rng.choice([1, q - 1]) if q > 1 else 0
        leafa = {'r': rng.choice([1, 2, 3]), 'w': g_atom(rng, chans, a), 'm': [], 'c': [], 'v': rng.random() < 0.4}
        leafb = {'r': rng.choice([1, 1, 2]), 'w': g_atom(rng, chans, b2) if rng.random() < 0.6 else g_const(rng, chans, b2),
                 'm': [], 'c': [], 'v': rng.random() < 0.3}
        inner = {'r': rng.choice([1, 2, 3]), 'w': None, 'm': [], 'c': [leafa, leafb], 'v': rng.random() < 0.6}
        kids = [inner] + ([{'r': 1, 'w': g_atom(rng, chans, rng.choice([2, 4, 8]) * q), 'm': [], 'c': [], 'v': False}]
                          if rng.random() < 0.6 else [])
        rng.shuffle(kids)
        root = {'r': rng.choice([1, 1, 2]), 'w': None, 'm': [], 'c': kids, 'v': rng.random() < 0.25}
        body = a * leafa['r'] + b2 * leafb['r']
        ml = rng.choice([body, body, body + 1, max(body - 1, 1), a + 1, 2 * body, 1, q])
        cases.append({'kind': 'rw', 'build': {'tree': root, 'style': 'ctor', 'read_dur': rng.random() < 0.5, 'vscope': True},
                      'prefix': [], 'path': rng.choice([[], [], [kids.index(inner)]]), 'op': ['make_compat', ml, q, '1'],
                      'volatile': True})
    for _ in range(30 * mult):
        chans = rng.choice([['A'], ['A', 'B']])
        q = rng.choice([1, 2, 4, 16])
        kids = []
        for _k in range(rng.randint(1, 3)):
            quanta = rng.choice([2, 4, 6, 9, 12, 15, 16, 25, 35])
            w = g_const(rng, chans, quanta * q) if rng.random() < 0.8 else g_atom(rng, chans, 4)
            kids.append({'r': rng.choice([1, 2, 3]), 'w': w, 'm': [], 'c': [], 'v': rng.random() < 0.6})
        root = {'r': rng.choice([1, 2]), 'w': None, 'm': [], 'c': kids, 'v': rng.random() < 0.3}
        cases.append({'kind': 'rw', 'build': {'tree': root, 'style': 'ctor', 'read_dur': rng.random() < 0.5, 'vscope': True},
                      'prefix': [], 'path': [], 'op': ['roll', rng.choice([1, 2, 3]), q, '1'], 'volatile': True})
    # --- recorded parent_index (Model_idx.v): unroll / unroll_children / encapsulate / split, some with a broken invariant
    for _ in range(150 * mult):
        b, t = gen_build(rng, tier, meas=rng.random() < 0.2, zero=rng.random() < 0.1)
        if t is None or 'reverse' in b:
            continue
        k = rng.choice(['unroll', 'unroll', 'unroll', 'unroll_children', 'encapsulate', 'split', 'split'])
        if k == 'unroll':
            p = some_path(t, lambda n, p: len(p) >= 1 and (len(n['c']) >= 1 or rng.random() < 0.1), 0)
            op = ['unroll']
        elif k == 'split':
            p = some_path(t, lambda n, p: len(n['c']) >= 1)
            op = ['split', None if rng.random() < 0.5 or p is None else
                  rng.choice(list(range(len(_node_at(t, p)['c']))) + [-1, len(_node_at(t, p)['c'])])]
        else:
            p = some_path(t, lambda n, p: len(n['c']) >= 1 or rng.random() < 0.1)
            op = [k]
        if not p and k == 'unroll' or p is None:
            continue
        c = {'kind': 'idx', 'build': dict(b, read_dur=False), 'path': p, 'op': op}
        if rng.random() < 0.25:
            two = paths_of(t, lambda n, q: len(n['c']) >= 2)
            near = [q for q in two if q == p[:-1]] if k == 'unroll' else []
            if two:
                c['poke'] = rng.choice(near) if near and rng.random() < 0.7 else rng.choice(two)
        cases.append(c)
    # --- decimal durations (inexact floating point; tolerance 2^-30) ---------------------------------------------------
    cases.extend(gen_dec(rng, tier))
    # --- to_waveform -------------------------------------------------------------------------------------------------
    for _ in range(110 * mult):
        b, t = gen_build(rng, tier, meas=False)
        add('twf', b)
    cases.extend(gen_to_waveform_shapes(rng, tier))
    cases.extend(gen_wrapped_leaves(rng, tier))
    # --- constant_value / get_sampled short cut (round 6) ------------------------------------------------------------------
    cases.extend(derive_cv(cases))
    cases.extend(gen_const_levels(rng, tier))
    # --- smallest_factor_ge ------------------------------------------------------------------------------------------
    ns = range(1, 61) if tier == 'quick' else range(1, 401)
    for n in ns:
        for m in ([1, 2, 3, 5, 7, n] if tier == 'quick' else range(1, min(n, 40) + 1)):
            if m <= n and (tier == 'thorough' or rng.random() < 0.5):
                cases.append({'kind': 'sfg', 'n': n, 'm': m})
    cases.append({'kind': 'sfg', 'n': 3, 'm': 5})
    # --- exhaustive small scope (thorough): all trees with <= 4 nodes (30 % of those with 5) over 2 leaf kinds, counts {1,2,3}
    if tier == 'thorough':
        cases.extend(exhaustive_small(rng))
    return cases


DEC_VALS = ['0', '1', '-1', '1/2', '2', '-1/2', '3', '1/4']


def g_dec_table(rng, den, ks):
    """table with 3-4 entries at multiples of 1/den; the value jumps at every inner entry (a sample on an entry that is
    answered from the wrong segment differs grossly)"""
    ts = [F(0)]
    for _ in range(rng.choice([2, 2, 3])):
        ts.append(ts[-1] + F(rng.choice(ks), den))
    ent = [['0', rng.choice(DEC_VALS), 'hold']]
    for t in ts[1:]:
        prev = ent[-1][1]
        ip = rng.choice(['hold', 'hold', 'linear', 'jump'])
        v = rng.choice([x for x in DEC_VALS if x != prev])
        ent.append([str(t), v, ip])
    return {'k': 'dtable', 'ch': 'A', 'e': ent}


def g_dec_leafwf(rng, den, ks):
    d = F(rng.choice(ks), den)
    r = rng.random()
    if r < 0.25:
        return g_dec_table(rng, den, ks)
    if r < 0.87:
        v0, v1 = rng.sample(DEC_VALS, 2)          # the end value differs from the start value
        return {'k': 'ramp', 'ch': 'A', 'd': str(d), 'v0': v0, 'v1': v1}
    return {'k': 'const', 'd': str(d), 'v': {'A': rng.choice(DEC_VALS)}}


def g_dec_tree(rng, den, ks, depth, top=True):
    rep = rng.choice([1, 1, 1, 2, 3, 4, 4, 5, 7, 12])
    if depth <= 0 or (not top and rng.random() < 0.35):
        return {'r': rep, 'w': g_dec_leafwf(rng, den, ks), 'm': [], 'c': []}
    n = rng.choice([1, 1, 2, 2, 3])
    return {'r': rep, 'w': None, 'm': [0] if rng.random() < 0.1 else [],
            'c': [g_dec_tree(rng, den, ks, depth - 1, False) for _ in range(n)]}


def _dec_op(rng, t, sr):
    """a rewrite + a path it applies to"""
    inner = paths_of(t, lambda n, p: len(n['c']) >= 1)
    inner_nonroot = [p for p in inner if p]
    k = rng.choice(['unroll', 'unroll_children', 'unroll_children', 'split', 'split', 'flatten', 'flatten', 'flatten',
                    'merge', 'cleanup', 'encapsulate', 'make_compat'])
    if k == 'unroll' and inner_nonroot:
        return rng.choice(inner_nonroot), ['unroll']
    if k == 'unroll_children' and inner:
        return rng.choice(inner), ['unroll_children']
    if k == 'split' and inner:
        p = rng.choice(inner)
        n = len(_node_at(t, p)['c'])
        return p, ['split', None if rng.random() < 0.6 else rng.choice(list(range(n)) + [-1])]
    if k == 'merge':
        ps = paths_of(t, lambda n, p: len(n['c']) == 1)
        if ps:
            return rng.choice(ps), ['merge']
    if k == 'cleanup':
        return [], ['cleanup', True, True]
    if k == 'encapsulate':
        return rng.choice(paths_of(t)), ['encapsulate']
    if k == 'make_compat':
        run = _json_dur(t) * sr
        q = rng.choice([d for d in range(1, 13) if run % d == 0])
        return [], ['make_compat', rng.choice([1, q, 2 * q, 3 * q]), q, str(sr)]
    return (rng.choice(inner) if inner and rng.random() < 0.3 else []), ['flatten', rng.choice([0, 1, 1, 2, 2, 3])]


def gen_dec(rng, tier):
    """programs whose leaf durations are k/10, k/5, k/3, k/7 ... time units; the sample rate is a multiple of the common
    denominator, so that every junction is a grid point"""
    cases = []
    fams = [(10, [1, 1, 2, 3, 7, 7, 11, 13]), (5, [1, 2, 3, 4, 6]), (3, [1, 1, 2, 4, 5]), (10, [1, 3, 7]), (7, [1, 2, 3]),
            (6, [1, 5]), (15, [1, 2, 7]), (100, [1, 7, 33])]

    def add(t, sr, path, op, style='ctor'):
        if unrolled_leaves(t) <= 120 and 0 < _json_dur(t) * sr <= 400:
            b = {'tree': t, 'style': style, 'read_dur': rng.choice([False, False, True, [path]])}
            if rng.random() < 0.3:
                b['share'] = True       # equal leaf recipes (the directed shapes: all of them) are ONE waveform object
            cases.append({'kind': 'dec', 'build': b, 'sr': str(sr), 'path': path, 'op': op})
    # the two shapes in which a repetition meets a copy of its body, x every rewrite that unrolls the repetition
    dirs = [(F(1, 10), 10), (F(7, 10), 10), (F(3, 10), 10), (F(1, 5), 5), (F(11, 10), 10), (F(1, 3), 3), (F(1, 10), 20),
            (F(2, 3), 3), (F(1, 7), 7), (F(1, 100), 100)]
    reps = (2, 4, 7, 12)
    for d, sr in (dirs if tier == 'thorough' else rng.sample(dirs, 5)):
        for n in (reps if tier == 'thorough' else rng.sample(reps, 2) + [12]):
            v0, v1 = rng.sample(DEC_VALS, 2)
            body = {'k': 'ramp', 'ch': 'A', 'd': str(d), 'v0': v0, 'v1': v1}
            leaf = lambda r=1: {'r': r, 'w': body, 'm': [], 'c': []}
            node = lambda c, r=1: {'r': r, 'w': None, 'm': [], 'c': c}
            node_rep = node([node([leaf()], n), node([leaf()])])
            leaf_rep = node([node([leaf(n)]), node([leaf()])])
            add(node_rep, sr, [0], ['unroll'])
            add(node_rep, sr, [0], ['unroll_children'])
            add(leaf_rep, sr, [0], ['split', None])
            add(leaf_rep, sr, [], ['flatten', 1])
            add(node([leaf(n)]), sr, [], ['unroll_children'])
            add(node([leaf(n), leaf(2)]), sr, [], ['split', 0])
    for _ in range({'quick': 140, 'thorough': 1200}[tier]):
        den, ks = rng.choice(fams)
        t = g_dec_tree(rng, den, ks, rng.randint(1, 3))
        sr = F(den * rng.choice([1, 1, 2, 3]))
        path, op = _dec_op(rng, t, sr)
        add(t, sr, path, op, rng.choice(['ctor', 'append']))
    return cases


def extra_evidence(ctx):
    return {'inexact_cases': _STATS['inexact_cases'], 'inexact_samples_compared': _STATS['inexact_samples'],
            'inexact_tolerance_abs': '2^-30',
            'inexact_known_finding_cases': _STATS['inexact_known_finding_cases'],
            'inexact_note': 'decimal stream (kind dec): leaf durations k/10, k/5, k/3 ...; samples are binary64 results '
                            'compared with the exact rational model under the absolute tolerance; all other cases are '
                            'compared exactly'}


def _shapes(n):
    """all ordered trees with n nodes, as nested lists of children"""
    if n == 1:
        return [[]]
    out = []
    for first in range(1, n):
        for a in _shapes(first):
            for rest in _forest(n - 1 - first):
                out.append([a] + rest)
    return out


def _forest(n):
    if n == 0:
        return [[]]
    out = []
    for first in range(1, n + 1):
        for a in _shapes(first):
            for rest in _forest(n - first):
                out.append([a] + rest)
    return out


def exhaustive_small(rng):
    leafs = [{'k': 'const', 'd': '2', 'v': {'A': '1'}}, {'k': 'table', 'ch': 'A', 'e': [['0', '0', 'hold'], ['1', '1', 'linear']]}]
    cases = []
    for n in range(1, 7):
        for sh in _shapes(n):
            nodes = []

            def count(s):
                nodes.append(s)
                for c in s:
                    count(c)
            count(sh)
            k = len(nodes)
            for reps in itertools.product([1, 2, 3] if k <= 5 else [1, 2], repeat=k):
                if rng.random() > (1.0 if k <= 4 else 0.3 if k == 5 else 0.25):
                    continue
                it = iter(range(k))

                def mk(s):
                    i = next(it)
                    return {'r': reps[i], 'w': None if s else leafs[(i + reps[i]) % 2], 'm': [], 'c': [mk(c) for c in s]}
                t = mk(sh)
                b = {'tree': t, 'style': 'ctor'}
                if k == 6:      # six nodes: the smallest programs with an unbalanced sub program of depth 2 or 3 next to others
                    if _depth(t) >= 3:
                        for d in (3, 4):
                            cases.append({'kind': 'rw', 'build': dict(b, read_dur=bool(reps[0] % 2)), 'path': [],
                                          'op': ['flatten', d]})
                    continue
                for d in (0, 1, 2, 3) + ((4,) if _depth(t) >= 3 else ()):
                    cases.append({'kind': 'rw', 'build': b, 'path': [], 'op': ['flatten', d]})
                    if d >= 2 and _depth(t) >= 2:      # the same with every duration cache populated
                        cases.append({'kind': 'rw', 'build': dict(b, read_dur=True), 'path': [], 'op': ['flatten', d]})
                cases.append({'kind': 'rw', 'build': b, 'path': [], 'op': ['cleanup', True, True]})
                cases.append({'kind': 'rw', 'build': b, 'path': [], 'op': ['make_compat', 2, 2, '1']})
                cases.append({'kind': 'twf', 'build': b})
    return cases


# ---------------------------------------------------------------------------------------------------------------------
# shrinking a failing case (greedy; the oracle is the whole check: python part + both Coq checks on the single case)

def _still_fails(case, ctx, counter):
    import time
    if counter['n'] >= 40 or time.time() - counter['t0'] > 150:
        return None
    counter['n'] += 1
    obs = run_impl(case)
    if classify(case, obs) is not None:      # shrinking must not drift into a listed finding
        return None
    if py_spec(case, obs) is not None:
        return obs
    try:
        wd = os.path.join(ctx['workdir'], 'shrink')
        res = vlib.run_coq_cases(wd, CORR_IMPORTS, [CHECK_CORR, CHECK_SPEC], [to_coq(case, obs)], shard=SHARD, jobs=1)
    except Exception:
        return None
    return obs if (res[CHECK_CORR] or res[CHECK_SPEC]) else None


def _tree_variants(t, keep_path):
    """smaller trees: drop one child (not on keep_path), lower a count, simplify a leaf, drop measurements"""
    out = []

    def rec(n, path, rebuild):
        for i in range(len(n['c'])):
            if tuple(keep_path[:len(path) + 1]) != tuple(path + [i]) and len(n['c']) > 1:
                if not (keep_path[:len(path)] == path and len(keep_path) > len(path) and keep_path[len(path)] > i):
                    out.append(rebuild(dict(n, c=n['c'][:i] + n['c'][i + 1:])))
        if n['r'] > 1:
            out.append(rebuild(dict(n, r=n['r'] - 1)))
        if n['m']:
            out.append(rebuild(dict(n, m=[])))
        if n.get('v'):
            out.append(rebuild(dict(n, v=False)))
        if n['w'] is not None and n['w']['k'] in ('seq', 'rep', 'par'):
            inner = n['w']['l'][0] if n['w']['k'] != 'rep' else n['w']['b']
            if n['w']['k'] != 'par':
                out.append(rebuild(dict(n, w=inner)))
        for i, c in enumerate(n['c']):
            rec(c, path + [i], lambda x, i=i, n=n, rebuild=rebuild: rebuild(dict(n, c=n['c'][:i] + [x] + n['c'][i + 1:])))
    rec(t, [], lambda x: x)
    return out


def shrink(case, obs, ctx):
    import time
    if case.get('kind') not in ('rw', 'dec') or 'tree' not in case.get('build', {}):
        return case, obs
    counter = {'n': 0, 't0': time.time()}
    best, best_obs = case, obs
    progress = True
    while progress:
        progress = False
        cands = []
        pre = best.get('prefix', [])
        for i in range(len(pre)):
            cands.append(dict(best, prefix=pre[:i] + pre[i + 1:]))
        b = best['build']
        if b.get('reverse'):
            cands.append(dict(best, build={k: v for k, v in b.items() if k != 'reverse'}))
        if b.get('read_dur'):
            cands.append(dict(best, build=dict(b, read_dur=False)))
        if best['path'] and not pre and not b.get('reverse'):          # re-root at the first child on the path
            sub = b['tree']['c'][best['path'][0]] if best['path'][0] < len(b['tree']['c']) else None
            if sub is not None and (len(best['path']) > 1 or best['op'][0] != 'unroll'):
                cands.append(dict(best, build=dict(b, tree=sub), path=best['path'][1:]))
        keep = best['path'] if not b.get('reverse') else None
        if keep is not None:
            for tv in _tree_variants(b['tree'], list(keep)):
                cands.append(dict(best, build=dict(b, tree=tv)))
        for c in cands:
            o = _still_fails(c, ctx, counter)
            if o is not None:
                best, best_obs, progress = c, o, True
                break
            if counter['n'] >= 40:
                break
    return best, best_obs


# ---------------------------------------------------------------------------------------------------------------------
def search_failing(ctx, broken):
    """Python-only oracle against the implementation on a fresh stream: samples before = after, duration preserved,
    postconditions read off the real objects."""
    import random
    rng = random.Random(12345)
    for case in gen_cases(rng, 'quick', ctx):
        obs = run_impl(case)
        why = py_spec(case, obs)
        if why is None and case['kind'] == 'rw' and 'after' in obs:
            why = py_post(obs)
        if why is not None and classify(case, obs) is None:
            return case, obs, why
    return None


MANIFEST = {
    'level_text': 'Proof (Coq, all program trees, induction on tree / fuel / node count) ABOUT THE MODEL, in which a leaf '
                  'waveform that is not constant is an opaque atom: "same voltages" is proved as "the same atoms at the same '
                  'local times and the same constants at every time" (same_play); that the sampled arrays of the real '
                  'objects are equal before and after is TESTED on generated programs, not proved (see the clause map in '
                  'notes/C06.md). Every rewrite of loop.py modelled on '
                  'the pure program tree (unroll, unroll_children, encapsulate, split_one_child, _merge_single_child, cleanup, '
                  'flatten_and_balance) preserves the exact list of played pieces and the duration; to_waveform, '
                  'make_compatible and roll_constant_waveforms preserve the voltage function (same_play) and the duration; '
                  'postconditions of flatten_and_balance (depth, balance), make_compatible (every leaf >= minimum and a '
                  'multiple of the quantum) and cleanup; flatten_and_balance terminates on every tree and (round 5) always returns '
                  'a result on a valid one; to_waveform and roll_constant_waveforms always return on valid programs, '
                  'make_compatible returns unless the length of the program itself is incompatible and then fails with the '
                  'ValueError (the other rewrites are structural recursions in the model; that the real code returns is '
                  'tested with a time limit). The same for programs '
                  'with volatile repetition counts (Fixed n | Volatile n tag): unroll / split / flatten preserve the pulse at '
                  'the current values, encapsulate / merge / cleanup / roll_constant_waveforms under every re-evaluation of '
                  'the volatile parameters; make_compatible refines the plain rewrite (pulse, duration, postcondition at the '
                  'current values), never gains a volatile count and follows the parameters under every re-evaluation '
                  'exactly when it loses none; for the _make_compatible /repo has since 57d5a3e (model switch rp = true) '
                  '"no VolatileModificationWarning => no volatile count lost => same pulse under every re-evaluation" is '
                  'proved, the repair is proved to change the warning flag only, and the statement stays refuted for the '
                  'code as it was (rp = false); '
                  'split preference, freezing and termination proved. The rewrites executed with the recorded parent_index '
                  'refine the pure ones under the bookkeeping invariant and re-establish it (stale index refuted). '
                  'smallest_factor_ge is translated from the source on every run and proved equal to the model and correct. '
                  'Round 6: Waveform.constant_value(channel) of the composite leaves that to_waveform / make_compatible build '
                  '(SequenceWaveform loop, RepetitionWaveform) is modelled (Model_cv.v, atoms answer through an oracle) and '
                  'proved sound: an answer x means every piece the waveform plays is constant at x on that channel, hence '
                  'Waveform.get_sampled (the entry point of the drivers, which skips sampling when constant_value answers) '
                  'equals unsafe_sample at every time of the waveform provided the atoms keep their own promise; complete on '
                  'waveforms without an empty sequence (refuted without that guard); the loop with `not v` for `v is None` '
                  'is refuted. '
                  'The models are tied to the code by an exact correspondence check on generated programs (tree shape, '
                  'counts, kind of count, the value of every volatile count under two other parameter assignments, '
                  'warnings, recorded indices, leaf waveforms, errors, rewrite sequences, shared waveform objects, repeated '
                  'rewrites, populated / partly populated / empty duration caches, the reported duration of every node); sampled '
                  'voltages before/after are compared on the real objects, exactly for binary-fraction durations and under '
                  'an absolute tolerance of 2^-30 for decimal durations.',
    'level_note': 'Trusted: Coq kernel, harness (describer, reference player), leaf waveform sampling (C08) incl. the '
                  'per-channel constant_value answers of opaque atoms, translator. '
                  'Tested only: equality of sampled voltages on the real objects; "a failed rewrite leaves the program as it '
                  'was" (the pure model has no state to damage); termination of the real code; leaf classes other than '
                  'Constant / Table / MultiChannel / Sequence / Repetition / Reversed / Subset / Functor / Arithmetic / '
                  'Transforming / FunctionWaveform objects. '
                  'The heap (parent pointers, aliasing, duration cache) is C09; here only the recorded index is modelled. '
                  'Binary64 sampling is tested under the tolerance, not proved. The former known finding '
                  'C06-float-local-time-nested is repaired in /repo (55554c3, rest e2c868b: tables with inner entries and '
                  'the wrapper waveforms get the exact offset) and is a violation again; the former known finding '
                  'C06-make-compatible-silent-volatile-freeze is repaired (57d5a3e): a volatile count that is lost without '
                  'a VolatileModificationWarning is a violation again (Coq spec clause + implementation-only duration '
                  'probe). No known finding is left for C06.',
    'technique': 'Coq proof over hand-written models + source translation of the integer kernel + correspondence check + '
                 'sample comparison on the implementation',
    'design_ref': 'DESIGN.md §5 C06, §4.5, Appendix D2',
}
