"""C10 — round 4 families.

order family ("order-sensitive fields"): for every class with a list / tuple / dict valued constructor argument
(subtemplates of SequencePT / AtomicMultiChannelPT, TablePT entries per channel, PointPT channel list, measurement
lists, constraint lists, the three MappingPT dicts, ConstantPT amplitudes, ParallelChannelPT overwritten channels,
ArithmeticPT scalar dict and operand side, ArithmeticAtomicPT operands, ForLoopPT range, AbstractPT integral) the
members are given in NON-sorted orders of their names (reverse sorted, 'Y' before 'X', 'b9' vs 'b10' in both orders,
mixed case) and are ASYMMETRIC (different duration expressions that agree only on instantiation, own measurement windows
with the same name, different values), so that any reordering by the store / load path is observable in the loaded
template's duration expression, in the order of measurement windows of the created program, in the sampled channels
or in the introspected structure.

rationals family: exact non-integer rational constants ('1/3', '2/7', '1000000/3', '-5/3') in every expression position
(seed C10-6: they must be stored as exact expressions, not as floats).
"""
import copy
import itertools

from props import c10_gen as G

# name pairs, first member given first: not sorted as strings / not sorted "naturally" / not sorted ignoring case
ORDERS2 = [('Y', 'X'), ('b9', 'b10'), ('b10', 'b9'), ('b', 'B'), ('B', 'a'), ('a', 'B')]
ORDERS3 = [('C', 'A', 'B'), ('B', 'C', 'A'), ('c', 'B', 'a'), ('b10', 'b9', 'b1')]
# duration expressions that are different expressions but equal under both probe assignments of c10.PROBES
# (d = 4 / 8, a + c = 4 / 8, b*2 = 4 / 8)
EQ_DURS = ['d', 'a + c', 'b*2']
RATIONALS = ['1/3', '2/7', '1000000/3', '-5/3']


def _leaf(ch, k, ident=None, kind=None, meas='m'):
    """k-th asymmetric atomic leaf on channel ch: its own duration expression, its own value, its own window"""
    dur = EQ_DURS[k % 3]
    kind = kind or ('Table', 'Constant', 'Function')[k % 3]
    m = [[meas, k, 1]] if meas else []
    if kind == 'Table':
        return dict(k='Table', id=ident, entries=[[ch, [[0, k], [dur, 'v', 'linear']]]], measurements=m)
    if kind == 'Constant':
        return dict(k='Constant', id=ident, dur=dur, amps=[[ch, 0.5 + k]], measurements=m)
    return dict(k='Function', id=ident, ex='a*t + %d' % k, dur=dur, ch=ch, measurements=m)


def _case(label, nodes, n, roots=None, ops=None, flag='order', extra=()):
    nodes = copy.deepcopy(nodes)
    for nd in nodes:
        nd.setdefault('id', None)
    if roots is None:
        nodes[-1]['id'] = nodes[-1].get('id') or 'root'
        roots = [len(nodes) - 1]
    return {'kind': 'store', 'nodes': nodes, 'roots': roots, 'ops': ops or [[0, k] for k in range(len(roots))],
            'backend': G.BACKENDS[n % 3], 'flags': sorted([flag, '%s:%s' % (flag, label.split(':')[0])] + list(extra)),
            'label': label}


def _id_variants(names):
    """identifiers for the members: none, ids that sort like the given order reversed, ids in the given order"""
    n = len(names)
    yield 'anon', [None] * n
    yield 'ids-rev', ['q%d' % (n - j) for j in range(n)]            # q2, q1: identifier order opposite to position
    yield 'ids-name', ['id_' + x for x in names]


MEAS_LISTS = [
    [['m', 2, 1], ['m', 0, 1], ['k', 1, 1], ['m', 1, 'x']],
    [['m', 1, 1], ['m', 1, 1], ['m', 0, 2]],                          # coinciding (name, begin, length) + a different one
    [['Y', 0, 1], ['X', 0, 1], ['Y', 'x', 1]],
    [['b9', 3, 1], ['b10', 2, 1], ['b9', 1, 1]],
]
CONS_LISTS = [['d > 0', 'a < b'], ['c > a', 'a < b', 'b <= c'], ['v*2 >= w', 'a + b == c']]


def _variants(tier):
    """(label, nodes) with the subject as the last node"""
    out = []
    quick = tier == 'quick'

    def add(label, *nodes):
        out.append((label, [dict(n) for n in nodes]))

    # --- AtomicMultiChannelPT: sub-templates on channels given in non-sorted order, no explicit duration
    for names in ORDERS2 + ORDERS3:
        for vname, ids in _id_variants(names):
            if quick and vname == 'ids-name' and names not in (ORDERS2[0], ORDERS3[0]):
                continue
            subs = [_leaf(c, j, ids[j]) for j, c in enumerate(names)]
            add('AtomicMulti:%s:%s' % ('>'.join(names), vname), *subs, dict(k='AtomicMulti', subs=list(range(len(names)))))
    # sorted channels but identifiers in the opposite order; own windows + constraints on the composite as well
    for names in (('X', 'Y'), ('A', 'B', 'C')):
        ids = ['q%d' % (len(names) - j) for j in range(len(names))]
        subs = [_leaf(c, j, ids[j]) for j, c in enumerate(names)]
        add('AtomicMulti:%s:sorted-ids-rev' % '>'.join(names), *subs,
            dict(k='AtomicMulti', subs=list(range(len(names))), measurements=MEAS_LISTS[0], parameter_constraints=CONS_LISTS[0]))
    # multi-channel members: the order of the FIRST channels differs from the order of the smallest channels
    add('AtomicMulti:multi-member',
        dict(k='Table', entries=[['Z', [[0, 0], ['d', 1, 'linear']]], ['A', [[0, 1], ['d', 0, 'hold']]]], measurements=[['m', 0, 1]]),
        dict(k='Constant', dur='a + c', amps=[['B', 'x']], measurements=[['m', 1, 1]]),
        dict(k='AtomicMulti', subs=[0, 1]))
    # the same with an explicit duration (order then only shows in windows / structure)
    add('AtomicMulti:explicit-duration', _leaf('Y', 0), _leaf('X', 1), dict(k='AtomicMulti', subs=[0, 1], dur='b*2'))
    # nested: the inner composite is itself unsorted
    add('AtomicMulti:nested', _leaf('Y', 0), _leaf('X', 1), dict(k='AtomicMulti', subs=[0, 1], id='inner'), _leaf('A', 2),
        dict(k='AtomicMulti', subs=[2, 3]))

    # --- SequencePT: members on the same channel, identifiers / durations / windows asymmetric
    for names in ORDERS2 + ORDERS3:
        for vname in (('named', 'anon') if not quick or names in (ORDERS2[0], ORDERS2[1], ORDERS3[0]) else ('named',)):
            subs = [_leaf('A', j, names[j] if vname == 'named' else None, kind=('Table', 'Constant', 'Function')[j % 3])
                    for j in range(len(names))]
            add('Sequence:%s:%s' % ('>'.join(names), vname), *subs, dict(k='Sequence', subs=list(range(len(names)))))
    add('Sequence:same-object-twice', _leaf('A', 0, 'Y'), _leaf('A', 1, 'X'), dict(k='Sequence', subs=[0, 1, 0, 1, 1]))

    # --- dict valued arguments keyed by channel / parameter / measurement name
    o2 = ORDERS2 if not quick else ORDERS2[:3] + ORDERS2[4:5]
    for n1, n2 in o2:
        tag = '%s>%s' % (n1, n2)
        add('Table:' + tag, dict(k='Table', entries=[[n1, [[0, 0], ['d', 'v', 'linear']]],
                                                     [n2, [[0, 1], ['d/2', 'w', 'hold'], ['a + c', 2, 'jump']]]]))
        add('Point:' + tag, dict(k='Point', points=[[0, [0, 1]], ['d', ['v', 'w'], 'linear']], chans=[n1, n2]))
        add('Constant:' + tag, dict(k='Constant', dur='d', amps=[[n1, 'a'], [n2, 0.5]]))
        add('Parallel:' + tag, _leaf('A', 0), dict(k='Parallel', tmpl=0, over=[[n1, 'x'], [n2, 0.5]]))
        inner2 = dict(k='Constant', dur='d', amps=[[n1, 1], [n2, 2]])
        add('Arithmetic:' + tag, inner2, dict(k='Arithmetic', lhs={'pt': 0}, op='-', rhs={'map': [[n1, 'a'], [n2, 'b']]}))
        add('Arithmetic-lhs:' + tag, inner2, dict(k='Arithmetic', lhs={'map': [[n1, 'a'], [n2, 'b']]}, op='-', rhs={'pt': 0}))
        add('Mapping-cmap:' + tag, inner2, dict(k='Mapping', tmpl=0, cmap=[[n1, 'Q'], [n2, 'P']]))
        add('Mapping-cmap-swap:' + tag, inner2, dict(k='Mapping', tmpl=0, cmap=[[n1, n2], [n2, n1]]))
        add('Mapping-mmap:' + tag, dict(k='Table', entries=[['A', [[0, 0], [4, 1, 'linear']]]],
                                        measurements=[[n1, 2, 1], [n2, 0, 1], [n1, 1, 1]]),
            dict(k='Mapping', tmpl=0, mmap=[[n1, 'r2'], [n2, 'r1']]))
        add('Abstract-integral:' + tag, dict(k='Abstract', defined_channels=[n1, n2], integral=[[n1, 'a'], [n2, 'b*2']],
                                             duration='d'))
        add('ArithmeticAtomic:' + tag, _leaf('A', 0, n1), _leaf('A', 1, n2), dict(k='ArithmeticAtomic', lhs=0, rhs=1, op='-'))
    add('Mapping-pmap:v>a', dict(k='Table', entries=[['A', [[0, 'a'], ['d', 'v', 'linear']]]]),
        dict(k='Mapping', tmpl=0, pmap=[['v', 'w*2'], ['a', 'b'], ['d', 'a + c']]))
    add('Mapping-pmap:swap', dict(k='Table', entries=[['A', [[0, 'a'], ['d', 'b', 'linear']]]]),
        dict(k='Mapping', tmpl=0, pmap=[['b', 'a'], ['a', 'b']]))

    # --- measurement lists / constraint lists on every class that takes them
    bases = [
        ('Table', [], dict(k='Table', entries=[['A', [[0, 0], [4, 'v', 'linear']]]])),
        ('Point', [], dict(k='Point', points=[[0, 0], [4, 'v', 'linear']], chans=['A'])),
        ('Function', [], dict(k='Function', ex='a*t', dur=4, ch='A')),
        ('Constant', [], dict(k='Constant', dur=4, amps=[['A', 'a']])),
        ('Sequence', [_leaf('A', 0, meas=None)], dict(k='Sequence', subs=[0])),
        ('Repetition', [_leaf('A', 0, meas=None)], dict(k='Repetition', body=0, count=2)),
        ('ForLoop', [dict(k='Table', entries=[['A', [[0, 'i'], [4, 'v', 'linear']]]])], dict(k='ForLoop', body=0, idx='i', rng=2)),
        ('AtomicMulti', [_leaf('Y', 0, meas=None), _leaf('X', 1, meas=None)], dict(k='AtomicMulti', subs=[0, 1])),
        ('ArithmeticAtomic', [_leaf('A', 0, meas=None), _leaf('A', 0, meas=None)], dict(k='ArithmeticAtomic', lhs=0, rhs=1, op='-')),
        ('Mapping', [_leaf('A', 0, meas=None)], dict(k='Mapping', tmpl=0)),
    ]
    for name, pre, base in bases:
        if name != 'Mapping':
            for j, ml in enumerate(MEAS_LISTS if not quick else MEAS_LISTS[:2]):
                add('%s:measurements-%d' % (name, j), *pre, dict(base, measurements=ml))
        if name not in ('Constant', 'ArithmeticAtomic'):
            for j, cl in enumerate(CONS_LISTS if not quick else CONS_LISTS[1:2]):
                add('%s:constraints-%d' % (name, j), *pre, dict(base, parameter_constraints=cl))
    # --- ForLoopPT range tuples, descending / symbolic in "wrong" alphabetical order
    for r in (['c', 'a', -1], ['b', 'a'], [4, 0, -2], ['n', 0, -1]):
        add('ForLoop:range=%r' % (r,), dict(k='Table', entries=[['A', [[0, 'i'], [4, 'v', 'linear']]]], measurements=[['m', 'i', 1]]),
            dict(k='ForLoop', body=0, idx='i', rng=r))
    return out


def order_cases(tier):
    out = []
    for label, nodes in _variants(tier):
        try:
            G.build(nodes)
        except Exception:   # noqa  the constructor rejects this combination
            continue
        out.append(_case(label, nodes, len(out)))
    if tier != 'quick':
        out.extend(order_exhaustive())
    return out


def order_exhaustive():
    """small scope, exhaustively: every permutation of 3 asymmetric members x channel-name set x identifier assignment for
    AtomicMultiChannelPT and SequencePT; every permutation of a 3-window measurement list and of a 3-entry mapping"""
    out = []
    for names in (('A', 'B', 'C'), ('b1', 'b10', 'b9'), ('B', 'a', 'c')):
        for perm in itertools.permutations(range(3)):
            for idp in (None,) + tuple(itertools.permutations(range(3))):
                ids = [None] * 3 if idp is None else ['q%d' % idp[j] for j in range(3)]
                subs = [_leaf(names[p], j, ids[j]) for j, p in enumerate(perm)]
                out.append(_case('AtomicMulti:perm%s%s' % (perm, idp), subs + [dict(k='AtomicMulti', subs=[0, 1, 2])], len(out)))
                subs = [_leaf('A', j, None if idp is None else names[idp[j]]) for j in range(3)]
                out.append(_case('Sequence:perm%s%s' % (perm, idp), subs + [dict(k='Sequence', subs=list(perm))], len(out)))
    win = [['m', 0, 1], ['m', 1, 1], ['k', 2, 1]]
    pm = [['v', 'w*2'], ['a', 'b'], ['d', 'a + c']]
    for perm in itertools.permutations(range(3)):
        out.append(_case('Table:measperm%s' % (perm,), [dict(k='Table', entries=[['A', [[0, 'a'], ['d', 'v', 'linear']]]],
                                                               measurements=[win[p] for p in perm])], len(out)))
        out.append(_case('Mapping:pmapperm%s' % (perm,), [dict(k='Table', entries=[['A', [[0, 'a'], ['d', 'v', 'linear']]]]),
                                                             dict(k='Mapping', tmpl=0, pmap=[pm[p] for p in perm])], len(out)))
    return out


def rational_cases(tier):
    """an exact rational constant in every expression position of every class"""
    out = []
    rs = RATIONALS if tier != 'quick' else RATIONALS[:2]

    def add(label, *nodes):
        nodes = [dict(n) for n in nodes]
        try:
            G.build(nodes)
        except Exception:   # noqa
            return
        out.append(_case(label, nodes, len(out), flag='rational'))
    for q in rs:
        pos = q.lstrip('-')
        add('Table:time=' + q, dict(k='Table', entries=[['A', [[0, 0], [pos, 'v', 'linear'], ['3*' + pos, 0, 'hold']]]]))
        add('Table:value=' + q, dict(k='Table', entries=[['A', [[0, q], [4, q + ' + 1/7', 'linear']]]]))
        add('Point:time+value=' + q, dict(k='Point', points=[[0, q], [pos, [q, 'v'], 'linear']], chans=['A', 'B']))
        add('Function:duration=' + q, dict(k='Function', ex=q, dur=pos, ch='A'))
        add('Constant:duration+amp=' + q, dict(k='Constant', dur=pos, amps=[['A', q]]))
        add('measurement=' + q, dict(k='Constant', dur=4, amps=[['A', 1]], measurements=[['m', pos, pos]]))
        add('three-ramps=' + q, dict(k='Table', id='ramp', entries=[['A', [[0, 0], [pos, 1, 'linear']]]]),
            dict(k='Sequence', subs=[0, 0, 0]))
        add('Repetition:count=6/3', _leaf('A', 0), dict(k='Repetition', body=0, count='6/3'))
        add('Mapping:constant=' + q, dict(k='Table', entries=[['A', [[0, 'a'], ['d', 'v', 'linear']]]]),
            dict(k='Mapping', tmpl=0, pmap=[['v', q], ['d', pos]]))
        add('Parallel:over=' + q, _leaf('A', 0), dict(k='Parallel', tmpl=0, over=[['B', q]]))
        add('Arithmetic:scalar=' + q, _leaf('A', 0), dict(k='Arithmetic', lhs={'pt': 0}, op='*', rhs=q))
        add('Arithmetic:map=' + q, _leaf('A', 0), dict(k='Arithmetic', lhs={'map': [['A', q]]}, op='+', rhs={'pt': 0}))
        add('AtomicMulti:duration=' + q, dict(k='Constant', dur=pos, amps=[['A', 1]]), dict(k='Constant', dur=pos, amps=[['B', 1]]),
            dict(k='AtomicMulti', subs=[0, 1], dur=pos))
        add('Abstract:duration+integral=' + q, dict(k='Abstract', defined_channels=['A'], duration=pos, integral=[['A', q]]))
        add('ForLoop:body-uses=' + q, dict(k='Table', entries=[['A', [[0, 'i*' + q], [pos, 'v', 'linear']]]]),
            dict(k='ForLoop', body=0, idx='i', rng=3))
    return out


NP = lambda t, v: {'#np': [t, v]}
NP_VALUES = [('float64', 0.5), ('float64', 0.1), ('float32', 0.5), ('float32', 0.1), ('float16', 0.1), ('int64', 3), ('int32', -1),
             ('uint8', 200), ('uint16', 3), ('int64', 0)]


def numpy_cases(tier):
    """numeric constructor arguments given as numpy scalars (float64 / float32 / float16 / signed and unsigned integers) in
    every expression position"""
    out = []

    def add(label, *nodes):
        nodes = [dict(n) for n in nodes]
        try:
            G.build(nodes)
        except Exception:   # noqa
            return
        out.append(_case(label, nodes, len(out), flag='numpy',
                         extra=['float_prec'] if any(t in label for t in ('float32', 'float16')) else []))
    vals = NP_VALUES if tier != 'quick' else [NP_VALUES[k] for k in (1, 3, 5, 7)]
    for t, v in vals:
        x = NP(t, v)
        tag = '%s(%r)' % (t, v)
        pos = NP(t, abs(v) or 1)
        add('Table:value=' + tag, dict(k='Table', entries=[['A', [[0, x], [4, 'v', 'linear']]]]))
        add('Table:time=' + tag, dict(k='Table', entries=[['A', [[0, 0], [pos, 'v', 'linear']]]]))
        add('Point:value=' + tag, dict(k='Point', points=[[0, x], [4, [x, 'v'], 'linear']], chans=['A', 'B']))
        add('Function:duration=' + tag, dict(k='Function', ex='a*t', dur=pos, ch='A'))
        add('Constant:duration+amp=' + tag, dict(k='Constant', dur=pos, amps=[['A', x]]))
        add('measurement=' + tag, dict(k='Constant', dur=300, amps=[['A', 1]], measurements=[['m', pos, pos]]))
        add('Mapping:constant=' + tag, dict(k='Table', entries=[['A', [[0, 'a'], ['d', 'v', 'linear']]]]),
            dict(k='Mapping', tmpl=0, pmap=[['v', x]]))
        add('Parallel:over=' + tag, _leaf('A', 0), dict(k='Parallel', tmpl=0, over=[['B', x]]))
        add('Arithmetic:scalar=' + tag, _leaf('A', 0), dict(k='Arithmetic', lhs={'pt': 0}, op='*', rhs=x))
        add('Arithmetic:map=' + tag, _leaf('A', 0), dict(k='Arithmetic', lhs={'map': [['A', x]]}, op='+', rhs={'pt': 0}))
        add('AtomicMulti:duration=' + tag, dict(k='Constant', dur=pos, amps=[['A', 1]]), dict(k='Constant', dur=pos, amps=[['B', 1]]),
            dict(k='AtomicMulti', subs=[0, 1], dur=pos))
        add('Abstract:duration+integral=' + tag, dict(k='Abstract', defined_channels=['A'], parameter_names=[], duration=pos,
                                                     integral=[['A', x]]))
        if t.startswith(('int', 'uint')):
            add('Repetition:count=' + tag, _leaf('A', 0), dict(k='Repetition', body=0, count=pos))
            add('ForLoop:range=' + tag, dict(k='Table', entries=[['A', [[0, 'i'], [4, 'v', 'linear']]]]),
                dict(k='ForLoop', body=0, idx='i', rng=[0, pos]))
    return out


def boundary_cases(tier):
    """constructor spellings and boundary shapes found by the coverage audit of round 4"""
    out = []

    def add(label, *nodes):
        nodes = [dict(n) for n in nodes]
        try:
            G.build(nodes)
        except Exception:   # noqa
            return
        out.append(_case(label, nodes, len(out), flag='boundary'))
    body_i = dict(k='Table', entries=[['A', [[0, 'i'], [4, 'v', 'linear']]]])
    add('Table:zero-duration', dict(k='Table', entries=[['A', [[0, 1]]]]))
    add('Table:zero-duration-2ch', dict(k='Table', entries=[['Y', [[0, 'v']]], ['X', [[0, 0], [0, 1, 'jump']]]]))
    add('Point:one-vector', dict(k='Point', points=[[0, ['a']], [4, ['v'], 'linear']], chans=['A']))
    add('Point:scalar+vector', dict(k='Point', points=[[0, 'a'], [2, ['v', 'w'], 'hold'], [4, 0, 'linear']], chans=['Y', 'X']))
    add('ForLoop:python-range', body_i, dict(k='ForLoop', body=0, idx='i', rng={'#range': [0, 3]}))
    add('ForLoop:python-range-step', body_i, dict(k='ForLoop', body=0, idx='i', rng={'#range': [5, 0, -2]}))
    add('ForLoop:parametrized-range', body_i, dict(k='ForLoop', body=0, idx='i', rng={'#prange': ['a', 'c', 1]}))
    add('ForLoop:range-list', body_i, dict(k='ForLoop', body=0, idx='i', rng=[0, 'n'], rng_as='list'))
    add('ForLoop:constraint-on-index', body_i, dict(k='ForLoop', body=0, idx='i', rng='n', parameter_constraints=['i < n', 'n >= 0']))
    add('Sequence:tuple-member', dict(k='Table', entries=[['A', [[0, 'a'], ['d', 'v', 'linear']]]], measurements=[['m', 0, 1]]),
        dict(k='Sequence', subs=[{'tuple': [0, [['v', 'w*2'], ['a', 'b'], ['d', 'd']]]}, 0,
                                 {'tuple': [0, [['v', 1], ['a', 0], ['d', 4]], [['m', 'q']]]}]))
    add('AtomicMulti:tuple-member', _leaf('Y', 0), _leaf('X', 1),
        dict(k='AtomicMulti', subs=[{'tuple': [0, [['Y', 'Q']]]}, 1]))
    add('Mapping:no-channels', dict(k='Abstract', id='abs', xkw={'defined_channels': {'#set': []}, 'parameter_names': {'#set': ['a']},
                                                              'measurement_names': {'#set': []}}, duration='a'),
        dict(k='Mapping', tmpl=0, pmap=[['a', 'b*2']]))
    add('Mapping:strict-complete', dict(k='Table', entries=[['A', [[0, 'a'], ['d', 'v', 'linear']]]]),
        dict(k='Mapping', tmpl=0, pmap=[['v', 'w*2'], ['a', 'b'], ['d', 'd']], strict=True))
    add('Mapping:default-everything', dict(k='Table', entries=[['A', [[0, 'a'], ['d', 'v', 'linear']]]]), dict(k='Mapping', tmpl=0, strict=True))
    return out


# floats off the decimal / dyadic grid: need 16-17 significant digits, just below an integer, decimal fractions
OFFGRID = [0.30000000000000004, 2.9999999999999996, 0.1, 1.1, 2.5, 1e-09, 123456.78901234567]


def offgrid_cases(tier):
    """float constants off the grid in every numeric position, spelled as a Python float, as its repr string and as an
    ExpressionScalar object.  The Python-float spelling must round trip exactly; a string / ExpressionScalar spelling of a
    float that needs more than 15 significant digits is the known finding float_precision_not_preserved"""
    out = []
    vals = OFFGRID if tier != 'quick' else OFFGRID[:3]
    for x in vals:
        needs17 = ('%.15g' % x) != repr(x)
        for sp, v in (('float', x), ('str', repr(x)), ('expr', {'#expr': x})):
            extra = ['float_prec'] if needs17 and sp != 'float' else []
            tag = '%s:%r' % (sp, x)

            def add(label, *nodes):
                nodes = [dict(n) for n in nodes]
                try:
                    G.build(nodes)
                except Exception:   # noqa
                    return
                # an ExpressionScalar object fails only where a class special-cases Python floats (ConstantPT duration /
                # amplitudes: the loaded template holds the float, the original the expression)
                ex = extra if sp != 'expr' or any(nd['k'] == 'Constant' for nd in nodes) else []
                out.append(_case(label, nodes, len(out), flag='offgrid', extra=ex))
            add('Constant:duration=' + tag, dict(k='Constant', dur=v, amps=[['A', 1]]))
            add('Constant:amp=' + tag, dict(k='Constant', dur=4, amps=[['A', v]]))
            add('Function:duration=' + tag, dict(k='Function', ex='a*t', dur=v, ch='A'))
            add('Function:expression=' + tag, dict(k='Function', ex=v, dur=4, ch='A'))
            add('Table:time=' + tag, dict(k='Table', entries=[['A', [[0, 0], [v, 'v', 'linear'], [4, 0, 'hold']]]]))
            add('Table:value=' + tag, dict(k='Table', entries=[['A', [[0, v], [4, 'v', 'linear']]]]))
            add('Point:time+value=' + tag, dict(k='Point', points=[[0, v], [v, 'v', 'linear'], [4, [v], 'hold']], chans=['A']))
            add('measurement=' + tag, dict(k='Constant', dur=4, amps=[['A', 1]], measurements=[['m', v, v]]))
            add('three-in-sequence=' + tag, dict(k='Constant', id='c', dur=v, amps=[['A', 1]]), dict(k='Sequence', subs=[0, 0, 0]))
            add('Mapping:constant=' + tag, dict(k='Table', entries=[['A', [[0, 'a'], ['d', 'v', 'linear']]]]),
                dict(k='Mapping', tmpl=0, pmap=[['v', v], ['d', v]]))
            add('Parallel:over=' + tag, _leaf('A', 0), dict(k='Parallel', tmpl=0, over=[['B', v]]))
            add('Arithmetic:scalar=' + tag, _leaf('A', 0), dict(k='Arithmetic', lhs={'pt': 0}, op='*', rhs=v))
            add('AtomicMulti:duration=' + tag, dict(k='Constant', dur=v, amps=[['A', 1]]), dict(k='Constant', dur=v, amps=[['B', 1]]),
                dict(k='AtomicMulti', subs=[0, 1], dur=v))
            add('Abstract:duration=' + tag, dict(k='Abstract', defined_channels=['A'], parameter_names=[], duration=v))
    return out


# round 5 (blind class of seed C10-7): expression TEXTS that contain a float sub-expression sympy evaluates while parsing
# ('v/3.0' -> 0.333333333333333*v, 'v*(0.1 + 0.2)' -> 0.3*v with the Float 0.30000000000000004): the text round trips, the
# printed form of the parsed expression does not (15 digits).  Handed over as an ExpressionScalar OBJECT (the constructors
# copy it; the copy must keep the text), as text (control), and through with_parallel_channels (a template derived from
# the expressions of an existing one).
FVALS = ['v/3.0', 'v*(0.1 + 0.2)', 'a/7.0 + b']
FDURS = ['d/3.0', 'd*(0.1 + 0.2)', 'd/7.0 + 1']
FTIME = ['t*v/3.0', 't*(0.1 + 0.2) + v', 'sin(t/7.0)*v']


def exprobj_cases(tier):
    """a float-sub-expression text in every expression position of every class, as ExpressionScalar object / as text"""
    out = []
    n_txt = 3 if tier != 'quick' else 2
    for j in range(n_txt):
        fv, fd, ft = FVALS[j], FDURS[j], FTIME[j]
        for sp in ('expr', 'str'):
            if tier == 'quick' and sp == 'str' and j > 0:
                continue
            w = (lambda s: {'#expr': s}) if sp == 'expr' else (lambda s: s)
            v, d, tt = w(fv), w(fd), w(ft)
            tag = '%s:%s' % (sp, fv)

            def add(label, *nodes, extra=()):
                nodes = [dict(n) for n in nodes]
                try:
                    G.build(nodes)
                except Exception:   # noqa  the constructor rejects this spelling (e.g. TablePT wants str / number entries)
                    return
                out.append(_case(label, nodes, len(out), flag='exprobj', extra=['exprobj-' + sp] + list(extra)))
            add('Constant:duration=' + tag, dict(k='Constant', dur=d, amps=[['A', 1]]))
            add('Constant:amp=' + tag, dict(k='Constant', dur=4, amps=[['A', v], ['B', 'b']]))
            add('Function:duration=' + tag, dict(k='Function', ex='a*t', dur=d, ch='A'))
            add('Function:expression=' + tag, dict(k='Function', ex=tt, dur=4, ch='A'))
            add('Table:time=' + tag, dict(k='Table', entries=[['A', [[0, 0], [d, 'v', 'linear'], [8, 0, 'hold']]]]))
            add('Table:value=' + tag, dict(k='Table', entries=[['A', [[0, v], [4, 'v', 'linear']]]]))
            add('Point:time+value=' + tag, dict(k='Point', points=[[0, v], [d, 'v', 'linear'], [8, v, 'hold']], chans=['A', 'B']))
            if sp == 'str':
                # an ExpressionVector keeps no text: its items are stored as printed by sympy (15 digits) - known finding
                # float_precision_not_preserved (d); the vector value is the LAST entry so that it is sampled (t = 4 .. 7)
                add('Point:vector-value=' + tag, dict(k='Point', points=[[0, 0], [4, [fv, 'w'], 'jump'], [8, [fv, 'w'], 'hold']],
                                                      chans=['A', 'B']), extra=['float_prec'])
            add('measurement=' + tag, dict(k='Constant', dur=8, amps=[['A', 1]], measurements=[['m', d, d]]))
            add('three-in-sequence=' + tag, dict(k='Constant', id='c', dur=d, amps=[['A', v]]), dict(k='Sequence', subs=[0, 0, 0]))
            add('Repetition:count=' + tag, _leaf('A', 0), dict(k='Repetition', body=0, count=w('n*(1.0 + 1.0)')))
            add('ForLoop:prange=' + tag, dict(k='Table', entries=[['A', [[0, 'i'], [4, 'v', 'linear']]]]),
                dict(k='ForLoop', body=0, idx='i', rng={'#prange': [w('a*(0.5 + 0.5)'), w('c*(1.0 + 1.0)'), 1]}))
            add('ForLoop:range=' + tag, dict(k='Table', entries=[['A', [[0, 'i'], [4, 'v', 'linear']]]]),
                dict(k='ForLoop', body=0, idx='i', rng=[0, w('n*(1.0 + 1.0)')]))
            add('Mapping:pmap=' + tag, dict(k='Table', entries=[['A', [[0, 'a'], ['d', 'v', 'linear']]]]),
                dict(k='Mapping', tmpl=0, pmap=[['v', v], ['d', d]]))
            add('Parallel:over=' + tag, _leaf('A', 0), dict(k='Parallel', tmpl=0, over=[['B', v]]))
            add('Parallel:over-time=' + tag, dict(k='Function', ex='sin(t)*v', dur=16, ch='A'),
                dict(k='Parallel', tmpl=0, over=[['M', tt]]))
            add('Arithmetic:scalar=' + tag, _leaf('A', 0), dict(k='Arithmetic', lhs={'pt': 0}, op='*', rhs=v))
            add('Arithmetic:map=' + tag, _leaf('A', 0), dict(k='Arithmetic', lhs={'map': [['A', v]]}, op='+', rhs={'pt': 0}))
            add('AtomicMulti:duration=' + tag, dict(k='Constant', dur=d, amps=[['A', 1]]), dict(k='Constant', dur=d, amps=[['B', 1]]),
                dict(k='AtomicMulti', subs=[0, 1], dur=d))
            add('Abstract:duration+integral=' + tag, dict(k='Abstract', defined_channels=['A'], parameter_names=['a', 'b', 'd', 'v'],
                                                         duration=d, integral=[['A', v]]))
        # derived templates: with_parallel_channels on an anonymous ParallelChannelPT rebuilds it from its own expressions
        add2 = lambda label, *nodes: out.append(_case(label, [dict(n) for n in nodes], len(out), flag='exprobj', extra=['exprobj-derived']))
        add2('Parallel:with_parallel_channels=' + ft, dict(k='Function', ex='sin(t)*v', dur=16, ch='A'),
             dict(k='Parallel', tmpl=0, over=[['M', ft]], then_over=[['N', 1]]), dict(k='Sequence', subs=[1]))
        add2('Parallel:with_parallel_channels-twice=' + fv, _leaf('A', 0),
             dict(k='Parallel', tmpl=0, over=[['M', fv]], then_over=[['N', fv], ['M2', 'b']]), dict(k='Repetition', body=1, count=2))
    return out


def intval_cases(tier):
    """round 5 (audit of the predicate of finding int_channel_key): integer channel ids where they are VALUES, not dict
    keys - FunctionPT channel, PointPT channel list, MappingPT channel_mapping targets, AbstractPT defined_channels, and
    compositions of such templates.  JSON keeps integers as values, so all of these must round trip (no known-finding flag);
    before round 5 integer channel ids were generated only inside the flagged random stream, where every failure was filed
    under the finding"""
    out = []

    def add(label, *nodes, extra=()):
        nodes = [dict(n) for n in nodes]
        try:
            G.build(nodes)
        except Exception:   # noqa
            return
        out.append(_case(label, nodes, len(out), flag='intval', extra=extra))
    f0 = dict(k='Function', ex='a*t', dur='d', ch=0, measurements=[['m', 0, 1]])
    f1 = dict(k='Function', ex='v', dur='d', ch=1)
    add('Function:ch=0', f0)
    add('Function:ch=7', dict(f0, ch=7))
    add('Point:chans=0,1', dict(k='Point', points=[[0, [0, 'a']], ['d', ['v', 1], 'linear']], chans=[0, 1]))
    add('Point:chans=1,0', dict(k='Point', points=[[0, [0, 'a']], ['d', ['v', 1], 'linear']], chans=[1, 0]))
    add('Point:chans=0,A', dict(k='Point', points=[[0, 0], ['d', 'v', 'linear']], chans=[0, 'A']))
    add('Mapping:target=0', _leaf('A', 0), dict(k='Mapping', tmpl=0, cmap=[['A', 0]]))
    add('Abstract:channels=0,1', dict(k='Abstract', defined_channels=[0, 1], parameter_names=['a'], duration='d'))
    add('Sequence:of-int-functions', f0, dict(f0, ex='v', id='x'), dict(k='Sequence', subs=[0, 1, 1]))
    add('AtomicMulti:0,1', f0, f1, dict(k='AtomicMulti', subs=[0, 1]))
    add('AtomicMulti:1,0', f1, f0, dict(k='AtomicMulti', subs=[0, 1]))
    add('Repetition:int-function', f0, dict(k='Repetition', body=0, count='n'))
    add('ForLoop:int-function', dict(f0, ex='i*t'), dict(k='ForLoop', body=0, idx='i', rng=3))
    add('TimeReversal:int-function', f0, dict(k='TimeReversal', inner=0))
    add('ArithmeticAtomic:int-functions', f0, dict(f0, ex='v'), dict(k='ArithmeticAtomic', lhs=0, rhs=1, op='+'))
    add('Arithmetic:scalar-int-function', f0, dict(k='Arithmetic', lhs={'pt': 0}, op='*', rhs='b'))
    # MappingPT completes its channel mapping to {0: 0}: an integer dict KEY after all = the known finding
    add('Mapping:int-function-params', f0, dict(k='Mapping', tmpl=0, pmap=[['a', 'b*2']]), extra=['int_key'])
    return out


def dupdoc_cases(tier):
    """round 5 (class of seed C10-8, so far only reached by one corpus case and the 6 % clash stream): two DIFFERENT objects
    with one identifier inside ONE stored document - as siblings, the second below anonymous nodes, the first already known
    to the storage, under every composite class with two operands.  The code must refuse (RuntimeError, nothing written for
    the parent); a store that succeeds must load back the same pulse, which it cannot"""
    out = []
    a = dict(k='Constant', id='x', dur=4, amps=[['A', 1]])
    b = dict(k='Constant', id='x', dur=4, amps=[['A', -1]])

    def add(label, nodes, roots, ops):
        nodes = [dict(n) for n in nodes]
        for nd in nodes:
            nd.setdefault('id', None)
        out.append({'kind': 'store', 'nodes': nodes, 'roots': roots, 'ops': ops, 'backend': G.BACKENDS[len(out) % 3],
                    'flags': ['dup_id', 'dupdoc'], 'label': 'dupdoc:' + label})
    add('siblings', [a, b, dict(k='Sequence', id='s', subs=[0, 1])], [2], [[0, 0]])
    add('second-below-anonymous', [a, b, dict(k='Repetition', body=1, count=2), dict(k='Sequence', id='s', subs=[0, 2])], [3], [[0, 0]])
    add('both-below-anonymous', [a, b, dict(k='Repetition', body=0, count=1), dict(k='TimeReversal', inner=1),
                                 dict(k='Sequence', id='s', subs=[2, 3, 2])], [4], [[0, 0]])
    add('first-stored-before', [a, b, dict(k='Sequence', id='s', subs=[0, 1])], [0, 2], [[0, 0], [0, 1]])
    add('second-stored-before', [a, b, dict(k='Sequence', id='s', subs=[0, 1])], [1, 2], [[0, 0], [0, 1]])
    add('arithmetic-atomic', [a, b, dict(k='ArithmeticAtomic', id='s', lhs=0, rhs=1, op='-')], [2], [[0, 0]])
    add('atomic-multi', [a, dict(b, amps=[['B', -1]]), dict(k='AtomicMulti', id='s', subs=[0, 1])], [2], [[0, 0]])
    add('same-object-twice-control', [a, dict(k='Sequence', id='s', subs=[0, 0])], [1], [[0, 0]])
    return out


# ---------------------------------------------------------------------------------------------------------------------
# round 6.  Class of seed C10-10: *the kind of relation of a parameter constraint*.  Before, the generator knew seven
# constraints, all of them <, <=, >, >= or == : the spelling a constraint is stored with (ParameterConstraint.__str__) was
# never exercised for an unequality, a logical combination, a negation, a constant relation, or a relation handed over as a
# sympy object / ParameterConstraint object.  Every relation kind x every constraint carrying class, with parameter
# assignments that satisfy and that violate each relation (the loaded pulse must reject exactly what the original rejects).
RELATIONS = [
    # (label, spelling handed to the constructor)
    ('ne', 'Ne(a, b)'), ('ne-obj', {'#sym': 'Ne(a, b)'}), ('ne-pc', {'#pc': 'Ne(a, b)'}), ('ne-expr', 'Ne(a + b, c)'),
    ('ne-const', 'Ne(a, 1)'), ('ne-only-here', 'Ne(q, r)'),
    ('eq', 'Eq(a, b)'), ('eq-text', 'a == b'), ('eq-obj', {'#sym': 'Eq(a, b)'}), ('eq-expr', 'a + b == c'),
    ('lt', 'a < b'), ('le', 'a <= b'), ('gt', 'a > b'), ('ge', 'a >= b'), ('lt-obj', {'#sym': 'a < b'}),
    ('and', 'And(a < b, b < c)'), ('and-op', '(a < b) & (b < c)'), ('or', 'Or(a < b, c < 1)'), ('or-ne', 'Or(a < b, Ne(b, c))'),
    ('and-ne', 'And(Ne(a, b), c > 0)'), ('not', 'Not(a < b)'), ('not-op', '~(a < b)'), ('not-eq', 'Not(Eq(a, b))'),
    ('xor', 'Xor(a < b, b < c)'), ('implies', 'Implies(a < b, c > 2)'), ('ite', 'ITE(a < b, c > 2, d > 0)'),
    ('abs', 'Abs(a - b) > 1/2'), ('max', 'Max(a, b) <= c'), ('rational', 'a < b + 1/3'), ('pow', 'a**2 <= b'),
    ('const-true', '1 < 2'), ('const-ne', 'Ne(1, 2)'),
]
# all equal / descending / a == b only / ascending with c small
CONSTRAINT_PROBES = [
    {'a': 1, 'b': 1, 'c': 1, 'd': 1, 'n': 1, 'v': 1, 'w': 1, 'q': 1, 'r': 1, 'i': 0, 'k': 1},
    {'a': 4, 'b': 3, 'c': 2, 'd': -1, 'n': 2, 'v': 0.5, 'w': 2, 'q': 2, 'r': 1, 'i': 0, 'k': 1},
    {'a': 2, 'b': 2, 'c': 5, 'd': 1, 'n': 1, 'v': -1, 'w': 0, 'q': 3, 'r': 3, 'i': 0, 'k': 1},
    {'a': 1, 'b': 2, 'c': 0, 'd': 2, 'n': 3, 'v': 2, 'w': 1, 'q': 0, 'r': 5, 'i': 0, 'k': 1},
]


def _constraint_carriers(cons):
    """(class label, nodes) - every class with a parameter_constraints argument, the constraint list on the last node"""
    leaf = dict(k='Table', entries=[['A', [[0, 0], [4, 'v', 'linear']]]])
    return [
        ('Table', [dict(leaf, parameter_constraints=cons)]),
        ('Point', [dict(k='Point', points=[[0, 0], [4, 'v', 'linear']], chans=['A'], parameter_constraints=cons)]),
        ('Function', [dict(k='Function', ex='v*t', dur=4, ch='A', parameter_constraints=cons)]),
        ('Sequence', [leaf, dict(k='Sequence', subs=[0, 0], parameter_constraints=cons)]),
        ('Repetition', [leaf, dict(k='Repetition', body=0, count=2, parameter_constraints=cons)]),
        ('ForLoop', [dict(k='Table', entries=[['A', [[0, 'i'], [4, 'v', 'linear']]]]),
                     dict(k='ForLoop', body=0, idx='i', rng=2, parameter_constraints=cons)]),
        ('Mapping', [leaf, dict(k='Mapping', tmpl=0, pmap=[['v', 'v*2']], parameter_constraints=cons)]),
        ('AtomicMulti', [leaf, dict(k='Constant', dur=4, amps=[['B', 1]]),
                         dict(k='AtomicMulti', subs=[0, 1], parameter_constraints=cons)]),
    ]


def constraint_cases(tier):
    out = []
    nclass = 8
    for ri, (rl, rel) in enumerate(RELATIONS):
        for ci, (cl, nodes) in enumerate(_constraint_carriers([rel])):
            # quick tier: every relation on two classes (rotating), the unequalities and the object spellings on every class
            if tier == 'quick' and not rl.startswith('ne') and (ci - ri) % nclass not in (0, 3):
                continue
            try:
                G.build(nodes)
            except Exception:   # noqa  the constructor rejects this spelling
                continue
            # known finding constraint_text_not_reparsable: Xor is printed with '^' (read as a power), a relation between
            # numbers is evaluated by the constructor and stored as 'True' (read as a python bool): the load fails loudly
            known = ['cons_text'] if rl in ('xor', 'const-true', 'const-ne') else []
            c = _case('%s:constraint=%s' % (cl, rl), nodes, len(out), flag='constraint', extra=['constraint-' + rl] + known)
            c['probes'] = CONSTRAINT_PROBES
            out.append(c)
    # two constraints, the unequality first / last; the same relation on a named child and on its parent
    for ci, (cl, nodes) in enumerate(_constraint_carriers(['Ne(a, b)', 'c > a'])):
        c = _case('%s:constraint=ne+gt' % cl, nodes, len(out), flag='constraint', extra=['constraint-list'])
        c['probes'] = CONSTRAINT_PROBES
        out.append(c)
    nodes = [dict(k='Function', id='f', ex='v*t', dur=4, ch='A', parameter_constraints=['Ne(a, b)']),
             dict(k='Sequence', subs=[0, 0], parameter_constraints=['a <= b', 'Ne(b, c)'])]
    c = _case('Sequence:constraint=child-and-parent', nodes, len(out), flag='constraint', extra=['constraint-list'])
    c['probes'] = CONSTRAINT_PROBES
    out.append(c)
    return out


# Class of the round-6 repair 53c32cc: *an explicit AtomicMultiChannelPT duration that compares equal to a bool* (0, 1, 0.0,
# 1.0, '0', '1'; stored as a number, and `1 in (True, False)` holds).  Every spelling of the values 0, 1, 2 and a parameter;
# the sub templates last as long as declared, so that the enforced duration can be instantiated.
def amcdur_cases(tier):
    out = []
    for val in (0, 1, 2):
        spellings = [('int', val), ('float', float(val)), ('str', str(val)), ('str-float', '%d.0' % val), ('expr', {'#expr': str(val)}),
                     ('np-int64', NP('int64', val)), ('np-float64', NP('float64', float(val)))]
        for sl, sp in spellings:
            for sub in ('const', 'param'):
                d = val if sub == 'const' else 'd'
                nodes = [dict(k='Constant', dur=d, amps=[['A', 1]]), dict(k='Constant', dur=d, amps=[['B', 'b']]),
                         dict(k='AtomicMulti', subs=[0, 1], dur=sp, measurements=[['m', 0, sp if sl in ('int', 'str') else 0]])]
                try:
                    G.build(nodes)
                except Exception:   # noqa
                    continue
                c = _case('AtomicMulti:duration=%s:%s:%s' % (sl, val, sub), nodes, len(out), flag='amcdur')
                c['probes'] = [{'d': val, 'b': 1}, {'d': val + 1, 'b': 1}]
                out.append(c)
                if sub == 'const' and sl in ('int', 'str', 'float'):      # below a composite, named (reference) and embedded
                    for named in (None, 'amc'):
                        n2 = copy.deepcopy(nodes)
                        n2[2]['id'] = named
                        n2.append(dict(k='Sequence', subs=[2, 2]))
                        c = _case('Sequence:of-AtomicMulti:duration=%s:%s:%s' % (sl, val, 'ref' if named else 'inline'), n2,
                                  len(out), flag='amcdur')
                        out.append(c)
    # deprecated boolean spellings: interpreted as "not declared" on both sides
    for b in (True, False):
        nodes = [dict(k='Constant', dur=1, amps=[['A', 1]]), dict(k='Constant', dur=1, amps=[['B', 'b']]),
                 dict(k='AtomicMulti', subs=[0, 1], xkw={'duration': b})]
        out.append(_case('AtomicMulti:duration=bool:%s' % b, nodes, len(out), flag='amcdur'))
    return out


def round6_cases(tier):
    return constraint_cases(tier) + amcdur_cases(tier)


def round5_cases(tier):
    return exprobj_cases(tier) + intval_cases(tier) + dupdoc_cases(tier)


def round4_cases(tier):
    """all deterministic families of round 4; the quick tier takes a fixed subsample of the large ones (every family, every
    class, every spelling stays represented), the thorough tier everything plus the small-scope exhaustive permutations"""
    if tier != 'quick':
        return (order_cases(tier) + rational_cases(tier) + numpy_cases(tier) + boundary_cases(tier) + offgrid_cases(tier))
    order = order_cases(tier)
    keep = [c for k, c in enumerate(order) if c['label'].startswith(('AtomicMulti', 'Sequence')) or k % 2 == 0]
    rat = [c for k, c in enumerate(rational_cases(tier)) if '1/3' in c['label'] or k % 3 == 0]
    return keep + rat + numpy_cases(tier)[::2] + boundary_cases(tier) + offgrid_cases(tier)[::4]
