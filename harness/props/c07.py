"""C07 — symbolic integral / initial / final values agree with the instantiated pulse; pad_to holds the final values."""
import fractions
import json
import os

import vlib
from vlib import gQ, gZ

import props.c07_gen as G
from props.c07_disc import pregen      # noqa: F401  translator step: coq/C07/GenDisc.v from the pulse template sources

F = fractions.Fraction
PID = 'C07'
COQ_DIRS = ['common', 'C07']
TARGETS = ['C07/Props.vo', 'C07/Corr.vo']
MODEL_TARGETS = ['C07/Corr.vo']
PROPS_FILE = 'C07/Props.v'
PROPS_MODULE = 'QV.C07.Props'
CORR_IMPORTS = ['QV.C07.Model', 'QV.C07.Spec', 'QV.C07.Embed', 'QV.C07.Corr']
CHECK_CORR = 'check_corr'
CHECK_SPEC = 'check_spec'
SHARD = 60
RULE = ('random template trees (depth <= 4) over table/point/constant/function(polynomial) atoms composed by sequence, '
        'repetition, for-loop (index dependent voltages and durations; range shapes empty / single / step not dividing '
        'the span / negative step / parametrised), mapping (simultaneous parameter substitution, channel rename/drop), '
        'atomic multi-channel, parallel-channel (constant and time dependent), scalar and pulse arithmetic; dyadic '
        'parameter values; for-loop range sweeps over small start/stop/step (thorough tier: exhaustive start -4..4, stop '
        '-4..5, step +-{1,2,3} under 9 loop-carrying wrappers, plus fully symbolic ranges); ArithmeticPT with time '
        'dependent scalars (+/- embedded in the model, * over constant/polynomial atoms embedded as the product polynomial, * over '
        'tables Python oracle only); a small malformed stream (missing parameter); round 3: an ALIASING / HISTORY stream - '
        'forests of templates that SHARE sub-template objects (one index dependent building block under loops over different '
        'ranges, a repeated loop, the block alone, the block twice in one sequence / arithmetic atom, mappings that rebind '
        'the loop index, parallel channels, dict and time dependent scalars; random forests cut out of random trees; thorough: '
        'every ordered pair of enclosing classes per building block), each replayed with a query history (forward, backward, '
        'every query twice with pad_to in between, random with create_program) on the shared objects: every answer, every '
        'dictionary handed out earlier (re-read at the end) and the post-history observation of every root must equal the '
        'answer of a freshly built unshared copy queried once; deterministic families for parameters as table/point entry '
        'TIMES (first entry in particular), the longest channel dropped/renamed by a mapping, a mapping that rebinds the '
        'loop index to an expression of itself, swap/shift/cyclic mappings, parameters called t, declared-empty scalar / '
        'overwrite dictionaries, the same template twice; round 4 (deterministic): for-loop ranges whose iteration count '
        'ceiling((stop-start)/step) is exactly 0 / -1 / 1 (numeric, symbolic, half-symbolic bounds, bodies with non-zero '
        'integral and duration at the start index, 9 wrappers); time dependent scalars with s(0) != s(duration) for every '
        'operator (+ - * and template / scalar), operand order, scalar form and atom kind, bare / in sequences / loops / '
        'repetitions (for / only duration and the two end values are observed); mappings that send a parameter to an '
        'expression of a name bound by an inner loop, loop ranges that mention the loop index\'s own name (round 6: strict, judged by the Coq model); round 6: outer loop '
        'ranges that mention a parameter named like an INNER loop\'s index (third capture site, repaired c936965), strict sub-mappings '
        'as left operand of scalar - template, tables / point pulses constant up to a jump entry (classes of seeds C07-9/10); '
        'coverage-driven: time dependent scalars over point / multi-channel / pulse-arithmetic / mapped atoms, MappingPT / '
        'ArithmeticPT inside atomic parents, python numbers as ConstantPT arguments, declared multi-channel duration, pad_to '
        'with a callable / pt_kwargs / the current duration; round 5 (deterministic): inputs inside the input class of each '
        'known finding next to a healthy channel / non-empty neighbours (a negative ConstantPT duration or symbolic repetition '
        'count first / in the middle / last / mapped / as one loop iteration; channels overwritten by a ParallelChannelPT below '
        'scalar arithmetic next to untouched ones, renamed, in loops; tables of the former finding table-constant-detection; '
        'empty first / last parts), so that classify - which explains a failure CLAUSE BY CLAUSE and channel by channel - '
        'is exercised where a finding applies.  Observation: '
        'integral/initial_values/final_values/duration evaluated exactly (sympy rationals), the real program of '
        'create_program integrated leaf by leaf with an open 3-point rule on a 1/16 grid (exact for piecewise cubics with '
        'breakpoints on the grid; cross-checked on a 1/8 grid), its first and last samples, and the program of '
        'pad_to(total+pad) sampled in the padded region.  check_corr additionally demands wf(p) for every strict case '
        'and that the classifier\'s guard predicates equal the Coq guards.  Non-trivial = contains a for-loop or a mapping '
        'or nesting depth >= 3.')
TRUSTED = [
    'Coq 8.16.1 kernel + vm_compute (no native_compute)',
    'sympy: Sum/Max/ceiling/floor/sign/Piecewise/subs/integrate evaluate as the model nodes '
    'ESum/EMax/ECeil/EFloor/esign/EIfLe/ELet and the term-wise antiderivative do (oracle; validated on every generated '
    'case by check_corr)',
    'harness: generators, Gallina printers, leaf walker and the open Newton-Cotes integrator over get_sampled output',
    'numpy float arithmetic is exact on the generated dyadic inputs (checked per case: samples must be dyadic, two grids agree)',
    'the Python oracle (py_spec) for time dependent scalars multiplied with TABLE / point / composite atoms and for template / '
    'time dependent scalar (no Coq model); + and -, and * over constant / polynomial atoms are embedded in the model '
    '(round 6: for-loops whose range mentions the loop index\'s own name are inside Wf.wf and judged by the model)',
    'harness/props/c07_disc.py: the fail-closed AST dataflow analysis that writes coq/C07/GenDisc.v (which dictionary object '
    'a property returns); pad_to call styles (callable / pt_kwargs / current duration) are compared with the plain call in Python',
    'the aliasing / history stream compares the real code with itself (shared and queried repeatedly vs freshly built and '
    'queried once) in Python; the post-history observations additionally go through check_corr / check_spec',
    'classify (c07_gen.py): the Python mirrors of the two proven guards (cross-checked against Coq per strict case) and the '
    'not cross-checked helpers raw_duration / tainted_channels that decide which failing clause a known finding may explain',
]
ASSUMPTIONS = [
    'the theorems are about templates satisfying Wf.wf (what the constructors of the real classes enforce; round 6: a loop '
    'range may mention the loop index\'s own name, the model binds the Sum over a fresh name like ForLoopPulseTemplate._sum_index); '
    'check_corr verifies wf on every generated strict case',
    'the instantiated pulse of the theorems is Spec.denote; that the real program equals it (duration, exact integral, '
    'samples at 0 and 1/32 before the end, padded region) is checked per generated case, not proved; denote = Some excludes '
    'negative durations / counts (finding), FunctionPT of duration <= 0, atomic parents over empty or unequal operands, '
    'more than 4096 iterations',
    'the history theorems are about the model\'s dictionary-object discipline and assume templates hold no mutable state; '
    'the AST analysis rejects a write to / return of a stored attribute, the history stream tests it',
    'definedness (the symbolic value evaluates to a number) is proved under Def.guard_C07_defined: the parts the program '
    'never instantiates (values of an empty ConstantPT, body of a zero-fold repetition / of a loop over an empty range) '
    'would be instantiable too and no scalar divisor is 0; without that guard it is a hypothesis of the theorems',
    'function atoms are polynomials in t (degree <= 3); transcendental atoms are not covered',
    'time dependent scalar operands of ArithmeticPT: + and - are embedded in the Coq model (pulse-with-pulse arithmetic with '
    'a polynomial FunctionPT per scalar channel), * over a ConstantPT / polynomial FunctionPT is embedded as the product '
    'polynomial (Embed.arith_tm), * over tables is outside the model (Python-oracle stream), / is not covered; '
    'measurements/constraints are outside the model',
    'the model substitutes capture free (ELet evaluates bindings in the outer environment); sympy.subs into a ForLoopPT '
    'Sum(...) was not (former known finding mapping-captures-loop-index); since the /repo repair 7d773a1 (clashing bound '
    'symbols renamed to sympy.Dummy) such inputs are ordinary strict cases',
    'the object discipline of Hist.v (which dictionary object a query returns / rewrites) is tied to the source by the '
    'generated table GenDisc.src_disc (C07_hquery_follows_source_discipline, re-proved on every run) and by the aliasing / '
    'history stream; the dictionary VALUES hquery stores are tied by the correspondence only',
    'the fresh sum index of the model (successor of the largest name written in range and summand) stands for sympy.Dummy; '
    'that the two evaluate alike is validated per case (range-mentions-index, range-param-is-inner-index families)',
    'the end voltage of a table/point pulse is the value of its last entry (for a trailing hold step that level is '
    'specified but not played for a positive time)',
]

gen_cases = G.gen_cases

CH = {'A': 1, 'B': 2, 'C': 3, 'D': 4, 'E': 5}
EXPECTED_ERRORS = ('ParameterNotProvidedException', 'ParameterConstraintViolation', 'ValueError', 'KeyError',
                   'ParameterNotIntegerException', 'NonNumericEvaluation', 'ExpressionVariableMissingException')


# ---------------------------------------------------------------------------------------------------------------------
# case -> real template

def estr(e):
    k = e[0]
    if k == 'c':
        f = F(e[1])
        return str(f.numerator) if f.denominator == 1 and f >= 0 else '(%s)' % f
    if k == 'v':
        return e[1]
    if k == 'neg':
        return '(-%s)' % estr(e[1])
    return '(%s %s %s)' % (estr(e[1]), k, estr(e[2]))


def poly_str(coefs):
    terms = []
    for k, c in enumerate(coefs):
        terms.append(estr(c) if k == 0 else '%s*t' % estr(c) if k == 1 else '%s*t**%d' % (estr(c), k))
    return ' + '.join(terms)


def build(t, refs=None):
    """case tree -> real template.  A node {'ref': k} stands for the k-th object of a forest's pool: `refs(k)` returns
    that (memoised) OBJECT, so the same sub-template object is shared by every template that refers to it."""
    if 'ref' in t:
        return refs(t['ref'])
    return _build_node(t, lambda x: build(x, refs))


def _build_node(t, build):
    import qupulse.pulses as qp
    from qupulse.pulses.multi_channel_pulse_template import ParallelChannelPulseTemplate
    from qupulse.pulses.arithmetic_pulse_template import ArithmeticPulseTemplate, ArithmeticAtomicPulseTemplate
    k = t['k']
    if k == 'table':
        return qp.TablePT({c: [(estr(e[0]), estr(e[1]), e[2]) for e in es] for c, es in t['ch'].items()})
    if k == 'point':
        ents = []
        for e in t['ents']:
            v = e[1]
            ents.append((estr(e[0]), estr(v['s']) if 's' in v else tuple(estr(x) for x in v['vec']), e[2]))
        return qp.PointPT(ents, list(t['cs']))
    if k == 'const':
        if t.get('num'):       # python numbers instead of strings (the duck-typed fast paths of ConstantPT)
            def num(e):
                f = F(e[1])
                return int(f) if f.denominator == 1 else float(f)
            return qp.ConstantPT(num(t['d']), {c: num(v) for c, v in t['vals'].items()})
        return qp.ConstantPT(estr(t['d']), {c: estr(v) for c, v in t['vals'].items()})
    if k == 'func':
        return qp.FunctionPT(poly_str(t['coef']), estr(t['d']), t['c'])
    if k == 'seq':
        return qp.SequencePT(*[build(s) for s in t['ps']])
    if k == 'rep':
        return qp.RepetitionPT(build(t['b']), estr(t['n']))
    if k == 'for':
        return qp.ForLoopPT(build(t['b']), t['i'], (estr(t['start']), estr(t['stop']), estr(t['step'])))
    if k == 'map':
        return qp.MappingPT(build(t['b']), parameter_mapping={x: estr(e) for x, e in t['pm'].items()},
                            channel_mapping=dict(t['cm']), allow_partial_parameter_mapping=True)
    if k == 'multi':
        if 'dur' in t:         # explicitly declared duration (must equal the sub-templates' at instantiation)
            return qp.AtomicMultiChannelPT(*[build(s) for s in t['ps']], duration=estr(t['dur']))
        return qp.AtomicMultiChannelPT(*[build(s) for s in t['ps']])
    if k == 'par':
        return ParallelChannelPulseTemplate(build(t['b']), {c: poly_str(cf) for c, cf in t['ov'].items()})
    if k in ('arithl', 'arithr'):
        s = t['s']
        if 'allt' in s:                   # time dependent scalar: polynomial in t (coefficient list)
            sc = poly_str(s['allt'])
        elif 'mapt' in s:
            sc = {c: poly_str(cf) for c, cf in s['mapt'].items()}
        else:
            sc = estr(s['all']) if 'all' in s else {c: estr(e) for c, e in s['map'].items()}
        if k == 'arithl':
            return ArithmeticPulseTemplate(build(t['b']), t['op'], sc)
        return ArithmeticPulseTemplate(sc, t['op'], build(t['b']))
    if k == 'aatom':
        return ArithmeticAtomicPulseTemplate(build(t['l']), t['op'], build(t['r']))
    raise ValueError(k)


# ---------------------------------------------------------------------------------------------------------------------
# observation

def _exact(expr, params):
    """Evaluate a qupulse expression (or number) exactly at rational parameter values; None = not a number."""
    import sympy
    s = expr.sympified_expression if hasattr(expr, 'sympified_expression') else sympy.sympify(expr)
    sub = {sympy.Symbol(n): sympy.Rational(v.numerator, v.denominator) for n, v in params.items()}
    try:
        r = s.subs(sub)
        r = r.doit()
        if hasattr(r, 'simplify') and not r.is_Rational and not r.free_symbols:
            r = sympy.nsimplify(r, rational=True) if r.is_Float else r.simplify()
    except (ZeroDivisionError, TypeError, ValueError):
        return None
    if getattr(r, 'is_Rational', False):
        return F(int(r.p), int(r.q))
    if getattr(r, 'is_Float', False):
        return F(*float(r).as_integer_ratio())
    return None


SCALE = 2.0 ** 40


def _ints(arr):
    import numpy as np
    sc = arr * SCALE
    if not np.all(np.isfinite(sc)) or not np.all(sc == np.floor(sc)):
        raise Inexact()
    return [int(x) for x in sc]


class Inexact(Exception):
    pass


def _leaves(loop):
    if loop.is_leaf():
        for _ in range(int(loop.repetition_count)):
            yield loop.waveform
    else:
        for _ in range(int(loop.repetition_count)):
            for ch in loop:
                yield from _leaves(ch)


def _milne(wf, channel, gden):
    """Exact integral of a piecewise cubic with breakpoints on the 1/gden grid: per cell h/3*(2 f(h/4) - f(h/2) + 2 f(3h/4))."""
    import numpy as np
    d = vlib.to_fraction(wf.duration)
    ncell = d * gden
    if ncell.denominator != 1:
        raise Inexact()
    n = int(ncell)
    k = np.arange(n, dtype=float)
    g = 1.0 / gden
    total = 0
    for off, w in ((0.25, 2), (0.5, -1), (0.75, 2)):
        ts = (k + off) * g
        vals = wf.get_sampled(channel, ts)
        total += w * sum(_ints(np.asarray(vals, dtype=float)))
    return F(total, 2 ** 40) * F(1, gden) / 3


def _program_obs(prog, channels, noint=False):
    import numpy as np
    lv = list(_leaves(prog))
    res = {}
    for c in channels:
        r0 = F(_ints(np.asarray(lv[0].get_sampled(c, np.array([0.0])), dtype=float))[0], 2 ** 40)
        if noint:       # template / time dependent scalar: a rational function of t, only the two ends are observed
            rend = F(_ints(np.asarray(lv[-1].get_sampled(c, np.array([float(lv[-1].duration)])), dtype=float))[0], 2 ** 40)
            res[c] = (None, r0, None, rend)
            continue
        i16 = sum(_milne(w, c, 16) for w in lv)
        i8 = sum(_milne(w, c, 8) for w in lv)
        if i16 != i8:
            raise Inexact()
        dl = float(lv[-1].duration) - 1.0 / 32
        re = F(_ints(np.asarray(lv[-1].get_sampled(c, np.array([dl])), dtype=float))[0], 2 ** 40)
        rend = F(_ints(np.asarray(lv[-1].get_sampled(c, np.array([float(lv[-1].duration)])), dtype=float))[0], 2 ** 40)
        res[c] = (i16, r0, re, rend)
    return res, lv


def _create(pt, params, malformed=False):
    pv = {n: (int(v) if v.denominator == 1 else float(v)) for n, v in params.items()}
    try:
        return 'ok', pt.create_program(parameters=pv)
    except Exception as e:
        # a missing parameter under a time dependent transformation surfaces as AssertionError (malformed stream only)
        if type(e).__name__ in EXPECTED_ERRORS or (malformed and isinstance(e, AssertionError)):
            return 'err', type(e).__name__
        raise


def run_impl(case):
    import warnings
    import numpy as np
    try:
        with vlib.time_limit(60), warnings.catch_warnings():
            warnings.simplefilter('ignore')
            return _run(case, np)
    except vlib.Timeout:
        return {'hang': True}
    except Inexact:
        return {'crash': 'inexact: samples not dyadic / off-grid breakpoints (harness precondition)'}
    except Exception as e:
        import traceback
        return {'crash': '%s: %s @ %s' % (type(e).__name__, e, traceback.format_exc().strip().split('\n')[-3][:120])}


def _run(case, np):
    params = {n: F(v) for n, v in case['params'].items()}
    if 'forest' in case:
        return _forest_run(case, params, np)[case['target']]
    return _observe(build(case['pt']), params, case, np)


def _observe(pt, params, case, np):
    chans = sorted(pt.defined_channels)
    integ, ini, fin = pt.integral, pt.initial_values, pt.final_values
    obs = {'chans': chans, 'sdur': _fj(_exact(pt.duration, params)), 'ch': {}}
    for c in chans:
        obs['ch'][c] = {'sint': _fj(_exact(integ[c], params)) if c in integ else None,
                        'sini': _fj(_exact(ini[c], params)) if c in ini else None,
                        'sfin': _fj(_exact(fin[c], params)) if c in fin else None}
    st, prog = _create(pt, params, case.get('src') == 'malformed')
    if st == 'err':
        obs['real'] = 'err'
        obs['errkind'] = prog
        return obs
    if prog is None:
        obs['real'] = 'none'
        return obs
    ro, lv = _program_obs(prog, chans, bool(case.get('noint')))
    total = sum(vlib.to_fraction(w.duration) for w in lv)
    obs['real'] = _fj(total)
    for c in chans:
        obs['ch'][c].update(rint=_fj(ro[c][0]), r0=_fj(ro[c][1]), rlate=_fj(ro[c][2]), rend=_fj(ro[c][3]))
    # pad_to
    pad = F(case.get('pad', '2'))
    target = total + pad
    try:
        padded = pt.pad_to(str(target) if target.denominator == 1 else '(%s)' % target)
        st2, pprog = _create(padded, params)
    except Exception as e:
        if type(e).__name__ in EXPECTED_ERRORS + ('TypeError',):
            st2, pprog = 'err', type(e).__name__
        else:
            raise
    if st2 == 'err':
        obs['padded'] = 'err'
    elif pprog is None:
        obs['padded'] = 'none'
    else:
        plv = list(_leaves(pprog))
        pos = F(0)
        for c in chans:
            obs['ch'][c]['pad'] = []
        for w in plv:
            d = vlib.to_fraction(w.duration)
            if pos >= total:
                ts = np.array([0.0, float(d) / 2, float(d) * 0.75])
                for c in chans:
                    obs['ch'][c]['pad'].extend(_fj(F(x, 2 ** 40)) for x in _ints(np.asarray(w.get_sampled(c, ts), dtype=float)))
            pos += d
        obs['padded'] = _fj(pos)
    if case.get('padx'):
        obs['padx_mismatch'] = _pad_variants(pt, params, total, target, obs, chans, np)
    return obs


def _pad_variants(pt, params, total, target, obs, chans, np):
    """the other ways to call pad_to (round 4, coverage audit): a callable new duration, pt_kwargs, and a target that IS
    the current duration; the first two must give the program of the plain call (which is checked against the
    specification), the last one the unpadded pulse"""
    out = []
    tstr = str(target) if target.denominator == 1 else '(%s)' % target
    pad = target - total

    def sample(p2):
        st, prog = _create(p2, params)
        if st == 'err' or prog is None:
            return st if st == 'err' else 'none'
        res, pos = {c: [] for c in chans}, F(0)
        for w in _leaves(prog):
            d = vlib.to_fraction(w.duration)
            if pos >= total:
                ts = np.array([0.0, float(d) / 2, float(d) * 0.75])
                for c in chans:
                    res[c].extend(_fj(F(x, 2 ** 40)) for x in _ints(np.asarray(w.get_sampled(c, ts), dtype=float)))
            pos += d
        return [_fj(pos), res]
    plain = 'err' if obs.get('padded') == 'err' else 'none' if obs.get('padded') == 'none' else \
        [obs['padded'], {c: obs['ch'][c]['pad'] for c in chans}]
    variants = {'callable': lambda: pt.pad_to(lambda d: d + (int(pad) if pad.denominator == 1 else float(pad))),
                'pt_kwargs': lambda: pt.pad_to(tstr, pt_kwargs={'identifier': 'padded_by_kwargs'})}
    for name, mk in variants.items():
        try:
            got = sample(mk())
        except Exception as e:
            got = 'raised %s' % type(e).__name__
        if got != plain and not (plain == 'err' and str(got).startswith('raised')):
            out.append('pad_to(%s) plays %s, pad_to(<expression>) plays %s' % (name, got, plain))
    try:                      # target == current duration: nothing may be appended
        same = pt.pad_to(str(total) if total.denominator == 1 else '(%s)' % total)
        st, prog = _create(same, params)
        d0 = None if st == 'err' or prog is None else vlib.to_fraction(prog.duration)
        if d0 != total:
            out.append('pad_to(current duration %s) lasts %s' % (total, d0))
    except Exception as e:
        out.append('pad_to(current duration) raised %s' % type(e).__name__)
    return out[:3]


def _fj(x):
    return None if x is None else vlib.frac_json(x)


# ---------------------------------------------------------------------------------------------------------------------
# aliasing / history stream: several templates built from SHARED sub-template objects, queried in a given order

_FOREST_CACHE = {}
QUERIES = ('integral', 'initial', 'final', 'duration', 'pad', 'program')


def _query(pt, q, params, raw=None):
    """one query of the history; the answer evaluated exactly at the parameters (JSON-able)"""
    def ev_dict(d):
        if raw is not None:
            raw.append(d)
        return {str(c): _fj(_exact(v, params)) for c, v in sorted(d.items(), key=lambda kv: str(kv[0]))}
    if q == 'integral':
        return ev_dict(pt.integral)
    if q == 'initial':
        return ev_dict(pt.initial_values)
    if q == 'final':
        return ev_dict(pt.final_values)
    if q == 'duration':
        return _fj(_exact(pt.duration, params))
    if q == 'pad':          # pad_to queries duration and final_values and keeps the returned dictionary
        d = _exact(pt.duration, params)
        if d is None:
            return None
        padded = pt.pad_to('(%s)' % (d + 3))
        return [ev_dict(padded.final_values), ev_dict(padded.integral), _fj(_exact(padded.duration, params))]
    if q == 'program':
        st, prog = _create(pt, params)
        return st if st == 'err' or prog is None else _fj(vlib.to_fraction(prog.duration))
    raise ValueError(q)


def _forest_run(case, params, np):
    """Builds the forest ONCE (pool objects shared between the roots), replays the query history on the shared objects,
    observes every root afterwards (exactly as a single-template case is observed) and compares every answer of the
    history - and every dictionary handed out earlier, re-read at the end - with the answer of a freshly built, unshared
    copy of the same root queried once.  Returns one observation per root."""
    f = case['forest']
    key = json.dumps([f, case['params'], case.get('pad')], sort_keys=True)
    if key in _FOREST_CACHE:
        return _FOREST_CACHE[key]
    pool, objs = f['pool'], {}

    def get(k):
        if k not in objs:
            objs[k] = build(pool[k], get)
        return objs[k]
    roots = [get(k) for k in f['roots']]
    log, held = [], []
    for j, q in f['history']:
        raw = []
        ans = _query(roots[j], q, params, raw)
        log.append((j, q, ans))
        if q in ('integral', 'initial', 'final'):
            held.append((j, q, raw[0], ans))
    obs = [_observe(r, params, case, np) for r in roots]
    mism = [[] for _ in roots]
    fresh = {}
    for j, k in enumerate(f['roots']):
        tree = G.expand(pool[k], pool)
        for q in QUERIES:
            if q in ('program', 'pad') and not any(h[1] == q and h[0] == j for h in f['history']):
                continue
            fresh[j, q] = _query(build(tree), q, params)       # a fresh, unshared object per query
        o = obs[j]
        post = {'integral': {c: o['ch'][c]['sint'] for c in o['chans']}, 'initial': {c: o['ch'][c]['sini'] for c in o['chans']},
                'final': {c: o['ch'][c]['sfin'] for c in o['chans']}, 'duration': o['sdur']}
        for q, a in post.items():
            if a != fresh[j, q]:
                mism[j].append('after the history %s = %s, on a freshly built equal template %s' % (q, a, fresh[j, q]))
    for step, (j, q, ans) in enumerate(log):
        if ans != fresh[j, q]:
            mism[j].append('history step %d: %s = %s, on a freshly built equal template %s' % (step, q, ans, fresh[j, q]))
    for j, q, d, ans in held:
        again = {str(c): _fj(_exact(v, params)) for c, v in sorted(d.items(), key=lambda kv: str(kv[0]))}
        if again != ans:
            mism[j].append('the %s dictionary handed out earlier changed afterwards: %s -> %s' % (q, ans, again))
    for j, o in enumerate(obs):
        o['hist_mismatch'] = mism[j][:4]
    _FOREST_CACHE.clear()            # keep one forest
    _FOREST_CACHE[key] = obs
    return obs


# ---------------------------------------------------------------------------------------------------------------------
# Gallina

def names_of(case):
    """variable name -> N id (0 is t)"""
    names = set(case['params'])

    def walk_e(e):
        if e[0] == 'v':
            names.add(e[1])
        elif e[0] != 'c':
            for x in e[1:]:
                walk_e(x)

    def walk(t):
        k = t['k']
        if k == 'table':
            for es in t['ch'].values():
                for e in es:
                    walk_e(e[0]); walk_e(e[1])
        elif k == 'point':
            for e in t['ents']:
                walk_e(e[0])
                for x in ([e[1]['s']] if 's' in e[1] else e[1]['vec']):
                    walk_e(x)
        elif k == 'const':
            walk_e(t['d'])
            for v in t['vals'].values():
                walk_e(v)
        elif k == 'func':
            walk_e(t['d'])
            for c in t['coef']:
                walk_e(c)
        elif k in ('seq', 'multi'):
            if 'dur' in t:
                walk_e(t['dur'])
            for s in t['ps']:
                walk(s)
        elif k == 'rep':
            walk_e(t['n']); walk(t['b'])
        elif k == 'for':
            names.add(t['i'])
            for f in ('start', 'stop', 'step'):
                walk_e(t[f])
            walk(t['b'])
        elif k == 'map':
            for x, e in t['pm'].items():
                names.add(x); walk_e(e)
            walk(t['b'])
        elif k == 'par':
            for cf in t['ov'].values():
                for c in cf:
                    walk_e(c)
            walk(t['b'])
        elif k in ('arithl', 'arithr'):
            s = t['s']
            if 'allt' in s or 'mapt' in s:
                for cf in ([s['allt']] if 'allt' in s else s['mapt'].values()):
                    for e in cf:
                        walk_e(e)
            else:
                for e in ([s['all']] if 'all' in s else s['map'].values()):
                    walk_e(e)
            walk(t['b'])
        elif k == 'aatom':
            walk(t['l']); walk(t['r'])
    walk(case['pt'])
    names.discard('t')
    nm = {n: i + 1 for i, n in enumerate(sorted(names))}
    nm['t'] = 0           # a parameter / loop index that is called t IS the model's time variable (as in sympy)
    return nm


BIN = {'+': 'EAdd', '-': 'ESub', '*': 'EMul', '/': 'EDiv'}
OPS = {'+': 'OAdd', '-': 'OSub', '*': 'OMul', '/': 'ODiv'}
IP = {'hold': 'IHold', 'jump': 'IJump', 'linear': 'ILin'}


def g_expr(e, nm):
    k = e[0]
    if k == 'c':
        return '(EC %s)' % gQ(F(e[1]))
    if k == 'v':
        return '(EV %d%%N)' % (0 if e[1] == 't' else nm[e[1]])
    if k == 'neg':
        return '(ENeg %s)' % g_expr(e[1], nm)
    return '(%s %s %s)' % (BIN[k], g_expr(e[1], nm), g_expr(e[2], nm))


def g_chan(c):
    return '%d%%N' % CH[c]


def g_list(xs):
    return '[' + '; '.join(xs) + ']'


def g_dict(d, nm):
    return g_list('(%s, %s)' % (g_chan(c), g_expr(e, nm)) for c, e in d.items())


def g_pt(t, nm):
    k = t['k']
    if k == 'table':
        return '(Table %s)' % g_list(
            '(%s, %s)' % (g_chan(c), g_list('(%s, %s, %s)' % (g_expr(e[0], nm), g_expr(e[1], nm), IP[e[2]]) for e in es))
            for c, es in t['ch'].items())
    if k == 'point':
        ents = []
        for e in t['ents']:
            v = e[1]
            pv = '(PScalar %s)' % g_expr(v['s'], nm) if 's' in v else '(PVec %s)' % g_list(g_expr(x, nm) for x in v['vec'])
            ents.append('(%s, %s, %s)' % (g_expr(e[0], nm), pv, IP[e[2]]))
        return '(Point %s %s)' % (g_list(g_chan(c) for c in t['cs']), g_list(ents))
    if k == 'const':
        return '(Const %s %s)' % (g_expr(t['d'], nm), g_dict(t['vals'], nm))
    if k == 'func':
        return '(Func %s %s %s)' % (g_chan(t['c']), g_expr(t['d'], nm), g_list(g_expr(c, nm) for c in t['coef']))
    if k == 'seq':
        return '(Seq %s)' % g_list(g_pt(s, nm) for s in t['ps'])
    if k == 'rep':
        return '(Rep %s %s)' % (g_expr(t['n'], nm), g_pt(t['b'], nm))
    if k == 'for':
        return '(For %d%%N %s %s %s %s)' % (nm[t['i']], g_expr(t['start'], nm), g_expr(t['stop'], nm),
                                           g_expr(t['step'], nm), g_pt(t['b'], nm))
    if k == 'map':
        return '(Map %s %s %s)' % (
            g_pt(t['b'], nm), g_list('(%d%%N, %s)' % (nm[x], g_expr(e, nm)) for x, e in t['pm'].items()),
            g_list('(%s, %s)' % (g_chan(a), 'None' if b is None else '(Some %s)' % g_chan(b)) for a, b in t['cm']))
    if k == 'multi':
        return '(Multi %s)' % g_list(g_pt(s, nm) for s in t['ps'])
    if k == 'par':
        return '(Par %s %s)' % (g_pt(t['b'], nm), g_list('(%s, %s)' % (g_chan(c), g_list(g_expr(x, nm) for x in cf))
                                                          for c, cf in t['ov'].items()))
    if k in ('arithl', 'arithr') and ('allt' in t['s'] or 'mapt' in t['s']):
        # time dependent scalar: + / - embedded as pulse-with-pulse arithmetic (Corr.arith_tl), * over const/func as a product
        s = t['s']
        cfs = {c: s['allt'] for c in G.out_channels(t['b'])} if 'allt' in s else s['mapt']
        gl = g_list('(%s, %s)' % (g_chan(c), g_list(g_expr(x, nm) for x in cf)) for c, cf in cfs.items())
        if t['op'] == '*':          # over a constant / polynomial atom: the product polynomial (Corr.arith_tm)
            return '(arith_tm %s %s)' % (g_pt(t['b'], nm), gl)
        if k == 'arithl':
            return '(arith_tl %s %s %s)' % (g_pt(t['b'], nm), OPS[t['op']], gl)
        return '(arith_tr %s %s %s)' % (gl, OPS[t['op']], g_pt(t['b'], nm))
    if k in ('arithl', 'arithr'):
        s = t['s']
        sc = '(SAll %s)' % g_expr(s['all'], nm) if 'all' in s else '(SMap %s)' % g_dict(s['map'], nm)
        if k == 'arithl':
            return '(ArithL %s %s %s)' % (g_pt(t['b'], nm), OPS[t['op']], sc)
        return '(ArithR %s %s %s)' % (sc, OPS[t['op']], g_pt(t['b'], nm))
    if k == 'aatom':
        return '(AAtom %s %s %s)' % (g_pt(t['l'], nm), OPS[t['op']], g_pt(t['r'], nm))
    raise ValueError(k)


def g_oq(x):
    return 'None' if x is None else '(Some %s)' % gQ(F(x))


def g_real(x):
    return 'RErr' if x == 'err' else 'RNone' if x == 'none' else '(ROk %s)' % gQ(F(x))


def to_coq(case, obs):
    if 'crash' in obs or 'hang' in obs:
        return 'CCrash'
    if case.get('kind') == 'tdarith' and not G.embeddable(case['pt']):
        return 'CExtern'          # time dependent scalar with * over a table or / : not modelled, Python oracle only (py_spec)
    if case.get('extern'):
        return 'CExtern'          # explicitly marked: Python oracle only (no generator sets this any more, round 6)
    nm = names_of(case)
    rho = g_list('(%d%%N, %s)' % (nm[n], gQ(F(v))) for n, v in sorted(case['params'].items()))
    chobs = []
    for c in obs['chans']:
        o = obs['ch'][c]
        chobs.append('(Build_chobs %s %s %s %s %s %s %s %s)' % (
            g_chan(c), g_oq(o['sint']), g_oq(o['sini']), g_oq(o['sfin']), gQ(F(o.get('rint', 0))), gQ(F(o.get('r0', 0))),
            gQ(F(o.get('rlate', 0))), g_list(gQ(F(x)) for x in o.get('pad', []))))
    gi, gt = G.guard_flags(case)
    malformed = case.get('src') == 'malformed'
    cp = '(CPulse %s %s %s %s %s %s %s %s %s %s)' % (g_pt(case['pt'], nm), rho, g_oq(obs['sdur']), g_real(obs['real']),
                                                     g_list(chobs), gQ(F(case.get('pad', '2'))),
                                                     g_real(obs.get('padded', 'none')),
                                                     'false' if malformed else 'true',
                                                     'true' if gi else 'false', 'true' if gt else 'false')
    # malformed stream, the program exists although a parameter is missing (the code never evaluates the value of a channel
    # a MappingPT drops; Spec.denote is strict): the denotation is taken under the parameters completed with 1 (Corr.CLazy)
    missing = sorted(n for n in G.free_vars(case['pt']) if n not in case['params'] and n in nm)
    if malformed and obs['real'] not in ('err', 'none') and missing:
        return '(CLazy %s %s)' % (g_list('(%d%%N, %s)' % (nm[n], gQ(F(1))) for n in missing), cp)
    return cp


# ---------------------------------------------------------------------------------------------------------------------

def _kinds(t, acc, depth=1):
    acc.append(t['k'])
    d = depth
    for key in ('b', 'l', 'r'):
        if key in t:
            d = max(d, _kinds(t[key], acc, depth + 1))
    for s in t.get('ps', []):
        d = max(d, _kinds(s, acc, depth + 1))
    return d


def nontrivial(case, obs):
    acc = []
    d = _kinds(case['pt'], acc)
    return 'for' in acc or 'map' in acc or d >= 3


def histogram_keys(case, obs):
    acc = []
    d = _kinds(case['pt'], acc)
    keys = ['depth:%d' % d] + ['node:' + k for k in sorted(set(acc))]
    keys.append('src:' + case.get('src', 'random'))
    if case.get('kind') == 'tdarith':
        keys.append('tdarith:' + ('embedded-in-model' if G.embeddable(case['pt']) else 'python-oracle-only'))
    if case.get('extern'):
        keys.append('extern:python-oracle-only')
    gi, gt = G.guard_flags(case)
    keys.append('guards:%s%s' % ('' if gi else 'initial-head-violated ', '' if gt else 'final-tail-violated') if not (gi and gt)
                else 'guards:all-hold')
    for sh in case.get('shapes', []):
        keys.append('range:' + sh)
    if 'crash' in obs or 'hang' in obs:
        keys.append('obs:crash')
    else:
        keys.append('obs:real=' + (obs['real'] if obs['real'] in ('err', 'none') else 'ok'))
    return keys


def classify(case, obs):
    if obs.get('hist_mismatch') or obs.get('padx_mismatch'):
        return None             # a history dependent answer / disagreeing pad_to call styles are never explained by a known finding
    return G.classify(case, obs)


def search_failing(ctx, broken):
    """Spec oracle straight on the implementation: exhaustive small for-loop ranges over an index dependent body (bare
    and under the loop-carrying wrappers), and the generated stream; the property is checked in Python (symbolic value
    == quantity of the instantiated pulse)."""
    import random
    rng = random.Random(12345)
    cases = G.range_sweep(4) + G.range_sweep(3, -3, G.WRAPPERS[1:]) + G.gen_cases(rng, 'quick', ctx)
    known, _ = vlib.load_known_findings()
    known = known.get(PID, {})
    for c in cases:
        o = run_impl(c)
        why = py_property(c, o)
        if why and classify(c, o) not in known:
            return c, o, why
    return None


def py_property(case, obs):
    """The part of the property that needs no denotation: symbolic == real integral / value at 0 / padded samples."""
    if 'crash' in obs or 'hang' in obs:
        return 'implementation crashed: %s' % obs
    if obs.get('padx_mismatch'):
        return 'pad_to variants disagree: ' + '; '.join(obs['padx_mismatch'][:2])
    if obs.get('hist_mismatch'):
        # the aliasing / history stream: an answer depended on which other template sharing a sub-template object had
        # been queried before (or on how often) - the symbolic quantities are functions of the template alone
        return 'history dependence: ' + '; '.join(obs['hist_mismatch'][:2])
    if obs['real'] == 'err':
        return None
    for c in obs['chans']:
        o = obs['ch'][c]
        if obs['real'] == 'none':
            if o['sint'] != '0':
                return 'empty pulse but integral[%s] = %s' % (c, o['sint'])
            continue
        if o['sint'] != o['rint'] and not case.get('noint'):
            return 'integral[%s] = %s, instantiated pulse integrates to %s' % (c, o['sint'], o['rint'])
        if o['sini'] != o['r0']:
            return 'initial_values[%s] = %s, instantiated pulse starts at %s' % (c, o['sini'], o['r0'])
        if obs.get('padded') in ('err', 'none', None):
            return 'pad_to could not be instantiated'
        if any(x != o['sfin'] for x in o.get('pad', [])) or not o.get('pad'):
            return 'final_values[%s] = %s, padded region plays %s' % (c, o['sfin'], o.get('pad'))
    if case.get('kind') == 'tdarith' and obs['real'] not in ('none', 'err'):
        # the atoms of this stream end inside a segment of positive length that is not a hold step, so the sample at
        # the very end of the last leaf is the voltage the template specifies at its end
        for c in obs['chans']:
            o = obs['ch'][c]
            if o['sfin'] != o['rend']:
                return 'final_values[%s] = %s, instantiated pulse ends on %s' % (c, o['sfin'], o['rend'])
    if obs['real'] == 'none' and obs['sdur'] != '0':
        return 'empty pulse but duration = %s' % obs['sdur']
    if obs['real'] not in ('none', 'err') and obs['sdur'] != obs['real']:
        return 'duration = %s, instantiated pulse lasts %s' % (obs['sdur'], obs['real'])
    return None


def py_spec(case, obs):
    return py_property(case, obs)


# ---------------------------------------------------------------------------------------------------------------------
# shrinking

def _subtrees(t):
    """smaller templates: a child in place of the node, a sequence/multi without one child, a lower repetition count,
    a shorter loop range, a mapping without its parameter mapping"""
    out = []
    k = t['k']
    for key in ('b', 'l', 'r'):
        if key in t:
            out.append(t[key])
            for v in _subtrees(t[key]):
                out.append(dict(t, **{key: v}))
    if 'ps' in t:
        for i, ch in enumerate(t['ps']):
            out.append(ch)
            if len(t['ps']) > 1 and k == 'seq':
                out.append(dict(t, ps=t['ps'][:i] + t['ps'][i + 1:]))
            for v in _subtrees(ch):
                out.append(dict(t, ps=t['ps'][:i] + [v] + t['ps'][i + 1:]))
    if k == 'rep' and t['n'] != G.C(1):
        out.append(dict(t, n=G.C(1)))
    if k == 'map' and t['pm']:
        out.append(dict(t, pm={}))
    if k in ('table',) and len(t['ch']) > 1:
        for c in t['ch']:
            out.append(dict(t, ch={c: t['ch'][c]}))
    if k == 'table':
        for c, es in t['ch'].items():
            if len(es) > 2:
                out.append(dict(t, ch=dict(t['ch'], **{c: es[:-1]})))
    return out


def _still_fails(case, ctx, counter):
    import time
    if counter['n'] >= 60 or time.time() - counter['t0'] > 120:
        return None
    counter['n'] += 1
    try:
        obs = run_impl(case)
    except Exception:
        return None
    if 'crash' in obs or 'hang' in obs:
        return None
    known, _ = vlib.load_known_findings()
    if classify(case, obs) in known.get(PID, {}):       # shrinking must not drift into a listed finding
        return None
    if py_property(case, obs) is not None:
        return obs
    try:
        wd = os.path.join(ctx['workdir'], 'shrink')
        res = vlib.run_coq_cases(wd, CORR_IMPORTS, [CHECK_SPEC], [to_coq(case, obs)], shard=SHARD, jobs=1)
    except Exception:
        return None
    return obs if res[CHECK_SPEC] else None


def _shrink_forest(case, obs):
    """a case of the aliasing / history stream: drop the other roots and the history steps that are not needed for the
    target's answers to depend on the history (every candidate is re-run on the real code)"""
    import time
    if not obs.get('hist_mismatch'):
        return case, obs
    t0, runs = time.time(), 0
    best, best_obs = case, obs

    def attempt(forest, target):
        nonlocal runs
        if runs >= 40 or time.time() - t0 > 90:
            return None
        runs += 1
        cand = dict(best, forest=forest, target=target, src='shrunk-' + case.get('src', 'forest'))
        try:
            o = run_impl(cand)
        except Exception:
            return None
        return (cand, o) if o.get('hist_mismatch') else None
    progress = True
    while progress:
        progress = False
        f, tgt = best['forest'], best['target']
        for j in range(len(f['roots'])):                      # drop a root that is not the target
            if j == tgt or len(f['roots']) < 2:
                continue
            roots = f['roots'][:j] + f['roots'][j + 1:]
            hist = [[r - (r > j), q] for r, q in f['history'] if r != j]
            got = attempt(dict(f, roots=roots, history=hist), tgt - (tgt > j))
            if got:
                best, best_obs, progress = got[0], got[1], True
                break
        if progress:
            continue
        for k in reversed(range(len(f['history']))):          # drop one history step
            got = attempt(dict(f, history=f['history'][:k] + f['history'][k + 1:]), tgt)
            if got:
                best, best_obs, progress = got[0], got[1], True
                break
    return best, best_obs


def shrink(case, obs, ctx):
    """greedy structural shrinking of a case on which the property fails (the failure is re-established on the real
    code for every candidate: Python oracle first, the Coq specification oracle otherwise)"""
    import time
    if case.get('kind') not in ('pulse', 'tdarith'):
        return case, obs
    if 'forest' in case:
        return _shrink_forest(case, obs)
    counter = {'n': 0, 't0': time.time()}
    best, best_obs = case, obs
    progress = True
    while progress:
        progress = False
        for sub in _subtrees(best['pt']):
            try:
                if not G.fix_channels(sub):
                    continue
                cand = dict(best, pt=sub, params=G.used_params(sub, best['params']), src='shrunk')
            except Exception:
                continue
            o = _still_fails(cand, ctx, counter)
            if o is not None:
                best, best_obs, progress = cand, o, True
                break
            if counter['n'] >= 60:
                break
    return best, best_obs


MANIFEST = {
    'level_text': 'Full proof about model vs independent denotation + exact correspondence with the real code. Proved in Coq '
                  '(unbounded, axiom free, one induction over all 13 '
                  'template classes each): C07_duration, C07_integral (no guard), C07_initial_guarded / C07_final_guarded '
                  '(one executable guard per remaining end-point finding, each with refutation witness and non-vacuity '
                  'example), pad_to holds the end voltage under the final guard (non-vacuity: C07_pad_nonvacuous); round 3: C07_definedness (under Def.guard_C07_defined every symbolic '
                  'quantity of an instantiable template EVALUATES; refutation witness per guard clause) and with it the '
                  'total statements C07_{duration,integral,initial,final}_total; C07_history_independent / C07_query_pure '
                  '(Hist.v models which dictionary OBJECT each class returns, hands through or rewrites in place: every '
                  'answer after any query history on any templates is quant q p and no older dictionary is written to) '
                  'with C07_cached_const_history_dependent (a memoising ConstantPT, seed C07-4, breaks it); '
                  'C07_scalar_product_{const,func} (time dependent multiplicative scalars over constant / polynomial atoms '
                  'are embedded as the product polynomial); round 4: C07_hquery_discipline + '
                  'C07_hquery_follows_source_discipline (the dictionary-object discipline table of Hist.hquery is proved, on every '
                  'run, to cover the table a fail-closed AST analysis reads off the twelve classes\' properties in the tree under '
                  'test); round 6: loop ranges that name their own loop index are inside the domain (C07_sum_index_fresh, C07_for_closed_form '
                  'without side condition, witness C07_range_names_index_covered).  Hypotheses: Wf.wf p (checked on every generated case), the '
                  'template is instantiable (denote = Some).  Every generated template - single templates and forests '
                  'sharing sub-template objects under query histories - is evaluated on the real code (symbolic '
                  'dictionaries exactly, the instantiated program integrated exactly leaf by leaf, padded program '
                  'sampled) and compared inside Coq with the mirrored model and the denotation; history answers are '
                  'compared with freshly built copies; the classifier of known findings is cross-checked against the '
                  'proven guards.',
    'level_note': 'Trusted: Coq kernel, sympy evaluation of Sum/Max/ceiling/floor/sign/Piecewise/subs/integrate '
                  '(modelled semantically, validated per case), harness integrator and generators, the Python oracle for '
                  'time dependent scalars multiplied with table / composite atoms or dividing a template '
                  '(not modelled in Coq), the dictionary values of Hist.v, the AST discipline analysis. '
                  'Tested only (no proof): time dependent scalars times tables / dividing a template, '
                  'pad_to call styles, the dictionary values behind history independence, real program = denotation. Not '
                  'covered: transcendental FunctionPT, TimeReversalPT (integral only), non-dyadic floats. '
                  'Four known deviations of the unchanged code are listed as known findings (initial-head-empty-or-jump, '
                  'final-tail-empty, arith-over-parallel-order, negative-duration-empty), explained clause by clause and channel '
                  'by channel (round 5: the stale entry table-constant-detection, repaired by 01efa2c, was removed together with '
                  'its predicate); six defects '
                  'were repaired in /repo in rounds 1-4 (round 4: the Sum-index capture by MappingPT substitutions and by loop '
                  'ranges naming their own index, 7d773a1), one in round 6 (c936965: an outer range parameter named like an inner loop index '
                  'was captured by the inner Sum in ForLoopPT.duration / integral).',
    'technique': 'Coq proof over a hand-written model + exact correspondence check against the real instantiated pulse',
    'design_ref': 'DESIGN.md §5 C07',
}
