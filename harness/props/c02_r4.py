"""C02 round 4 — two more input classes the generators could not produce (again ordinary `prog` / `loop` / `rw` / `flat`
cases judged by the unchanged Coq model / specification; only WHAT is generated and HOW the templates are called differs):

  coincide   coinciding window triples: equal name AFTER the mappings AND equal begin AND equal length, at every place
             where the code merges window lists - the declaration list of one node (the same declaration twice), the
             parallel parts of an AtomicMultiChannelPT (with each other / with the composite's own), both operands of an
             ArithmeticAtomicPT, a sequence's own windows and its first child's (guard), a window sticking out of a
             child and the next child's window at 0 (different relative, equal absolute position), the last window of one
             repetition / iteration and the first of the next (tiling), to_single_waveform members (flattened into one
             list), reversed parts, differently named declarations renamed onto one name (nested / top-level mapping),
             symbolic windows that coincide only under the assignment.  Windows are a multiset: every one must be kept.
             Random part: the ordinary tree grammar with a low-entropy pool (2 names, begins 0 / 1 / 2 / a, length 1,
             durations 1 / 2 / a, repeated declarations), so that coincidences happen at all node kinds and nestings; the
             same pool for hand-built loops (and through them for the rw / flat kinds).
  context    the same template OBJECT under different contexts: below two enclosing measurement mappings with the SAME
             source names and different targets (incl. dropping), below two different parameter mappings, and
             create_program called BEFORE the observed call with other arguments (`pre`: other measurement mapping with
             the same keys, other parameters, other channel mapping, without to_single_waveform; calls that FAIL -
             missing parameter, violated constraint, measurement mapping lacking a name - and are survived).  The
             observed call is judged as usual: nothing of an earlier call / an earlier occurrence may leak into it.

`C` is the c02 module (helpers, constants), `g` its generator object."""
import copy
import fractions
import itertools

import vlib

F = fractions.Fraction


# ---- low-entropy generator ---------------------------------------------------------------------------------------------

def make_gc(C, rng):
    """the c02 tree / loop grammar over a tiny pool of names, begins, lengths and durations"""

    class GC(C.G):
        POOL_B = [0, 1, 1, 2]
        names = ['m0', 'm0', 'm1']

        def time_expr(self, idxs):
            r = self.rng.random()
            if r < 0.75:
                return C.e_c(self.rng.choice(self.POOL_B))
            if r < 0.9:
                return ['v', 'a']
            return ['v', 'b']

        def decls(self, idxs, p=0.7, kmax=3):
            out = []
            if self.rng.random() < p:
                for _ in range(self.rng.randint(1, kmax)):
                    if out and self.rng.random() < 0.35:
                        out.append(copy.deepcopy(self.rng.choice(out)))       # the same declaration again
                    else:
                        out.append([self.rng.choice(self.names), self.time_expr(idxs),
                                    C.e_c(1) if self.rng.random() < 0.85 else C.e_c(0)])
            return out

        def dur_expr(self, idxs):
            r = self.rng.random()
            if r < 0.6:
                return C.e_c(self.rng.choice([1, 1, 2]))
            if r < 0.68:
                return C.e_c(0)
            if r < 0.85 or not idxs:
                return ['v', 'a']
            # 1 + i*i, not 1 + i: a loop index can be -2, and an atom of NEGATIVE duration is outside the assumptions
            # (ConstantPT: no program, Table / PointPT: ValueError, FunctionPT: plays; the model only knows "does not
            # play") - found by the thorough tier in round 5 as a model / implementation disagreement
            i = self.rng.choice(idxs)
            return ['+', C.e_c(1), ['*', ['v', i], ['v', i]]]

        def mapping(self, body, idxs, keep=()):
            names = sorted(x for x in C.meas_names(body) if x is not None)
            r = self.rng.random()
            if r < 0.5:
                mm = {n: 'm0' for n in names if n != 'm0'}                     # everything onto one name
            elif r < 0.7 and len(names) >= 2:
                mm = {names[0]: names[1], names[1]: names[0]}
            elif r < 0.8 and names:
                mm = {names[0]: None}
            else:
                mm = {}
            pm = {}
            if 'b' in C.free_params(body) and 'b' not in keep and self.rng.random() < 0.5:
                pm['b'] = ['v', 'a']                                           # a and b windows now coincide
            return {'k': 'map', 'pm': pm, 'mm': mm, 'cs': [], 'body': body}

        def force_index(self, body, idx, chs):
            extra = {'k': 'atom', 'cls': 'const', 'dur': ['+', C.e_c(1), ['v', idx]],
                     'ms': [['m0', C.e_c(0), C.e_c(1)], ['m0', ['+', C.e_c(1), ['v', idx]], C.e_c(1)]], 'chs': list(chs)}
            return {'k': 'seq', 'ms': [], 'subs': [body, extra]}

        def env(self):
            env = {p: str(self.rng.choice([1, 1, 2])) for p in C.PARAMS[:4]}
            env['n0'] = str(self.rng.choice([1, 2, 3]))
            env['n1'] = str(self.rng.choice([1, 2, 2, 3]))
            return env

        def top_mm(self, tree):
            names = sorted(x for x in C.meas_names(tree) if x is not None)
            r = self.rng.random()
            if r < 0.3:
                return None
            if r < 0.65:
                return {n: names[0] for n in names}
            return C.G.top_mm(self, tree)

        def loop(self, d, empties):
            nm = self.rng.choice([0, 1, 1, 2, 3])
            ms = []
            for _ in range(nm):
                if ms and self.rng.random() < 0.4:
                    ms.append(list(self.rng.choice(ms)))
                else:
                    ms.append([self.rng.choice(['m0', 'm0', 'm1']), str(self.rng.choice([0, 1, 1, 2])), '1'])
            rep = self.rng.choice([1, 1, 2, 2, 3])
            if d <= 0 or self.rng.random() < 0.3:
                wf = None if (empties and self.rng.random() < 0.3) else str(self.rng.choice([1, 1, 2]))
                return {'rep': rep, 'wf': wf, 'ms': ms, 'ch': []}
            return {'rep': rep, 'wf': None, 'ms': ms, 'ch': [self.loop(d - 1, empties) for _ in range(self.rng.randint(1, 3))]}

    return GC(rng, malformed=0.0)


def _atom(C, dur, ms, chs=('A',), cls='const'):
    return {'k': 'atom', 'cls': cls, 'dur': dur if isinstance(dur, list) else C.e_c(dur), 'ms': ms, 'chs': list(chs)}


def _w(C, name, b, l=1):
    return [name, b if isinstance(b, list) else C.e_c(b), l if isinstance(l, list) else C.e_c(l)]


def _all_onto(C, body, target='m0'):
    return {'k': 'map', 'pm': {}, 'mm': {n: target for n in sorted(x for x in C.meas_names(body) if x is not None)
                                         if n != target}, 'cs': [], 'body': body}


COINCIDE_SHAPES = ['own-dup', 'multi-subs', 'multi-own', 'multi-renamed', 'multi-inner-map', 'multi-symbolic', 'arith',
                   'arith-own', 'seq-own-child', 'seq-abut', 'seq-func0', 'rep-abut', 'rep-own-body', 'for-abut',
                   'for-own', 'nested-multi']


def coincide_tree(C, shape, name='m0', b=1, l=1, d=2, n=2, cls='const', var=0):
    """one deterministic tree per merge point; `var` selects a variant of the shape"""
    w = _w(C, name, b, l)
    cw = lambda: copy.deepcopy(w)
    if shape == 'own-dup':
        kind = ['atom', 'multi', 'arith', 'seq', 'rep', 'for'][var % 6]
        ms = [cw(), cw()] + ([_w(C, 'm1', 0, 1), cw()] if var >= 6 else [])
        plain = _atom(C, d, [], cls=cls)
        if kind == 'atom':
            return _atom(C, d, ms, cls=cls)
        if kind == 'multi':
            return {'k': 'multi', 'ms': ms, 'subs': [_atom(C, d, [], ('A',), cls), _atom(C, d, [], ('B',))]}
        if kind == 'arith':
            return {'k': 'arith', 'ms': ms, 'op': '+', 'l': plain, 'r': copy.deepcopy(plain)}
        if kind == 'seq':
            return {'k': 'seq', 'ms': ms, 'subs': [plain, _atom(C, 1, [])]}
        if kind == 'rep':
            return {'k': 'rep', 'ms': ms, 'count': C.e_c(n), 'body': plain}
        return {'k': 'for', 'ms': ms, 'idx': 'i0', 'start': C.e_c(0), 'stop': C.e_c(n), 'step': C.e_c(1),
                'body': _atom(C, ['+', C.e_c(d), ['v', 'i0']], [], cls=cls)}
    if shape == 'multi-subs':
        subs = [_atom(C, d, [cw()], ('A',), cls), _atom(C, d, [cw()] + ([cw()] if var % 2 else []), ('B',))]
        return {'k': 'multi', 'ms': [], 'subs': subs}
    if shape == 'multi-own':
        subs = [_atom(C, d, [cw()] if var % 2 else [], ('A',), cls), _atom(C, d, [cw()], ('B',))]
        return {'k': 'multi', 'ms': [cw()], 'subs': subs}
    if shape == 'multi-renamed':
        # 'ma' / 'mb' of the demo: differently named, equal interval, renamed onto one name further out
        subs = [_atom(C, d, [_w(C, 'm2', b, l)], ('A',), cls), _atom(C, d, [_w(C, 'm3', b, l), _w(C, 'm3', 0, l)], ('B',))]
        t = {'k': 'multi', 'ms': [_w(C, 'm3', b, l)] if var % 2 else [], 'subs': subs}
        if var % 4 >= 2:
            t = {'k': 'rep', 'ms': [], 'count': C.e_c(n), 'body': {'k': 'seq', 'ms': [], 'subs': [_atom(C, 1, [], ('A', 'B')), t]}}
        return {'k': 'map', 'pm': {}, 'mm': {'m2': name, 'm3': name}, 'cs': [], 'body': t}
    if shape == 'multi-inner-map':
        inner = {'k': 'map', 'pm': {}, 'mm': {'m4': name}, 'cs': [], 'body': _atom(C, d, [_w(C, 'm4', b, l)], ('B',))}
        return {'k': 'multi', 'ms': [cw()] if var % 2 else [], 'subs': [_atom(C, d, [cw()], ('A',), cls), inner]}
    if shape == 'multi-symbolic':
        # coincide only under the assignment (a = b = 1 in the deterministic cases' environment)
        other = [['v', 'b'], C.e_c(1), ['+', ['v', 'a'], C.e_c(0)], ['*', ['v', 'a'], ['v', 'b']]][var % 4]
        return {'k': 'multi', 'ms': [], 'subs': [_atom(C, d, [_w(C, name, ['v', 'a'], l)], ('A',), cls),
                                                 _atom(C, d, [_w(C, name, other, l)], ('B',))]}
    if shape == 'arith':
        return {'k': 'arith', 'ms': [], 'op': '+-'[var % 2], 'l': _atom(C, d, [cw()], cls=cls), 'r': _atom(C, d, [cw()])}
    if shape == 'arith-own':
        return {'k': 'arith', 'ms': [cw()], 'op': '+', 'l': _atom(C, d, [cw()] if var % 2 else [], cls=cls),
                'r': _atom(C, d, [cw()])}
    if shape == 'seq-own-child':
        subs = [_atom(C, d, [cw()], cls=cls), _atom(C, 1, [])]
        if var % 2:
            subs = [{'k': 'seq', 'ms': [cw()], 'subs': subs}]               # guard inside guard
        return {'k': 'seq', 'ms': [cw()], 'subs': subs}
    if shape == 'seq-abut':
        # different relative, equal absolute position: (d + b) in the first child = b in the second
        first = _atom(C, d, [_w(C, name, d + b, l)], cls=cls)
        second = _atom(C, d, [cw()])
        if var % 2:
            second = {'k': 'rep', 'ms': [cw()], 'count': C.e_c(n), 'body': _atom(C, d, [])}
        return {'k': 'seq', 'ms': [_w(C, name, d + b, l)] if var % 4 >= 2 else [], 'subs': [first, second]}
    if shape == 'seq-func0':
        # FunctionPT plays (and measures) with duration 0: two leaves at the same absolute time
        z = _atom(C, 0, [cw()], cls='func')
        return {'k': 'seq', 'ms': [], 'subs': [z, copy.deepcopy(z), _atom(C, d, [cw()])][var % 2:]}
    if shape == 'rep-abut':
        body = _atom(C, d, [_w(C, name, 0, l), _w(C, name, d, l)], cls=cls)
        if var % 2:
            body = {'k': 'seq', 'ms': [_w(C, name, d + 1, l)], 'subs': [_atom(C, d, [_w(C, name, 0, l)], cls=cls),
                                                                       _atom(C, 1, [_w(C, name, 0, l)])]}
        return {'k': 'rep', 'ms': [_w(C, name, 0, l)] if var % 4 >= 2 else [], 'count': C.e_c(n), 'body': body}
    if shape == 'rep-own-body':
        return {'k': 'rep', 'ms': [cw()], 'count': C.e_c(n), 'body': _atom(C, d, [cw()], cls=cls)}
    if shape == 'for-abut':
        dur = ['+', C.e_c(d), ['v', 'i0']]
        return {'k': 'for', 'ms': [_w(C, name, 0, l)] if var % 2 else [], 'idx': 'i0', 'start': C.e_c(0), 'stop': C.e_c(n),
                'step': C.e_c(1), 'body': _atom(C, dur, [_w(C, name, 0, l), _w(C, name, dur, l)], cls=cls)}
    if shape == 'for-own':
        if var % 2:
            # the loop's own window (begin d) and the body's window at 0 of the SECOND iteration (which starts at d)
            return {'k': 'for', 'ms': [_w(C, name, d, l)], 'idx': 'i0', 'start': C.e_c(0), 'stop': C.e_c(n + 1),
                    'step': C.e_c(1), 'body': _atom(C, ['+', C.e_c(d), ['v', 'i0']], [_w(C, name, 0, l)], cls=cls)}
        # index-dependent begin that coincides with the loop's own window in the FIRST iteration only
        return {'k': 'for', 'ms': [_w(C, name, 0, l)], 'idx': 'i0', 'start': C.e_c(0), 'stop': C.e_c(n + 1),
                'step': C.e_c(1), 'body': _atom(C, d, [_w(C, name, ['*', C.e_c(b or 1), ['v', 'i0']], l)], cls=cls)}
    if shape == 'nested-multi':
        inner = {'k': 'multi', 'ms': [cw()], 'subs': [_atom(C, d, [cw()], ('B',))]}
        return {'k': 'multi', 'ms': [cw()] if var % 2 else [], 'subs': [_atom(C, d, [cw()], ('A',), cls), inner]}
    raise ValueError(shape)


WRAPS = ['plain', 'single', 'rev', 'rep', 'seq-twice', 'map-onto', 'for']


def wrap_tree(C, t, how, n=2):
    if how == 'plain':
        return t
    if how == 'single':
        return t if t['k'] == 'single' else {'k': 'single', 'body': t}
    if how == 'rev':
        return {'k': 'rev', 'body': t}
    if how == 'rep':
        return {'k': 'rep', 'ms': [], 'count': C.e_c(n), 'body': t}
    if how == 'seq-twice':
        return {'k': 'seq', 'ms': [], 'subs': [t, copy.deepcopy(t)]}
    if how == 'map-onto':
        return _all_onto(C, t)
    if how == 'for':
        if 'i0' in C.free_params(t) or 'for' in C.kinds(t):
            return {'k': 'rep', 'ms': [], 'count': C.e_c(n), 'body': t}
        chs = sorted({ch for a in C._atoms(t) for ch in a['chs']})
        idx_atom = _atom(C, ['+', C.e_c(1), ['v', 'i0']], [], chs)
        return {'k': 'for', 'ms': [], 'idx': 'i0', 'start': C.e_c(0), 'stop': C.e_c(n), 'step': C.e_c(1),
                'body': {'k': 'seq', 'ms': [], 'subs': [t, idx_atom]}}
    raise ValueError(how)


def _mark_wpa(t, rng):
    """build the AtomicMultiChannelPTs of the tree through .with_parallel_atomic()"""
    if t['k'] == 'multi' and len(t['subs']) >= 2:
        t['via'] = 'wpa'
        if rng.random() < 0.5:
            t['wrap1'] = True
    for key in ('subs',):
        for c in t.get(key, []):
            _mark_wpa(c, rng)
    for key in ('body', 'l', 'r'):
        if key in t:
            _mark_wpa(t[key], rng)


def _unit_env(C):
    return {p: '1' for p in C.PARAMS}


def gen_coincide(rng, g, C, gc, k=None):
    """k (a running number) makes the deterministic shapes take turns, so that every merge point is in every run"""
    r = rng.random()
    if r < 0.55:
        shape = rng.choice(COINCIDE_SHAPES) if k is None else COINCIDE_SHAPES[k % len(COINCIDE_SHAPES)]
        t = coincide_tree(C, shape, name=rng.choice(['m0', 'm1', 'm5']), b=rng.choice([0, 1, 1, F(1, 2), 2]),
                          l=rng.choice([1, 1, F(1, 2), 0, 2]), d=rng.choice([1, 2, 2, 3]), n=rng.choice([1, 2, 3]),
                          cls=rng.choice(['const', 'table', 'point']), var=rng.randrange(12))
        for _ in range(rng.choice([0, 1, 1, 2])):
            t = wrap_tree(C, t, rng.choice(WRAPS), rng.choice([2, 3]))
        env = _unit_env(C)
        mm = None if rng.random() < 0.5 else {n: rng.choice([n, 'm0']) for n in sorted(x for x in C.meas_names(t) if x is not None)}
        if rng.random() < 0.4:
            _mark_wpa(t, rng)
        return {'kind': 'prog', 'pt': t, 'env': env, 'mm': mm, 'family': 'coincide:' + shape,
                'share': rng.random() < 0.3, 'twice': rng.random() < 0.15}
    chs = ['A', 'B'] if rng.random() < 0.5 else ['A']
    t = gc.node(chs, [], rng.choice([1, 2, 2, 3, 3]))
    if r < 0.7:                                   # an atomic composite on top: the multi-channel / arithmetic merge points
        t = gc.atomic(chs, [], gc.dur_expr([]), 2)
    return {'kind': 'prog', 'pt': t, 'env': gc.env(), 'mm': gc.top_mm(t), 'family': 'coincide:random',
            'share': rng.random() < 0.25, 'twice': rng.random() < 0.15}


def enum_coincide(C):
    """exhaustive small scope: every merge point x variant x one wrapper, two window positions"""
    out = []
    for shape, var, how, (b, l) in itertools.product(COINCIDE_SHAPES, range(12), WRAPS, [(1, 1), (0, 2)]):
        if shape != 'own-dup' and var >= 4:
            continue
        t = wrap_tree(C, coincide_tree(C, shape, b=b, l=l, var=var), how)
        out.append({'kind': 'prog', 'pt': t, 'env': _unit_env(C), 'mm': None, 'family': 'coincide:enum'})
    return out


def enum_loop_coincide():
    """hand-built loops: parent (rep 1..2) with own windows drawn from {w, w+w, w'} over one or two children carrying w /
    the window that abuts; every combination"""
    W, W2 = ['m0', '0', '1'], ['m0', '1', '1']
    out = []
    owns = [[], [W], [W, W], [W, W2, W]]
    for prep, own, crep, cown, shape in itertools.product([1, 2], owns, [1, 2, 3], owns, [0, 1, 2]):
        if shape == 0:
            ch = [{'rep': crep, 'wf': '1', 'ms': cown, 'ch': []}]
        elif shape == 1:
            ch = [{'rep': crep, 'wf': '1', 'ms': cown, 'ch': []}, {'rep': 1, 'wf': '1', 'ms': [W], 'ch': []}]
        else:
            ch = [{'rep': crep, 'wf': None, 'ms': cown, 'ch': [{'rep': 1, 'wf': '1', 'ms': [W, W2], 'ch': []}]}]
        out.append({'kind': 'loop', 'loop': {'rep': prep, 'wf': None, 'ms': own, 'ch': ch}})
    return out


def _at(j, path):
    for i in path:
        j = j['ch'][i]
    return j


def _inner_paths(j, path=()):
    out = [list(path)] if j['ch'] else []
    for i, c in enumerate(j['ch']):
        out.extend(_inner_paths(c, path + (i,)))
    return out


def gen_loop_edit(rng, g):
    """a hand-built loop that is queried and then extended by append_child at inner nodes (cached durations of the parent
    chain have to follow: the windows of later siblings / repetitions move)"""
    base = g.loop(rng.choice([2, 2, 3]), False)
    if not base['ch']:
        base = {'rep': rng.choice([1, 2]), 'wf': None, 'ms': base['ms'], 'ch': [base, g.loop(1, False)]}
    cur = copy.deepcopy(base)
    edits = []
    for _ in range(rng.choice([1, 1, 2, 3])):
        path = rng.choice(_inner_paths(cur))
        child = g.loop(rng.choice([0, 0, 1]), False)
        _at(cur, path)['ch'].append(copy.deepcopy(child))
        edits.append([path, child])
    return {'kind': 'loop', 'loop': cur, 'base': base, 'edits': edits}


def enum_loop_empty():
    """inner nodes that carry windows but (after cleanup) nothing to play: their windows are dropped with a warning"""
    W = [['m0', '0', '1']]
    E = lambda ms: {'rep': 1, 'wf': None, 'ms': ms, 'ch': []}
    L = {'rep': 2, 'wf': '1', 'ms': W, 'ch': []}
    out = []
    for ims, ems, irep, tail in itertools.product([[], W], [[], W], [1, 2], [0, 1]):
        inner = {'rep': irep, 'wf': None, 'ms': ims, 'ch': [E(ems)] + ([E([])] if tail else [])}
        out.append({'kind': 'loop', 'loop': {'rep': 1, 'wf': None, 'ms': W, 'ch': [inner, L]}})
        out.append({'kind': 'loop', 'loop': {'rep': 2, 'wf': None, 'ms': [], 'ch': [L, {'rep': 1, 'wf': None, 'ms': W, 'ch': [inner]}]}})
    return out


# ---- wrappers around atomic parts inside atomic composites ------------------------------------------------------------

AWRAP_SHAPES = ['multi-rev', 'multi-rev-both', 'arith-rev', 'multi-pass', 'arith-pass', 'multi-map-rev', 'rev-multi-rev',
                'multi-single', 'multi-rev-multi', 'seq-of']


def awrap_tree(C, shape, b=0, l=1, d=3, cls='const', how='mul', var=0):
    """TimeReversalPT / ParallelChannelPT / ArithmeticPT(scalar) / an identifier in to_single_waveform around an atomic part
    of an AtomicMultiChannelPT / ArithmeticAtomicPT; the windows are asymmetric in the part (begin b, length l < d)"""
    A = lambda chs=('A',), name='m0': _atom(C, d, [_w(C, name, b, l), _w(C, 'm1', F(d) - F(1, 2), F(1, 2))], chs, cls)
    B = lambda name='m2': _atom(C, d, [_w(C, name, F(1, 2), l)], ('B',))
    rev = lambda x: {'k': 'rev', 'body': x}
    pas = lambda x: {'k': 'pass', 'how': how, 'body': x}
    own = [_w(C, 'm3', b, l)] if var % 2 else []
    if shape == 'multi-rev':
        return {'k': 'multi', 'ms': own, 'subs': [rev(A()), B()] if var % 4 < 2 else [A(), rev(B())]}
    if shape == 'multi-rev-both':
        return {'k': 'multi', 'ms': own, 'subs': [rev(A()), rev(B('m0'))]}
    if shape == 'arith-rev':
        return {'k': 'arith', 'ms': own, 'op': '+', 'l': rev(A()) if var % 4 < 2 else A(), 'r': rev(A(name='m2'))}
    if shape == 'multi-pass':
        return {'k': 'multi', 'ms': own, 'subs': [pas(A()), B()]}
    if shape == 'arith-pass':
        return {'k': 'arith', 'ms': own, 'op': '-', 'l': pas(A()), 'r': A(name='m2')}
    if shape == 'multi-map-rev':
        inner = {'k': 'map', 'pm': {}, 'mm': {'m0': 'm4', 'm1': None} if var % 4 < 2 else {'m0': 'm1', 'm1': 'm0'}, 'cs': [],
                 'body': rev(A())}
        return {'k': 'multi', 'ms': own, 'subs': [inner if var % 8 < 4 else rev(inner), B()]}
    if shape == 'rev-multi-rev':
        return rev({'k': 'multi', 'ms': own, 'subs': [rev(A()), B()]})
    if shape == 'multi-single':
        return {'k': 'multi', 'ms': own, 'subs': [{'k': 'single', 'body': rev(A()) if var % 4 < 2 else A()}, B()]}
    if shape == 'multi-rev-multi':
        inner = {'k': 'multi', 'ms': [_w(C, 'm4', 0, l)], 'subs': [A(), B()]}
        return {'k': 'arith', 'ms': own, 'op': '+', 'l': rev(inner), 'r': pas(A(name='m5'))}
    if shape == 'seq-of':
        return {'k': 'seq', 'ms': own, 'subs': [{'k': 'multi', 'ms': [], 'subs': [rev(A()), B()]},
                                                {'k': 'rep', 'ms': [], 'count': C.e_c(2),
                                                 'body': {'k': 'multi', 'ms': [], 'subs': [A(), rev({'k': 'pass', 'how': 'mul', 'body': B()})]}}]}
    raise ValueError(shape)


def gen_awrap(rng, g, C):
    shape = rng.choice(AWRAP_SHAPES)
    t = awrap_tree(C, shape, b=rng.choice([0, F(1, 2), 1]), l=rng.choice([1, F(1, 2), F(3, 2)]), d=rng.choice([2, 3, 4]),
                   cls=rng.choice(['const', 'table', 'point']), how=rng.choice(['mul', 'rmul', 'par']), var=rng.randrange(8))
    for _ in range(rng.choice([0, 0, 1])):
        t = wrap_tree(C, t, rng.choice(WRAPS), rng.choice([2, 3]))
    names = sorted(x for x in C.meas_names(t) if x is not None)
    return {'kind': 'prog', 'pt': t, 'env': _unit_env(C), 'mm': None if rng.random() < 0.5 else _retarget(names, rng),
            'family': 'awrap:' + shape, 'share': rng.random() < 0.2, 'twice': rng.random() < 0.15}


def enum_awrap(C):
    out = []
    for shape, var, how in itertools.product(AWRAP_SHAPES, range(8), ['mul', 'rmul', 'par']):
        out.append({'kind': 'prog', 'pt': awrap_tree(C, shape, b=F(1, 2), l=1, d=3, how=how, var=var), 'env': _unit_env(C),
                    'mm': None, 'family': 'awrap:enum'})
    return out


# ---- the same object under different contexts --------------------------------------------------------------------------

def _retarget(names, rng=None, how=None):
    """a total mapping on `names` (always the same keys); `how`: identity / shift / onto-first / drop-first / swap /
    drop-last-rename-first"""
    names = list(names)
    how = how or rng.choice(['identity', 'shift', 'onto-first', 'drop-first', 'swap', 'drop-last'])
    if how == 'identity' or not names:
        return {n: n for n in names}
    if how == 'shift':
        return {n: 'm%d' % ((int(n[1:]) + 1) % 6) for n in names}
    if how == 'onto-first':
        return {n: names[0] for n in names}
    if how == 'drop-first':
        return dict({n: n for n in names}, **{names[0]: None})
    if how == 'swap':
        m = {n: n for n in names}
        if len(names) >= 2:
            m[names[0]], m[names[1]] = names[1], names[0]
        else:
            m[names[0]] = 'm5'
        return m
    m = {n: n for n in names}
    m[names[-1]] = None
    m[names[0]] = 'm4'
    return m


RETARGETS = ['identity', 'shift', 'onto-first', 'drop-first', 'swap', 'drop-last']
KEEPERS = ['constraint', 'seq', 'rep', 'single']


def _keep_apart(C, x, how, n=2):
    """wrap the MappingPT x so that an enclosing MappingPT is NOT merged with it by the constructor (x stays an object of
    its own, reachable below several enclosing mappings)"""
    if how == 'constraint':
        return dict(x, cs=[[True, ['v', 'a'], C.e_c(100)]])
    if how == 'seq':
        return {'k': 'seq', 'ms': [], 'subs': [x]}
    if how == 'rep':
        return {'k': 'rep', 'ms': [], 'count': C.e_c(n), 'body': x}
    return {'k': 'single', 'body': x}                                          # identifier


def two_renamings(C, body, inner_mm, keeper, how_l, how_r, layout=0, n=2):
    x = _keep_apart(C, {'k': 'map', 'pm': {}, 'mm': inner_mm, 'cs': [], 'body': body}, keeper, n)
    ext = sorted(v for v in C.meas_names(x) if v is not None)
    L = {'k': 'map', 'pm': {}, 'mm': _retarget(ext, how=how_l), 'cs': [], 'body': copy.deepcopy(x)}
    R = {'k': 'map', 'pm': {}, 'mm': _retarget(ext, how=how_r), 'cs': [], 'body': copy.deepcopy(x)}
    if layout == 0:
        subs = [L, R]
    elif layout == 1:
        subs = [{'k': 'rep', 'ms': [], 'count': C.e_c(n), 'body': L}, {'k': 'rev', 'body': R}]
    elif layout == 2:
        subs = [R, copy.deepcopy(x), L]
    else:
        subs = [L, {'k': 'seq', 'ms': [['m1', C.e_c(0), C.e_c(1)]], 'subs': [R, L]}]
    return {'k': 'seq', 'ms': [], 'subs': subs}


def _block(C, chs=('A',)):
    """the demo's block: duration 5, windows m0 (0, 1), m1 (4, 1), m2 (2, 2)"""
    return {'k': 'seq', 'ms': [['m2', C.e_c(2), C.e_c(2)]],
            'subs': [_atom(C, 3, [['m0', C.e_c(0), C.e_c(1)]], chs), _atom(C, 2, [['m1', C.e_c(1), C.e_c(1)]], chs)]}


def _pre_calls(rng, C, t, env, mm):
    """earlier create_program calls on the same object with other arguments (their results are ignored)"""
    names = sorted(x for x in C.meas_names(t) if x is not None)
    out = []
    for _ in range(rng.choice([1, 1, 2, 3])):
        k = rng.choice(['mm', 'mm', 'mm', 'env', 'cm', 'nosingle', 'fail-missing', 'fail-constraint', 'fail-mm', 'default'])
        if k == 'mm':
            out.append({'mm': _retarget(names, rng)})
        elif k == 'env':
            out.append({'env': {p: str(rng.choice(C.TIMES + C.DURS)) for p in env}})
        elif k == 'cm':
            out.append({'cm': {'A': 'X', 'B': rng.choice(['Y', None])}, 'mm': _retarget(names, rng)})
        elif k == 'nosingle':
            out.append({'singles': False, 'mm': _retarget(names, rng)})
        elif k == 'fail-missing':
            fp = sorted(C.free_params(t) & set(env))
            out.append({'drop': [rng.choice(fp)] if fp else [], 'mm': _retarget(names, rng)})
        elif k == 'fail-constraint':
            out.append({'env': dict(env, a='1000'), 'mm': _retarget(names, rng)})
        elif k == 'fail-mm':
            m = _retarget(names, rng)
            if m:
                m.pop(sorted(m)[-1])
            out.append({'mm': m})
        else:
            out.append({'mm': None})
    return out


def gen_context(rng, g, C):
    chs = ['A']
    r = rng.random()
    env = g.env()
    if r < 0.4:
        if rng.random() < 0.5:
            body = _block(C)
        else:
            body = None
            for _ in range(20):
                body = g.node(chs, [], rng.choice([1, 2, 2]))
                if len([n for n in C.meas_names(body) if n is not None]) >= 2 and not (C.free_params(body) & {'i0', 'i1', 'i2'}):
                    break
            else:
                body = _block(C)
        names = sorted(n for n in C.meas_names(body) if n is not None)
        inner = {n: v for n, v in _retarget(names, rng).items() if v != n}
        hl, hr = rng.sample(RETARGETS, 2)
        t = two_renamings(C, body, inner, rng.choice(KEEPERS), hl, hr, rng.randrange(4), rng.choice([2, 3]))
        fam = 'context:renamings'
    elif r < 0.65:
        # the same object below two parameter mappings (an inner mapping that rebinds the same name included)
        a = ['v', 'a']
        y = _atom(C, ['+', C.e_c(1), a], [['m0', a, C.e_c(1)], ['m1', C.e_c(0), ['+', a, C.e_c(F(1, 2))]]],
                  cls=rng.choice(['const', 'table', 'point', 'func']))
        if rng.random() < 0.6:
            y = {'k': 'seq', 'ms': [['m2', ['*', C.e_c(2), a], C.e_c(1)]],
                 'subs': [y, {'k': 'map', 'pm': {'a': rng.choice([['+', a, C.e_c(1)], ['*', a, ['v', 'b']], ['v', 'b']])},
                              'mm': {'m0': 'm3'}, 'cs': [[True, a, C.e_c(100)]] if rng.random() < 0.5 else [],
                              'body': copy.deepcopy(y)}]}
        if rng.random() < 0.4:
            y = {'k': 'rep', 'ms': [['m4', a, C.e_c(1)]], 'count': C.e_c(2), 'body': y}
        es = rng.sample([C.e_c(1), C.e_c(2), C.e_c(F(1, 2)), ['v', 'b'], ['+', a, C.e_c(1)], ['*', C.e_c(2), a], ['v', 'c']], 2)
        mk = lambda e: {'k': 'map', 'pm': {'a': e}, 'mm': {}, 'cs': [], 'body': copy.deepcopy(y)}
        subs = [mk(es[0]), mk(es[1])] + ([copy.deepcopy(y)] if rng.random() < 0.5 else [])
        rng.shuffle(subs)
        t = {'k': 'seq', 'ms': g.decls([]), 'subs': subs}
        fam = 'context:parameters'
    else:
        for _ in range(30):
            t = g.node(chs, [], rng.choice([2, 2, 3, 3]))
            if 'map' in C.kinds(t) and any(n is not None for n in C.meas_names(t)):
                break
        else:
            t = two_renamings(C, _block(C), {'m0': 'm3'}, 'constraint', 'identity', 'swap')
        fam = 'context:calls'
    names = sorted(x for x in C.meas_names(t) if x is not None)
    mm = None if rng.random() < 0.25 else _retarget(names, rng)
    case = {'kind': 'prog', 'pt': t, 'env': env, 'mm': mm, 'share': True, 'family': fam, 'twice': False}
    if fam == 'context:calls' or rng.random() < 0.5:
        case['pre'] = _pre_calls(rng, C, t, env, mm)
    return case


def enum_context(C):
    """exhaustive small scope: the block below two renamings (every ordered pair of retargetings) x how the inner mapping
    is kept apart x inner mapping; and every single earlier call with another retargeting before a default / renamed call"""
    out = []
    inners = [{'m0': 'm3', 'm1': 'm4'}, {'m0': 'm1', 'm1': 'm0'}, {'m0': None}]
    k = 0
    for hl, hr in itertools.permutations(RETARGETS, 2):
        for keeper in KEEPERS:
            inner = inners[k % 3]
            k += 1
            t = two_renamings(C, _block(C), inner, keeper, hl, hr, k % 4)
            out.append({'kind': 'prog', 'pt': t, 'env': _unit_env(C), 'mm': None, 'share': True, 'family': 'context:enum'})
    for keeper, h1, h2 in itertools.product(KEEPERS, RETARGETS, RETARGETS + [None]):
        if h1 == h2:
            continue
        x = _keep_apart(C, {'k': 'map', 'pm': {}, 'mm': inners[0], 'cs': [], 'body': _block(C)}, keeper)
        t = {'k': 'rep', 'ms': [], 'count': C.e_c(2), 'body': x}
        names = sorted(v for v in C.meas_names(t) if v is not None)
        out.append({'kind': 'prog', 'pt': t, 'env': _unit_env(C), 'mm': None if h2 is None else _retarget(names, how=h2),
                    'pre': [{'mm': _retarget(names, how=h1)}], 'share': True, 'family': 'context:enum'})
    return out


def pre_calls(pt, case, env, mm, singles, num):
    """perform the earlier calls of a case on the template object; whatever they return or raise is ignored"""
    for pc in case.get('pre', []):
        e = dict(env) if 'env' not in pc else {k: num(v) for k, v in pc['env'].items()}
        for k in pc.get('drop', []):
            e.pop(k, None)
        m = mm
        if 'mm' in pc:
            m = pc['mm']
            if m is not None:
                m = dict(m)
                if None in pt.measurement_names:
                    m[None] = None
        kw = {}
        if 'cm' in pc:
            kw['channel_mapping'] = {c: pc['cm'].get(c, c) for c in pt.defined_channels}
        try:
            pt.create_program(parameters=e, measurement_mapping=m,
                              to_single_waveform=set(singles) if pc.get('singles', True) else set(), **kw)
        except vlib.Timeout:
            raise
        except Exception:       # a failed earlier call is part of the class: the caller survives it and calls again
            pass
