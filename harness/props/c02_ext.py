"""C02 round 2 — additional case kinds: builder traces, MappingPT constructor merging, Loop rewrites, flatten /
make_compatible (Python-side oracle only), volatile repetition counts."""
import fractions
import sys
import warnings
from contextlib import contextmanager

import vlib

F = fractions.Fraction


def _fj(x):
    return vlib.frac_json(vlib.to_fraction(x))


def _ws(ms):
    return [[n, _fj(b), _fj(l)] for n, b, l in (ms or [])]


# ---------------------------------------------------------------------------------------------------------------------
# instrumented LoopBuilder: every public call is logged together with the state of all active builders right after it.
# The wrappers call the original methods (looked up when the tracer is installed), nothing else is changed.

def _loop_dur(loop):
    """duration without touching the duration caches of the objects under test"""
    if len(loop) == 0:
        body = vlib.to_fraction(loop._waveform.duration) if loop._waveform is not None else F(0)
    else:
        body = sum((_loop_dur(c) for c in loop), F(0))
    return body * int(loop._repetition_definition)


def _loop_body(loop):
    if len(loop) == 0:
        return vlib.to_fraction(loop._waveform.duration) if loop._waveform is not None else F(0)
    return sum((_loop_dur(c) for c in loop), F(0))


class Tracer:
    def __init__(self):
        self.events = []
        self.builders = []
        self.muted = 0
        self.broken = None
        self._saved = {}

    def snapshot(self):
        from qupulse.program.loop import LoopGuard
        out = []
        for b in reversed(self.builders):
            frames = []
            for fr in reversed(b._stack):
                obj = fr.loop
                if isinstance(obj, LoopGuard):
                    frames.append(['g', _ws(obj.measurements)])
                else:
                    frames.append(['l', int(obj._repetition_definition), _ws(obj._measurements), len(obj),
                                   vlib.frac_json(_loop_body(obj))])
            out.append(frames)
        return out

    def log(self, ev):
        if not self.muted:
            try:
                snap = self.snapshot()
            except (AttributeError, TypeError) as e:
                # the builder's private layout (_stack, StackFrame.loop, LoopGuard.measurements, Loop._measurements)
                # is not what the instrumentation knows: no white-box comparison possible, the black-box kinds remain
                self.broken = '%s: %s' % (type(e).__name__, e)
                snap = []
            self.events.append([ev, snap])

    def install(self):
        from qupulse.program import loop as L
        T = self
        LB = L.LoopBuilder
        names = ['measure', 'play_arbitrary_waveform', 'with_sequence', 'with_repetition', 'time_reversed',
                 'new_subprogram']
        self._saved = {n: LB.__dict__[n] for n in names}
        o = {n: getattr(LB, n) for n in names}

        def measure(self, measurements):
            r = o['measure'](self, measurements)
            T.log(['measure', _ws(measurements)])
            return r

        def play_arbitrary_waveform(self, waveform):
            r = o['play_arbitrary_waveform'](self, waveform)
            T.log(['play', _fj(waveform.duration)])
            return r

        @contextmanager
        def with_sequence(self, measurements=None):
            cm = o['with_sequence'](self, measurements)
            b = cm.__enter__()
            T.log(['seq_enter', _ws(measurements)])
            yield b
            T.muted += 1
            try:
                cm.__exit__(None, None, None)
            finally:
                T.muted -= 1
            T.log(['seq_exit'])

        def with_repetition(self, repetition_count, measurements=None):
            first = True
            gen = o['with_repetition'](self, repetition_count, measurements)
            while True:
                T.muted += 1
                try:
                    try:
                        b = next(gen)
                    finally:
                        T.muted -= 1
                except StopIteration:
                    break
                if first:
                    T.log(['rep_enter', int(repetition_count), _ws(measurements)])
                    first = False
                yield b
            T.log(['rep_exit'])

        def _inner(name, enter, exit_):
            @contextmanager
            def wrapped(self, *a, **kw):
                cm = o[name](self, *a, **kw)
                inner = cm.__enter__()
                T.builders.append(inner)
                T.log([enter])
                yield inner
                T.muted += 1
                try:
                    cm.__exit__(None, None, None)
                finally:
                    T.muted -= 1
                T.builders.pop()
                T.log([exit_])
            return wrapped

        LB.measure = measure
        LB.play_arbitrary_waveform = play_arbitrary_waveform
        LB.with_sequence = with_sequence
        LB.with_repetition = with_repetition
        LB.time_reversed = _inner('time_reversed', 'rev_enter', 'rev_exit')
        LB.new_subprogram = _inner('new_subprogram', 'sub_enter', 'sub_exit')

    def uninstall(self):
        from qupulse.program import loop as L
        for n, f in self._saved.items():
            setattr(L.LoopBuilder, n, f)
        self._saved = {}


def run_trace(case, build_pt, num):
    """create_program on an instrumented LoopBuilder"""
    from qupulse.program.loop import LoopBuilder
    singles = []
    pt = build_pt(case['pt'], singles, case.get('share', False))
    env = {k: num(v) for k, v in case['env'].items()}
    mm = case['mm']
    if mm is not None:
        mm = dict(mm)
        if None in pt.measurement_names:
            mm[None] = None
    from props import c02_r4 as R4
    R4.pre_calls(pt, case, env, mm, singles, num)       # earlier calls (round 4), before the tracer is installed
    T = Tracer()
    try:
        T.install()
    except (KeyError, AttributeError) as e:
        T.uninstall()
        return {'trace_unavailable': 'install: %s: %s' % (type(e).__name__, e), 'none': False}
    try:
        builder = LoopBuilder()
        T.builders.append(builder)
        try:
            prog = pt.create_program(parameters=env, measurement_mapping=mm, to_single_waveform=set(singles),
                                     program_builder=builder)
        except vlib.Timeout:
            raise
        except Exception as e:
            return {'rejected': type(e).__name__}
    finally:
        T.uninstall()
    if T.broken:
        return {'trace_unavailable': T.broken, 'none': prog is None}
    return {'trace': T.events, 'none': prog is None}


# ---------------------------------------------------------------------------------------------------------------------
# MappingPT constructor merging

def gen_merge(rng, PARAMS, NMEAS, e_c, TIMES):
    names = sorted(rng.sample(['m%d' % i for i in range(NMEAS)], rng.randint(1, 3)))
    pars = sorted(rng.sample(PARAMS[:4], rng.randint(1, 3)))

    def pexpr():
        r = rng.random()
        v = ['v', rng.choice(PARAMS[:4])]
        if r < 0.35:
            return v
        if r < 0.6:
            return ['+', v, e_c(rng.choice(TIMES))]
        if r < 0.8:
            return ['*', v, ['v', rng.choice(PARAMS[:4])]]
        if r < 0.9:
            return e_c(rng.choice(TIMES))
        return ['-', ['*', e_c(2), v], ['v', rng.choice(PARAMS[:4])]]

    def evars(e):
        if e[0] == 'c':
            return set()
        if e[0] == 'v':
            return {e[1]}
        return evars(e[1]) | evars(e[2])

    pm1 = {p: pexpr() for p in pars if rng.random() < 0.6}
    ext1 = set(p for p in pars if p not in pm1)
    for e in pm1.values():
        ext1 |= evars(e)
    cs1 = []
    if rng.random() < 0.25:
        c = rng.choice(sorted(ext1)) if ext1 else None
        if c:
            cs1 = [[True, ['v', c], e_c(100)]]
    pm2 = {p: pexpr() for p in sorted(ext1) if rng.random() < 0.6}
    mm1 = {}
    for n in names:
        r = rng.random()
        if r < 0.5:
            mm1[n] = 'm%d' % rng.randrange(NMEAS)
        elif r < 0.62:
            mm1[n] = None
    ext_names = sorted({mm1.get(n, n) for n in names} - {None})
    mm2 = {}
    for n in ext_names:
        r = rng.random()
        if r < 0.5:
            mm2[n] = 'm%d' % rng.randrange(NMEAS)
        elif r < 0.62:
            mm2[n] = None
    env = {p: str(rng.choice(TIMES)) for p in PARAMS[:4]}
    return {'kind': 'merge', 'names': names, 'pars': pars, 'pm1': pm1, 'mm1': mm1, 'cs1': cs1,
            'ident': rng.random() < 0.2, 'pm2': pm2, 'mm2': mm2, 'env': env}


def enum_merge(e_c):
    """exhaustive small scope: two body names, every inner / outer entry absent, renamed (3 targets incl. a clash) or
    dropped; three parameter-mapping patterns (none, chained substitution, swap); inner plain / with constraint /
    with identifier"""
    import itertools
    names = ['m0', 'm1']
    opts1 = ['-', 'm0', 'm1', 'm2', None]
    pms = [({}, {}),
           ({'a': ['+', ['v', 'b'], e_c(1)]}, {'b': ['*', ['v', 'a'], e_c(2)]}),
           ({'a': ['v', 'b'], 'b': ['v', 'a']}, {'a': ['v', 'c'], 'b': ['+', ['v', 'a'], ['v', 'b']]})]
    out = []
    for v0, v1 in itertools.product(opts1, repeat=2):
        mm1 = {n: v for n, v in zip(names, (v0, v1)) if v != '-'}
        ext = sorted({mm1.get(n, n) for n in names} - {None})
        for vals in itertools.product(['-', 'm0', 'm3', None], repeat=len(ext)):
            mm2 = {n: v for n, v in zip(ext, vals) if v != '-'}
            k = len(out)
            pm1, pm2 = pms[k % 3]
            variant = (k // 3) % 4
            out.append({'kind': 'merge', 'names': names, 'pars': ['a', 'b'], 'pm1': pm1, 'mm1': mm1,
                        'cs1': [[True, ['v', 'b'], e_c(100)]] if variant == 1 else [], 'ident': variant == 2,
                        'pm2': pm2, 'mm2': mm2, 'env': {'a': '1', 'b': '2', 'c': '1/2', 'd': '3'}})
    return out


def run_merge(case, e_str, num):
    from qupulse.pulses import TablePT, MappingPT
    pars = case['pars']
    entries = [(0, 0.0)] + [(i + 1, p) for i, p in enumerate(pars)]
    body = TablePT({'A': entries}, measurements=[(n, 0, 1) for n in case['names']])
    cs1 = ['%s %s %s' % (e_str(a), '<' if s else '<=', e_str(b)) for s, a, b in case['cs1']]
    inner = MappingPT(body, parameter_mapping={p: e_str(e) for p, e in case['pm1'].items()},
                      measurement_mapping=dict(case['mm1']), allow_partial_parameter_mapping=True,
                      parameter_constraints=cs1 or None, identifier='inner_id' if case['ident'] else None)
    outer = MappingPT(inner, parameter_mapping={p: e_str(e) for p, e in case['pm2'].items()},
                      measurement_mapping=dict(case['mm2']), allow_partial_parameter_mapping=True)
    merged = outer.template is body
    ident = {n: n for n in outer.measurement_names}
    ident[None] = None
    m = outer.get_updated_measurement_mapping(ident)
    env = {k: num(v) for k, v in case['env'].items()}
    vals = outer.map_parameter_values(env)
    if not merged:
        if outer.template is not inner:
            return {'crash': 'MappingPT wraps neither the body nor the inner mapping'}
        m = inner.get_updated_measurement_mapping(m)
        full = dict(env)
        full.update(vals)
        vals = inner.map_parameter_values(full)
    return {'merged': merged,
            'mm': [[n, m[n]] for n in case['names']],
            'vals': [[p, _fj(vals[p])] for p in pars]}


# ---------------------------------------------------------------------------------------------------------------------
# structural rewrites of hand-built loops

def gen_rw(rng, g):
    loop = g.loop(rng.choice([1, 2, 2, 3]), False)
    if not loop['ch'] and rng.random() < 0.8:
        loop = {'rep': rng.choice([1, 2, 3]), 'wf': None, 'ms': loop['ms'], 'ch': [loop, g.loop(1, False)]}
    nch = len(loop['ch'])
    r = rng.random()
    if r < 0.35:
        op = ['unroll', rng.randrange(nch + 1) if rng.random() < 0.1 else rng.randrange(max(nch, 1))]
    elif r < 0.5:
        op = ['unroll_children']
    elif r < 0.6:
        op = ['encapsulate']
    elif r < 0.75:
        op = ['split', rng.randrange(max(nch, 1))] + (['neg'] if rng.random() < 0.3 else [])
    elif r < 0.85:
        op = ['split_default']
    else:
        op = ['merge']
        if rng.random() < 0.7:
            loop = dict(loop, ch=loop['ch'][:1])
            if rng.random() < 0.5:
                loop = dict(loop, ms=[])
    return {'kind': 'rw', 'loop': loop, 'op': op}


def enum_rw():
    """exhaustive small scope: parent (rep 1..2, window or none) with 1-2 children (rep 1..3, window or none), the first
    child a loop over one or two leaves or a leaf; every rewrite"""
    import itertools
    W = [['m0', '1/2', '1']]
    leaf = lambda rep, w, d: {'rep': rep, 'wf': d, 'ms': W if w else [], 'ch': []}
    out = []
    for prep, pw, crep, cw, shape, second in itertools.product([1, 2], [0, 1], [1, 2, 3], [0, 1], [0, 1, 2], [0, 1]):
        if shape == 0:
            c = leaf(crep, cw, '1')
        else:
            c = {'rep': crep, 'wf': None, 'ms': [['m1', '0', '1/2']] if cw else [],
                 'ch': [leaf(2, 1, '3/2')] + ([leaf(1, 0, '1')] if shape == 2 else [])}
        ch = [c] + ([leaf(2, 1, '2')] if second else [])
        loop = {'rep': prep, 'wf': None, 'ms': [['m2', '1/4', '1/4']] if pw else [], 'ch': ch}
        for op in (['unroll', 0], ['unroll_children'], ['encapsulate'], ['split', 0], ['split_default'], ['merge']):
            out.append({'kind': 'rw', 'loop': loop, 'op': op})
    return out


def run_rw(case, build_loop, windows):
    loop = build_loop(case['loop'])
    obs = {'dur0': vlib.frac_json(loop.duration), 'ws0': windows(loop)}
    loop = build_loop(case['loop'])
    op = case['op']
    try:
        if op[0] == 'unroll':
            loop[op[1]].unroll()
        elif op[0] == 'unroll_children':
            loop.unroll_children()
        elif op[0] == 'encapsulate':
            loop.encapsulate()
        elif op[0] == 'split':
            # the same child addressed by its negative index (round 4): the rewrite must be the same
            loop.split_one_child(op[1] - len(loop) if len(op) > 2 and op[1] < len(loop) else op[1])
        elif op[0] == 'split_default':
            loop.split_one_child()
        elif op[0] == 'merge':
            if not loop._has_single_child_that_can_be_merged():
                raise ValueError('cannot merge')
            loop._merge_single_child()
    except vlib.Timeout:
        raise
    except (RuntimeError, ValueError, IndexError, AssertionError):
        obs['after'] = None
        return obs
    obs['after'] = {'dur': vlib.frac_json(loop.duration), 'ws': windows(loop)}
    return obs


def g_rw(op):
    return {'unroll': lambda: '(RUnroll %s)' % vlib.gnat(op[1]), 'unroll_children': lambda: 'RUnrollChildren',
            'encapsulate': lambda: 'REncapsulate', 'split': lambda: '(RSplit %s)' % vlib.gnat(op[1]),
            'split_default': lambda: 'RSplitDefault', 'merge': lambda: 'RMerge'}[op[0]]()


# ---------------------------------------------------------------------------------------------------------------------
# flatten_and_balance / make_compatible on hand-built loops: judged on the Python side only (no Coq model of these here;
# C06 owns their structure).  Oracle: the multiset of windows and the duration are unchanged.

def gen_flat(rng, g):
    loop = g.loop(rng.choice([2, 3]), False)
    if not loop['ch']:
        loop = {'rep': 1, 'wf': None, 'ms': loop['ms'], 'ch': [loop, g.loop(2, False)]}
    loop = dict(loop, rep=1)
    if rng.random() < 0.7:
        return {'kind': 'flat', 'loop': loop, 'op': ['flatten', rng.choice([1, 1, 2, 3])]}
    return {'kind': 'flat', 'loop': loop, 'op': ['make_compatible', rng.choice([1, 2, 4]), rng.choice([1, 2]),
                                                 rng.choice(['1', '2', '4'])]}


def _own_names(j, root=True, leaves=True):
    """names of the own windows of the non-root nodes (leaves=False: of the non-root INNER nodes only - the loops
    flatten_and_balance can unroll; a leaf is never unrolled)"""
    s = set()
    if not root and (leaves or j['ch']):
        s |= {m[0] for m in j['ms']}
    for c in j['ch']:
        s |= _own_names(c, False, leaves)
    return s


def _node_path(n):
    p = []
    while n.parent is not None:
        p.append(int(n.parent_index))
        n = n.parent
    return p[::-1]


def _flatten_logged(loop, depth):
    """flatten_and_balance with the structural rewrites it performs logged as (path from the root, rewrite)"""
    from qupulse.program.loop import Loop
    steps = []
    state = {'ok': True}
    saved = {n: Loop.__dict__[n] for n in ('encapsulate', 'unroll', '_merge_single_child')}

    def wrap(name, mk):
        orig = saved[name]

        def f(self, *a, **kw):
            try:
                steps.append(mk(self))
            except Exception:       # the tree layout is not what the instrumentation knows
                state['ok'] = False
            return orig(self, *a, **kw)
        return f
    Loop.encapsulate = wrap('encapsulate', lambda s: [_node_path(s), ['encapsulate']])
    Loop.unroll = wrap('unroll', lambda s: [_node_path(s.parent), ['unroll', int(s.parent_index)]])
    Loop._merge_single_child = wrap('_merge_single_child', lambda s: [_node_path(s), ['merge']])
    try:
        loop.flatten_and_balance(depth)
    finally:
        for n, f in saved.items():
            setattr(Loop, n, f)
    return steps if state['ok'] else None


def run_flat(case, build_loop, windows):
    from qupulse.program.loop import make_compatible
    from qupulse.utils.types import TimeType
    loop = build_loop(case['loop'])
    obs = {'dur0': vlib.frac_json(loop.duration), 'ws0': windows(loop)}
    loop = build_loop(case['loop'])
    op = case['op']
    try:
        if op[0] == 'flatten':
            obs['steps'] = _flatten_logged(loop, op[1])
        else:
            f = F(op[3])
            make_compatible(loop, op[1], op[2], TimeType.from_fraction(f.numerator, f.denominator))
    except vlib.Timeout:
        raise
    except ValueError:
        obs['after'] = None
        return obs
    obs['after'] = {'dur': vlib.frac_json(loop.duration), 'ws': windows(loop)}
    return obs


def flat_verdict(case, obs):
    """None = fine; ('known', why) = only own windows of inner loops are missing (the known dropping behaviour);
    ('bad', why) otherwise"""
    a = obs.get('after')
    if a is None:
        return None
    if F(a['dur']) != F(obs['dur0']):
        return ('bad', 'duration changed by %s' % case['op'][0])
    before = sorted(map(tuple, obs['ws0']))
    after = sorted(map(tuple, a['ws']))
    if before == after:
        return None
    rest = list(before)
    for w in after:
        if w in rest:
            rest.remove(w)
        else:
            return ('bad', '%s reports a window that was not there before: %r' % (case['op'][0], w))
    if case['op'][0] == 'flatten':
        # round 5: the known class is narrower for flatten_and_balance - only loops it UNROLLED lose windows (an unroll
        # must have been logged, when the log is available) and only inner nodes can be unrolled, never a leaf
        inner = _own_names(case['loop'], leaves=False)
        steps = obs.get('steps')
        if steps is not None and not any(st[1][0] == 'unroll' for st in steps):
            return ('bad', 'flatten_and_balance loses windows without unrolling anything: %r' % (rest[:3],))
    else:
        inner = _own_names(case['loop'])
    if all(w[0] in inner for w in rest):
        return ('known', '%s drops own windows of inner loops: %r' % (case['op'][0], rest[:3]))
    return ('bad', '%s drops windows of the root loop: %r' % (case['op'][0], rest[:3]))


# ---------------------------------------------------------------------------------------------------------------------
# volatile repetition counts

def vol_ok_tree(t, children):
    """trees the code accepts with volatile n0 / n1: no to_single_waveform member, n0 / n1 only in repetition counts"""
    if t['k'] == 'single':
        return False
    if t['k'] == 'for':
        for e in (t['start'], t['stop'], t['step']):
            if _evars(e) & {'n0', 'n1'}:
                return False
    return all(vol_ok_tree(c, children) for c in children(t))


def rep_counts(t, children):
    out = [t['count']] if t['k'] == 'rep' else []
    for c in children(t):
        out.extend(rep_counts(c, children))
    return out


def _evars(e):
    if e[0] == 'c':
        return set()
    if e[0] == 'v':
        return {e[1]}
    return _evars(e[1]) | _evars(e[2])


def _update_all(loop, consts):
    if loop.volatile_repetition:
        loop.repetition_definition.update_volatile_dependencies(consts)
    for c in loop:
        _update_all(c, consts)


def shape_json(loop):
    """shape and repetition counts of a real Loop (nothing else): what the volatile guard Vol.vwok looks at"""
    return {'rep': int(loop.repetition_count), 'wf': None, 'ms': [], 'ch': [shape_json(c) for c in loop]}


def _stable(a, b):
    return a['rep'] == b['rep'] and len(a['ch']) == len(b['ch']) and all(_stable(x, y) for x, y in zip(a['ch'], b['ch']))


def vwok_py(a, b):
    """Vol.vwok, for the input-distribution histogram only (the verdict is computed in Coq)"""
    if len(a['ch']) != len(b['ch']):
        return False
    for k, (x, y) in enumerate(zip(a['ch'], b['ch'])):
        if k < len(a['ch']) - 1:
            if not _stable(x, y):
                return False
        else:
            kids = len(x['ch']) == len(y['ch']) and all(_stable(u, v) for u, v in zip(x['ch'], y['ch']))
            if not (vwok_py(x, y) and (kids or b['rep'] == 1)):
                return False
    return True


def expected_unroll_loss(loop, op):
    """the exact multiset of windows Loop.unroll() / Loop.unroll_children() is KNOWN to lose (finding
    rewrite-drops-own-measurements), computed from the hand-built loop: unroll of child i loses every execution of the
    child's own windows; unroll_children keeps the loop's own windows of the first repetition only"""
    def dur(j):
        return body(j) * j['rep']

    def body(j):
        if not j['ch']:
            return F(j['wf']) if j['wf'] is not None else F(0)
        return sum((dur(c) for c in j['ch']), F(0))
    out = []
    if op[0] == 'unroll_children':
        for k in range(1, loop['rep']):
            out += [(n, F(b) + k * body(loop), F(l)) for n, b, l in loop['ms']]
    else:
        i = op[1]
        if not 0 <= i < len(loop['ch']):
            return []
        c = loop['ch'][i]
        off = sum((dur(x) for x in loop['ch'][:i]), F(0))
        for k in range(loop['rep']):
            for j in range(c['rep']):
                out += [(n, F(b) + off + k * body(loop) + j * body(c), F(l)) for n, b, l in c['ms']]
    return sorted(out, key=lambda w: (str(w[0]), w[1], w[2]))


def run_vol(case, build_pt, num, windows):
    singles = []
    pt = build_pt(case['pt'], singles, case.get('share', False))
    env = {k: num(v) for k, v in case['env'].items()}
    env2 = {k: num(v) for k, v in case['env2'].items()}
    mm = case['mm']
    if mm is not None:
        mm = dict(mm)
        if None in pt.measurement_names:
            mm[None] = None
    try:
        prog = pt.create_program(parameters=env, measurement_mapping=mm, volatile=set(case['vol']))
    except vlib.Timeout:
        raise
    except Exception as e:
        return {'rejected': type(e).__name__}
    if prog is None:
        return {'none': True}
    obs = {'ws1': windows(prog)}
    if case.get('side') == 'guard':
        obs['tree1'] = shape_json(prog)
    if case.get('side') == 'corr':
        # cleanup() of a program with volatile counts (merging a single child into / out of a volatile repetition)
        try:
            pc = pt.create_program(parameters=env, measurement_mapping=mm, volatile=set(case['vol']))
            pc.cleanup()
            obs['wsv_clean'] = windows(pc)
        except vlib.Timeout:
            raise
        except Exception as e:
            obs['wsv_clean'] = ['crash', type(e).__name__]
    _update_all(prog, {k: env2[k] for k in case['vol']})
    obs['ws2'] = windows(prog)
    if case.get('side') == 'guard':
        obs['tree2'] = shape_json(prog)
    from qupulse.plotting import _render_loop
    try:
        rm = [[n, _fj(b), _fj(l)] for n, b, l in _render_loop(prog, render_measurements=True)[1]]
        obs['ws2r'] = sorted(rm, key=lambda w: (str(w[0]), F(w[1]), F(w[2])))
    except ValueError:
        # _render_loop builds ONE waveform first; leaves with different channel sets make that fail (see c02.run_impl)
        obs['ws2r'] = None
    try:
        ref = pt.create_program(parameters=env2, measurement_mapping=mm)
        obs['ref'] = windows(ref) if ref is not None else []
    except Exception:
        obs['ref'] = None
    return obs
