"""C12 helper: the formula AST used by the harness (JSON-able nested lists), its printers (sympy syntax, sympy objects,
Gallina), a reference evaluator over Fractions (used ONLY to steer generation, to fill the interpretation table of
sin/cos/exp and to decide whether a float evaluation is exact by construction -- never to decide a case), and the
random generators.

AST:  ['c', 'p/q', form]   constant, form 'i' int / 'f' decimal float literal / 'r' rational p/q
      ['nan'] | ['v', name] | ['u', op, a] | ['b', op, a, b] | ['ite', c, a, b] | ['sum', idx, lo, hi, body]
      ['idx', base, i] | ['ibc', a, n, i]
"""
import fractions
import math

F = fractions.Fraction

NAMES = ['a', 'b', 'c', 'd', 'x', 'y', 'n', 'm', 'i', 'j', 'k', 't', 'v', 'w', 'u', 'z']
NID = {n: i for i, n in enumerate(NAMES)}
LITS = ['_lit%d' % i for i in range(24)]      # reserved variables that stand for decimal float literals (typed model)
NID.update({n: 100 + i for i, n in enumerate(LITS)})
SCALARS = ['a', 'b', 'c', 'd', 'x', 'y']
INTS = ['n', 'm']
INDICES = ['i', 'j', 'k']
BASES = ['v', 'w']
FNS = {'sin': 0, 'cos': 1, 'exp': 2}
UOPS = {'neg': 'UNeg', 'floor': 'UFloor', 'ceil': 'UCeil', 'abs': 'UAbs', 'not': 'UNot'}
BOPS = {'add': 'BAdd', 'sub': 'BSub', 'mul': 'BMul', 'div': 'BDiv', 'min': 'BMin', 'max': 'BMax',
        'floordiv': 'BFloorDiv', 'lt': '(BCmp OLt)', 'le': '(BCmp OLe)', 'gt': '(BCmp OGt)', 'ge': '(BCmp OGe)',
        'eq': '(BCmp OEq)', 'ne': '(BCmp ONe)', 'and': 'BAnd', 'or': 'BOr'}
CMPS = ['lt', 'le', 'gt', 'ge', 'eq', 'ne']


# name-coincidence family: formulas are generated over NAMES; RENAME maps a model name to the name the implementation
# sees (a parameter called `select`, `less`, `builtins`, `array` ...).  Set for the duration of one case by `renaming`.
RENAME = {}


class renaming:
    def __init__(self, m):
        self.m = dict(m or {})

    def __enter__(self):
        self.old = dict(RENAME)
        RENAME.clear()
        RENAME.update(self.m)

    def __exit__(self, *a):
        RENAME.clear()
        RENAME.update(self.old)


def rn(x):
    return RENAME.get(x, x)


def unrn(x):
    for k, v in RENAME.items():
        if v == x:
            return k
    return x


def is_dyadic(q):
    d = F(q).denominator
    return d & (d - 1) == 0


def is_double(q):
    """is the rational exactly an IEEE double?"""
    try:
        return F(float(q)) == q
    except OverflowError:
        return False


# magnitude families (round 4): a case flagged 'precise' uses the exact criterion "every intermediate value is a
# double" for the inexact flag instead of the conservative one (dyadic, below 2^40, at most 53 bits) of the random
# stream.  Set for the duration of one case by `precision`.
PRECISE = [False]


class precision:
    def __init__(self, on):
        self.on = bool(on)

    def __enter__(self):
        self.old = PRECISE[0]
        PRECISE[0] = self.on

    def __exit__(self, *a):
        PRECISE[0] = self.old


# ---------------------------------------------------------------------------------------------------------------------
# printers

def num_str(q, form):
    q = F(q)
    if form == 'f':
        assert is_dyadic(q)
        s = repr(float(q))
        assert F(s) == q, (s, q)
    elif q.denominator == 1:
        s = str(q.numerator)
    else:
        s = '%d/%d' % (q.numerator, q.denominator)
    return '(%s)' % s if (q < 0 or '/' in s) else s


def to_str(e):
    """sympy syntax, fully parenthesised where precedence matters"""
    k = e[0]
    if k == 'c':
        return num_str(e[1], e[2])
    if k == 'nan':
        return 'nan'
    if k == 'v':
        return rn(e[1])
    if k == 'u':
        op, a = e[1], to_str(e[2])
        if op == 'neg':
            return '(-%s)' % a
        if op == 'not':
            return '(~%s)' % a
        if op.startswith('pow:'):
            return '(%s**(%s))' % (a, op[4:])
        return '%s(%s)' % ({'floor': 'floor', 'ceil': 'ceiling', 'abs': 'Abs'}.get(op, op), a)
    if k == 'b':
        op, a, b = e[1], to_str(e[2]), to_str(e[3])
        sym = {'add': '+', 'sub': '-', 'mul': '*', 'div': '/', 'floordiv': '//', 'lt': '<', 'le': '<=', 'gt': '>',
               'ge': '>=', 'and': '&', 'or': '|'}
        if op in sym:
            return '(%s %s %s)' % (a, sym[op], b)
        return '%s(%s, %s)' % ({'min': 'Min', 'max': 'Max', 'eq': 'Eq', 'ne': 'Ne'}[op], a, b)
    if k == 'ite':
        if e[3] == ['nan']:
            return 'Piecewise((%s, %s))' % (to_str(e[2]), to_str(e[1]))
        return 'Piecewise((%s, %s), (%s, True))' % (to_str(e[2]), to_str(e[1]), to_str(e[3]))
    if k == 'sum':
        return 'Sum(%s, (%s, %s, %s))' % (to_str(e[4]), rn(e[1]), to_str(e[2]), to_str(e[3]))
    if k == 'idx':
        return '%s[%s]' % (rn(e[1]), to_str(e[2]))
    if k == 'ibc':
        return 'IndexedBroadcast(%s, (%d,), %s)' % (to_str(e[1]), e[2], to_str(e[3]))
    raise ValueError(e)


def to_sympy(e):
    """the same formula built from sympy objects (the other way an ExpressionScalar is constructed)"""
    import sympy
    from qupulse.utils.sympy import IndexedBroadcast
    k = e[0]
    if k == 'c':
        q = F(e[1])
        if e[2] == 'f':
            return sympy.Float(float(q))
        return sympy.Rational(q.numerator, q.denominator)
    if k == 'nan':
        return sympy.nan
    if k == 'v':
        return sympy.Symbol(rn(e[1]))
    if k == 'u':
        op, a = e[1], to_sympy(e[2])
        if op == 'neg':
            return -a
        if op == 'not':
            return sympy.Not(a)
        if op.startswith('pow:'):
            return a ** int(op[4:])
        return {'floor': sympy.floor, 'ceil': sympy.ceiling, 'abs': sympy.Abs, 'sin': sympy.sin, 'cos': sympy.cos,
                'exp': sympy.exp}[op](a)
    if k == 'b':
        op, a, b = e[1], to_sympy(e[2]), to_sympy(e[3])
        fn = {'add': lambda: a + b, 'sub': lambda: a - b, 'mul': lambda: a * b, 'div': lambda: a / b,
              'floordiv': lambda: a // b, 'min': lambda: sympy.Min(a, b), 'max': lambda: sympy.Max(a, b),
              'lt': lambda: a < b, 'le': lambda: a <= b, 'gt': lambda: a > b, 'ge': lambda: a >= b,
              'eq': lambda: sympy.Eq(a, b), 'ne': lambda: sympy.Ne(a, b), 'and': lambda: sympy.And(a, b),
              'or': lambda: sympy.Or(a, b)}
        return fn[op]()
    if k == 'ite':
        if e[3] == ['nan']:
            return sympy.Piecewise((to_sympy(e[2]), to_sympy(e[1])))
        return sympy.Piecewise((to_sympy(e[2]), to_sympy(e[1])), (to_sympy(e[3]), True))
    if k == 'sum':
        return sympy.Sum(to_sympy(e[4]), (sympy.Symbol(rn(e[1])), to_sympy(e[2]), to_sympy(e[3])))
    if k == 'idx':
        return sympy.IndexedBase(rn(e[1]))[to_sympy(e[2])]
    if k == 'ibc':
        return IndexedBroadcast(to_sympy(e[1]), (e[2],), to_sympy(e[3]))
    raise ValueError(e)


class Unreadable(Exception):
    pass


def from_sympy(x):
    """read a sympy expression (the implementation's internal, auto-simplified formula) back into the AST, following the
    way the code printers lay out products (numerator / denominator; a lone Pow(b, -1) is printed 1/b).
    Raises Unreadable for anything outside the AST.  Used to classify an already rejected case and to feed the typed
    model with the formula the implementation really evaluates."""
    import sympy
    from qupulse.utils.sympy import IndexedBroadcast

    def fold(op, items):
        acc = items[0]
        for it in items[1:]:
            acc = ['b', op, acc, it]
        return acc

    def rd(x):
        if x is sympy.nan:
            return ['nan']
        if x is sympy.true or x is sympy.false:
            return ['c', '1' if x is sympy.true else '0', 'i']
        if isinstance(x, sympy.Integer):
            return ['c', str(int(x)), 'i']
        if isinstance(x, sympy.Rational):
            return ['c', '%d/%d' % (x.p, x.q), 'r']
        if isinstance(x, sympy.Float):
            return ['c', str(F(float(x))), 'f']
        if isinstance(x, sympy.Symbol):
            if unrn(x.name) not in NID:
                raise Unreadable(x.name)
            return ['v', unrn(x.name)]
        if isinstance(x, sympy.Add):
            return fold('add', [rd(a) for a in x.args])
        if isinstance(x, sympy.Mul):
            num, den = [], []
            for a in x.args:
                if isinstance(a, sympy.Pow) and isinstance(a.exp, sympy.Integer) and a.exp < 0:
                    den.append(rd(a.base) if a.exp == -1 else ['u', 'pow:%d' % -int(a.exp), rd(a.base)])
                else:
                    num.append(rd(a))
            n = fold('mul', num) if num else ['c', '1', 'i']
            return ['b', 'div', n, fold('mul', den)] if den else n
        if isinstance(x, sympy.Pow):
            if not isinstance(x.exp, sympy.Integer):
                raise Unreadable('pow')
            if x.exp == -1:
                return ['b', 'div', ['c', '1', 'i'], rd(x.base)]
            return ['u', 'pow:%d' % int(x.exp), rd(x.base)]
        un = {sympy.floor: 'floor', sympy.ceiling: 'ceil', sympy.Abs: 'abs', sympy.sin: 'sin', sympy.cos: 'cos',
              sympy.exp: 'exp', sympy.Not: 'not'}
        if x.func in un and len(x.args) == 1:
            return ['u', un[x.func], rd(x.args[0])]
        nary = {sympy.Min: 'min', sympy.Max: 'max', sympy.And: 'and', sympy.Or: 'or'}
        if x.func in nary:
            return fold(nary[x.func], [rd(a) for a in x.args])
        rel = {sympy.StrictLessThan: 'lt', sympy.LessThan: 'le', sympy.StrictGreaterThan: 'gt',
               sympy.GreaterThan: 'ge', sympy.Equality: 'eq', sympy.Unequality: 'ne'}
        if x.func in rel:
            return ['b', rel[x.func], rd(x.args[0]), rd(x.args[1])]
        if isinstance(x, sympy.Piecewise):
            out = ['nan']
            for val, cond in reversed(x.args):
                out = rd(val) if cond is sympy.true else ['ite', rd(cond), rd(val), out]
            return out
        if isinstance(x, sympy.Sum) and len(x.limits) == 1 and len(x.limits[0]) == 3:
            i, lo, hi = x.limits[0]
            if unrn(i.name) not in NID:
                raise Unreadable(i.name)
            return ['sum', unrn(i.name), rd(lo), rd(hi), rd(x.function)]
        if isinstance(x, sympy.Indexed) and len(x.indices) == 1 and unrn(str(x.base)) in BASES:
            return ['idx', unrn(str(x.base)), rd(x.indices[0])]
        if isinstance(x, IndexedBroadcast):
            return ['ibc', rd(x.args[0]), int(x.args[1][0]), rd(x.args[2])]
        raise Unreadable(type(x).__name__)
    return rd(x)


def gq(q):
    q = F(q)
    return '(%d # %d)' % (q.numerator, q.denominator)


def to_coq(e):
    k = e[0]
    if k == 'c':
        return '(Const %s)' % gq(e[1])
    if k == 'nan':
        return 'Nan'
    if k == 'v':
        return '(Var %d%%N)' % NID[e[1]]
    if k == 'u':
        op = e[1]
        if op.startswith('pow:'):
            o = '(UPow (%d)%%Z)' % int(op[4:])
        elif op in FNS:
            o = '(UFn %d%%N)' % FNS[op]
        else:
            o = UOPS[op]
        return '(Un %s %s)' % (o, to_coq(e[2]))
    if k == 'b':
        return '(Bin %s %s %s)' % (BOPS[e[1]], to_coq(e[2]), to_coq(e[3]))
    if k == 'ite':
        return '(Ite %s %s %s)' % (to_coq(e[1]), to_coq(e[2]), to_coq(e[3]))
    if k == 'sum':
        return '(Sum %d%%N %s %s %s)' % (NID[e[1]], to_coq(e[2]), to_coq(e[3]), to_coq(e[4]))
    if k == 'idx':
        return '(Idx %d%%N %s)' % (NID[e[1]], to_coq(e[2]))
    if k == 'ibc':
        return '(IBc %s (%d)%%Z %s)' % (to_coq(e[1]), e[2], to_coq(e[3]))
    raise ValueError(e)


# ---------------------------------------------------------------------------------------------------------------------
# structure

def subterms(e):
    yield e
    k = e[0]
    kids = {'u': e[2:3], 'b': e[2:4], 'ite': e[1:4], 'sum': e[2:5], 'idx': e[2:3]}.get(k, [])
    if k == 'ibc':
        kids = [e[1], e[3]]
    for c in kids:
        yield from subterms(c)


def size(e):
    return sum(1 for _ in subterms(e))


def kinds(e):
    out = set()
    for s in subterms(e):
        if s[0] in ('u', 'b'):
            out.add(s[1].split(':')[0])
        else:
            out.add(s[0])
    return out


def fv(e):
    k = e[0]
    if k == 'v':
        return {e[1]}
    if k == 'u':
        return fv(e[2])
    if k == 'b':
        return fv(e[2]) | fv(e[3])
    if k == 'ite':
        return fv(e[1]) | fv(e[2]) | fv(e[3])
    if k == 'sum':
        return fv(e[2]) | fv(e[3]) | (fv(e[4]) - {e[1]})
    if k == 'idx':
        return fv(e[2])
    if k == 'ibc':
        return fv(e[1]) | fv(e[3])
    return set()


def fvv(e):
    return {s[1] for s in subterms(e) if s[0] == 'idx'}


def has_fn(e):
    return any(s[0] == 'u' and s[1] in FNS for s in subterms(e))


def capture_free(s, e):
    """mirror of Model.capture_free (only used to classify an already failing case)"""
    k = e[0]
    if k in ('c', 'nan', 'v'):
        return True
    if k == 'u':
        return capture_free(s, e[2])
    if k == 'b':
        return capture_free(s, e[2]) and capture_free(s, e[3])
    if k == 'ite':
        return all(capture_free(s, x) for x in e[1:4])
    if k == 'idx':
        return capture_free(s, e[2])
    if k == 'ibc':
        return capture_free(s, e[1]) and capture_free(s, e[3])
    if k == 'sum':
        s2 = {x: t for x, t in s.items() if x != e[1]}
        return (capture_free(s, e[2]) and capture_free(s, e[3]) and
                all(e[1] not in fv(s2[x]) for x in fv(e[4]) if x in s2) and capture_free(s2, e[4]))
    raise ValueError(e)


def subst(s, e):
    """mirror of Model.subst (simultaneous, index shadowed, capturing)"""
    k = e[0]
    if k == 'v':
        return s.get(e[1], e)
    if k == 'u':
        return ['u', e[1], subst(s, e[2])]
    if k == 'b':
        return ['b', e[1], subst(s, e[2]), subst(s, e[3])]
    if k == 'ite':
        return ['ite', subst(s, e[1]), subst(s, e[2]), subst(s, e[3])]
    if k == 'sum':
        s2 = {x: t for x, t in s.items() if x != e[1]}
        return ['sum', e[1], subst(s, e[2]), subst(s, e[3]), subst(s2, e[4])]
    if k == 'idx':
        return ['idx', e[1], subst(s, e[2])]
    if k == 'ibc':
        return ['ibc', subst(s, e[1]), e[2], subst(s, e[3])]
    return e


# ---------------------------------------------------------------------------------------------------------------------
# reference evaluator (steering only)

class EvalError(Exception):
    pass


def fn_value(f, x):
    try:
        return F({'sin': math.sin, 'cos': math.cos, 'exp': math.exp}[f](float(x)))
    except OverflowError:
        raise EvalError('fn')


def py_eval(e, sc, vc, trace=None, fnt=None, eager=False, karr=()):
    """value of the formula over Fractions; trace collects every intermediate value, fnt the (f, arg, value) triples;
    karr: ids of Sum nodes that follow the Karr convention over an empty range (sum_{lo}^{hi} = -sum_{hi+1}^{lo-1} for
    hi < lo - 1), which is how sympy simplifies a Sum whose limits are numbers (finding sum-reversed-limits)"""
    def ev(e, sc):
        k = e[0]
        if k == 'c':
            r = F(e[1])
        elif k == 'nan':
            raise EvalError('nan')
        elif k == 'v':
            if e[1] not in sc:
                raise EvalError('unbound')
            r = sc[e[1]]
        elif k == 'u':
            x, op = ev(e[2], sc), e[1]
            if op == 'neg':
                r = -x
            elif op == 'floor':
                r = F(math.floor(x))
            elif op == 'ceil':
                r = F(math.ceil(x))
            elif op == 'abs':
                r = abs(x)
            elif op == 'not':
                r = F(int(x == 0))
            elif op.startswith('pow:'):
                n = int(op[4:])
                if n < 0 and x == 0:
                    raise EvalError('divzero')
                r = x ** n
            else:
                r = fn_value(op, x)
                if fnt is not None:
                    fnt.append((op, x, r))
        elif k == 'b':
            x, y, op = ev(e[2], sc), ev(e[3], sc), e[1]
            if op in ('div', 'floordiv') and y == 0:
                raise EvalError('divzero')
            r = {'add': lambda: x + y, 'sub': lambda: x - y, 'mul': lambda: x * y, 'div': lambda: x / y,
                 'floordiv': lambda: F(math.floor(x / y)), 'min': lambda: min(x, y), 'max': lambda: max(x, y),
                 'lt': lambda: F(x < y), 'le': lambda: F(x <= y), 'gt': lambda: F(x > y), 'ge': lambda: F(x >= y),
                 'eq': lambda: F(x == y), 'ne': lambda: F(x != y), 'and': lambda: F(x != 0 and y != 0),
                 'or': lambda: F(x != 0 or y != 0)}[op]()
        elif k == 'ite':
            if eager:      # numpy.select / sympy substitution evaluate every branch
                c, x, y = ev(e[1], sc), ev(e[2], sc), ev(e[3], sc)
                r = x if c != 0 else y
            else:
                r = ev(e[2], sc) if ev(e[1], sc) != 0 else ev(e[3], sc)
        elif k == 'sum':
            lo, hi = ev(e[2], sc), ev(e[3], sc)
            if lo.denominator != 1 or hi.denominator != 1:
                raise EvalError('type')
            if hi - lo > 64:
                raise EvalError('big')
            if hi < lo and fnt is not None:
                fnt.append(('reversed', lo, hi))
            r = F(0)
            for kk in range(int(lo), int(hi) + 1):
                r += ev(e[4], {**sc, e[1]: F(kk)})
            if hi < lo - 1 and id(e) in karr:
                if lo - hi > 64:
                    raise EvalError('big')
                for kk in range(int(hi) + 1, int(lo)):
                    r -= ev(e[4], {**sc, e[1]: F(kk)})
        elif k == 'idx':
            if e[1] not in vc:
                raise EvalError('unbound')
            i = ev(e[2], sc)
            l = vc[e[1]]
            if i.denominator != 1 or not -len(l) <= i < len(l):
                raise EvalError('index')
            r = l[int(i)]
        elif k == 'ibc':
            x, i = ev(e[1], sc), ev(e[3], sc)
            if i.denominator != 1 or not -e[2] <= i < e[2]:
                raise EvalError('index')
            r = x
        else:
            raise ValueError(e)
        if trace is not None:
            trace.append((e, r))
        return r
    return ev(e, sc)


def tjoin(a, b):
    return 'float' if 'float' in (a, b) else 'time' if 'time' in (a, b) else 'int'


def abstract_literals(e, tsc):
    """the convention of ModelT: every decimal float literal becomes a reserved variable bound to (value, float).
    -> (formula without 'f' constants, extended typed scope); None when there are more literals than reserved names"""
    tsc = dict(tsc)
    table = {}

    def go(x):
        if x[0] == 'c' and x[2] == 'f':
            q = F(x[1])
            if q not in table:
                if len(table) >= len(LITS):
                    raise EvalError('lits')
                table[q] = LITS[len(table)]
                tsc[table[q]] = (q, 'float')
            return ['v', table[q]]
        return [go(y) if isinstance(y, list) else y for y in x]
    try:
        return go(e), tsc
    except EvalError:
        return None


def typed_eval(e, tsc, tvc, exact=True):
    """mirror of ModelT.evalT: value AND Python type (int | time | float) of the formula as the lambda computes it
    (non-integer Rational constant -> TimeType in the exact mode, float in the numeric mode; int / int -> float,
    int ** negative -> float, floor/ceiling/comparison -> int, Min/Max -> type of the selected operand unless a float is
    among the candidates, Piecewise = numpy.select with a float default -> float).
    tsc: name -> (Fraction, type); tvc: base -> (list, type).  -> (value, type); raises EvalError"""
    def ev(e, sc):
        k = e[0]
        if k == 'c':
            q = F(e[1])
            return q, ('float' if e[2] == 'f' else 'int' if q.denominator == 1 else 'time' if exact else 'float')
        if k == 'nan':
            raise EvalError('nan')
        if k == 'v':
            if e[1] not in sc:
                raise EvalError('unbound')
            return sc[e[1]]
        if k == 'u':
            (x, t), op = ev(e[2], sc), e[1]
            if op in ('floor', 'ceil', 'not'):
                return py_eval(['u', op, ['c', str(x), 'r']], {}, {}), 'int'
            if op.startswith('pow:'):
                v = py_eval(['u', op, ['c', str(x), 'r']], {}, {})
                return v, ('float' if t == 'int' and int(op[4:]) < 0 else t)
            if op in FNS:
                return fn_value(op, x), 'float'
            return py_eval(['u', op, ['c', str(x), 'r']], {}, {}), t
        if k == 'b':
            (x, tx), (y, ty), op = ev(e[2], sc), ev(e[3], sc), e[1]
            v = py_eval(['b', op, ['c', str(x), 'r'], ['c', str(y), 'r']], {}, {})
            if op == 'div':
                return v, ('float' if tx == 'int' and ty == 'int' else tjoin(tx, ty))
            if op in CMPS + ['and', 'or', 'floordiv']:
                return v, 'int'
            if op in ('min', 'max'):
                sel = tx if v == x else ty
                return v, ('float' if 'float' in (tx, ty) else sel)
            return v, tjoin(tx, ty)
        if k == 'ite':
            c, _ = ev(e[1], sc)
            v, t = ev(e[2], sc) if c != 0 else ev(e[3], sc)
            return v, 'float'
        if k == 'sum':
            (lo, _), (hi, _) = ev(e[2], sc), ev(e[3], sc)
            if lo.denominator != 1 or hi.denominator != 1:
                raise EvalError('type')
            if hi - lo > 64:
                raise EvalError('big')
            r, t = F(0), 'int'
            for kk in range(int(lo), int(hi) + 1):
                v, tv = ev(e[4], {**sc, e[1]: (F(kk), 'int')})
                r, t = r + v, tjoin(t, tv)
            return r, t
        if k == 'idx':
            if e[1] not in tvc:
                raise EvalError('unbound')
            i, _ = ev(e[2], sc)
            l, t = tvc[e[1]]
            if i.denominator != 1 or not -len(l) <= i < len(l):
                raise EvalError('index')
            return l[int(i)], t
        if k == 'ibc':
            (x, t), (i, _) = ev(e[1], sc), ev(e[3], sc)
            if i.denominator != 1 or not -e[2] <= i < e[2]:
                raise EvalError('index')
            return x, t
        raise ValueError(e)
    return ev(e, tsc)


def typed_scope(scope):
    """harness scope -> (tsc, tvc) for typed_eval"""
    base = {'int': 'int', 'npint': 'int', 'float': 'float', 'npfloat': 'float', 'npf32': 'float', 'time': 'time',
            'frac': 'time'}
    tsc, tvc = {}, {}
    for x, tv in scope.items():
        if tv['ty'] in ('arri', 'arrf'):
            if x in BASES:
                tvc[x] = ([F(q) for q in tv['v']], 'int' if tv['ty'] == 'arri' else 'float')
        else:
            tsc[x] = (F(tv['v']), base[tv['ty']])
    return tsc, tvc


# ---------------------------------------------------------------------------------------------------------------------
# round 4: input classes of the magnitude findings (used ONLY to name the finding of an already rejected case)

def digits15_lossy(q):
    """does the double q change when written with 15 significant decimal digits (what sympy's printers do with a
    Float of default precision)?"""
    try:
        x = float(F(q))
        return float('%.15g' % x) != x
    except (OverflowError, ValueError):
        return True


def repr_differs(q):
    """is the shortest decimal representation of the double q (what TimeType.from_float reads, by design) a different
    number than the double itself?"""
    try:
        x = float(F(q))
        return F(repr(x)) != F(x)
    except (OverflowError, ValueError):
        return True


I64 = (-2 ** 63, 2 ** 63 - 1)


class _NpOverflow(Exception):
    pass


def np_int_overflow(e, points, vc_kinds, array_names=()):
    """numpy-int-overflow, the class.  points: list of scopes name -> (Fraction, kind) (one per sample point), kind
    'py' (Python int / TimeType: arbitrary size), 'np' (numpy.int64 scalar or int array: fixed width), 'flt';
    vc_kinds: base -> (list, kind).  True when the evaluation, as the generated numpy code performs it, has an integer
    operation on a fixed-width operand whose result leaves int64, or hands a Python int outside int64 to a numpy
    function (Abs, Min, Max, Piecewise turn Python ints into numpy.int64; floor / ceiling of an ARRAY cast to int64
    when every entry fits)."""
    fits = lambda x: x.denominator == 1 and I64[0] <= x <= I64[1]
    arr = set(array_names)
    cast = {}          # id(floor/ceil node over an array) -> every sample point fits int64

    def ev(e, sc, probe):
        k = e[0]
        if k == 'c':
            q = F(e[1])
            return q, ('flt' if e[2] == 'f' or q.denominator != 1 else 'py')
        if k == 'v':
            return sc[e[1]]
        if k == 'nan':
            raise EvalError('nan')
        if k == 'u':
            (x, kx), op = ev(e[2], sc, probe), e[1]
            if op in ('floor', 'ceil'):
                r = F(math.floor(x)) if op == 'floor' else F(math.ceil(x))
                if fv(e[2]) & arr:
                    if probe:
                        cast[id(e)] = cast.get(id(e), True) and fits(r)
                        return r, 'np'
                    return r, ('np' if cast.get(id(e)) else 'flt')
                return r, ('np' if kx == 'np' else 'py')
            if kx == 'flt':
                return py_eval(['u', op, ['c', str(x), 'r']], {}, {}), 'flt'
            if op == 'abs':
                if not fits(x) and not 0 <= x < 2 ** 64:
                    return abs(x), 'py'       # numpy falls back to the Python object
                r = abs(x)
                if not fits(r) and kx == 'np':
                    raise _NpOverflow()
                return r, 'np'
            if op == 'not':
                return F(int(x == 0)), 'py'
            r = py_eval(['u', op, ['c', str(x), 'r']], {}, {})
            if op.startswith('pow:') and int(op[4:]) < 0:
                return r, 'flt'
            if kx == 'np' and not fits(r):
                raise _NpOverflow()
            return r, kx
        if k == 'b':
            (x, kx), (y, ky), op = ev(e[2], sc, probe), ev(e[3], sc, probe), e[1]
            r = py_eval(['b', op, ['c', str(x), 'r'], ['c', str(y), 'r']], {}, {})
            if op in CMPS + ['and', 'or']:
                return r, 'py'
            if op == 'floordiv':
                return r, ('np' if (fv(e) & arr) and fits(r) else 'py')
            if 'flt' in (kx, ky) or op == 'div':
                return r, 'flt'
            if op in ('min', 'max'):
                if not (fits(x) and fits(y)):
                    raise _NpOverflow()
                return r, 'np'
            if 'np' in (kx, ky):
                if not (fits(x) and fits(y) and fits(r)):
                    raise _NpOverflow()
                return r, 'np'
            return r, 'py'
        if k == 'ite':
            c, _ = ev(e[1], sc, probe)
            (x, kx), (y, ky) = ev(e[2], sc, probe), (ev(e[3], sc, probe) if e[3] != ['nan'] else (F(0), 'flt'))
            for z, kz in ((x, kx), (y, ky)):
                if kz != 'flt' and not fits(z):
                    raise _NpOverflow()
            return (x if c != 0 else y), 'flt'
        if k == 'sum':
            (lo, _), (hi, _) = ev(e[2], sc, probe), ev(e[3], sc, probe)
            if hi - lo > 64:
                raise EvalError('big')
            acc, ka = F(0), 'py'
            for kk in range(int(lo), int(hi) + 1):
                x, kx = ev(e[4], {**sc, e[1]: (F(kk), 'py')}, probe)
                acc += x
                ka = 'flt' if 'flt' in (ka, kx) else 'np' if 'np' in (ka, kx) else 'py'
                if ka == 'np' and not fits(acc):
                    raise _NpOverflow()
            return acc, ka
        if k == 'idx':
            i, _ = ev(e[2], sc, probe)
            l, kl = vc_kinds[e[1]]
            return l[int(i)], kl
        if k == 'ibc':
            return ev(e[1], sc, probe)
        raise ValueError(e)
    try:
        if arr:
            for p in points:
                try:
                    ev(e, p, True)
                except _NpOverflow:
                    pass
        for p in points:
            ev(e, p, False)
        return False
    except _NpOverflow:
        return True
    except Exception:
        return False


def int_div_inexact(e, tsc, tvc, exact=False):
    """int-div-through-float, the class: the typed evaluation divides two INT-typed values (true division, or `//`
    which is built as floor(a / b)) and the exact quotient is no double -- Python's int / int rounds it to one"""
    found = []

    def walk(e, sc):
        k = e[0]
        if k == 'b' and e[1] in ('div', 'floordiv') and (fv(e) or fvv(e)):     # (sympy folds closed quotients exactly)
            try:
                (x, tx), (y, ty) = typed_eval(e[2], sc, tvc, exact), typed_eval(e[3], sc, tvc, exact)
                if tx == 'int' and ty == 'int' and y != 0 and not is_double(x / y):
                    found.append(e)
            except EvalError:
                pass
        if k == 'sum':
            try:
                (lo, _), (hi, _) = typed_eval(e[2], sc, tvc, exact), typed_eval(e[3], sc, tvc, exact)
                for kk in range(int(lo), min(int(hi), int(lo) + 64) + 1):
                    walk(e[4], {**sc, e[1]: (F(kk), 'int')})
            except EvalError:
                pass
            walk(e[2], sc)
            walk(e[3], sc)
            return
        for x in e[1:]:
            if isinstance(x, list):
                walk(x, sc)
    try:
        walk(e, tsc)
    except Exception:
        return False
    return bool(found)


def eager_fails(e, sc, vc, dead=False):
    """does the formula fail when EVERY Piecewise branch is evaluated and combined with its context (numpy.select
    evaluates all branches; sympy moves surrounding operations into the branches)?  Set-valued evaluation.
    dead=True: additionally the body of a Sum over an EMPTY range is evaluated (once, at the lower limit) and a
    Piecewise without any branch (nan) counts as a failure -- "strict" evaluation of every part of the formula."""
    CAP = 24

    def app(f, *sets):
        import itertools
        out = []
        for combo in itertools.islice(itertools.product(*sets), 400):
            v = f(*combo)
            if v not in out:
                out.append(v)
        return out[:CAP]

    def ev(e, sc):
        k = e[0]
        if k == 'c':
            return [F(e[1])]
        if k == 'nan':
            if dead:
                raise EvalError('nan')
            return []
        if k == 'v':
            if e[1] not in sc:
                raise EvalError('unbound')
            return [sc[e[1]]]
        if k == 'ite':
            ev(e[1], sc)
            return (ev(e[2], sc) + ev(e[3], sc))[:CAP]
        if k == 'sum':
            los, his = ev(e[2], sc), ev(e[3], sc)
            acc = [F(0)]
            for lo in los[:1]:
                for hi in his[:1]:
                    if lo.denominator != 1 or hi.denominator != 1 or hi - lo > 64:
                        raise EvalError('type')
                    if dead and hi < lo:
                        ev(e[4], {**sc, e[1]: lo})
                    for kk in range(int(lo), int(hi) + 1):
                        acc = app(lambda x, y: x + y, acc, ev(e[4], {**sc, e[1]: F(kk)}))
            return acc
        one = lambda sub, scv: py_eval(sub, scv, vc)
        if k == 'u':
            return app(lambda x: one(['u', e[1], ['c', str(x), 'r']], sc), ev(e[2], sc))
        if k == 'b':
            return app(lambda x, y: one(['b', e[1], ['c', str(x), 'r'], ['c', str(y), 'r']], sc), ev(e[2], sc), ev(e[3], sc))
        if k == 'idx':
            return app(lambda x: one(['idx', e[1], ['c', str(x), 'r']], sc), ev(e[2], sc))
        if k == 'ibc':
            return app(lambda x, y: one(['ibc', ['c', str(x), 'r'], e[2], ['c', str(y), 'r']], sc), ev(e[1], sc), ev(e[3], sc))
        raise ValueError(e)
    try:
        ev(e, sc)
        return False
    except EvalError:
        return True


def analyse(e, sc, vc):
    """-> dict(value | err, inexact: some intermediate value is not dyadic / a function value is used,
               fragile: a discontinuous operation sits exactly on its jump while its argument is inexact,
               fnt: interpretation triples)"""
    trace, fnt = [], []
    try:
        v = py_eval(e, sc, vc, trace, fnt)
        out = {'value': v}
    except EvalError as ex:
        out = {'err': str(ex)}
    vals = {}
    for sub, r in trace:
        vals.setdefault(id(sub), []).append(r)

    def inexact_sub(sub):
        # sympy rewrites x / 0.375 into 2.66666666666667*x: a division by a float literal is inexact
        for s in subterms(sub):
            if s[0] == 'b' and s[1] in ('div', 'floordiv') and not fv(s[3]) and not fvv(s[3]):
                if any(c[0] == 'c' and c[2] == 'f' for c in subterms(s[3])):
                    return True
                if any(r == 0 or not is_dyadic(1 / r) for r in vals.get(id(s[3]), [])):
                    return True
        # float pow is not correctly rounded: (-4.53125)**4 is off by one ulp although the result is representable
        if any(s[0] == 'u' and s[1].startswith('pow:') and abs(int(s[1][4:])) > 2 for s in subterms(sub)):
            return True
        if PRECISE[0]:
            return any(s[0] == 'u' and s[1] in FNS for s in subterms(sub)) or \
                any(not is_double(r) for s in subterms(sub) for r in vals.get(id(s), []))
        return any(s[0] == 'u' and s[1] in FNS for s in subterms(sub)) or \
            any(not is_dyadic(r) or abs(r) > 2 ** 40 or r.numerator.bit_length() > 53
                for s in subterms(sub) for r in vals.get(id(s), []))
    fragile = False
    for sub, r in trace:
        if sub[0] == 'u' and sub[1] in ('floor', 'ceil') and inexact_sub(sub[2]):
            if any(x.denominator == 1 for x in vals.get(id(sub[2]), [])):
                fragile = True
        if sub[0] == 'b' and sub[1] == 'floordiv' and (inexact_sub(sub) or inexact_sub(sub[2]) or inexact_sub(sub[3])):
            fragile = True
        if sub[0] == 'b' and sub[1] in CMPS + ['min', 'max'] and (inexact_sub(sub[2]) or inexact_sub(sub[3])):
            xs, ys = vals.get(id(sub[2]), []), vals.get(id(sub[3]), [])
            if any(abs(x - y) < F(1, 10 ** 6) for x in xs for y in ys):
                fragile = True
        if sub[0] in ('idx', 'ibc', 'sum') and any(inexact_sub(s) for s in (sub[2:4] if sub[0] == 'sum' else [sub[-1]])):
            fragile = True
    out['inexact'] = inexact_sub(e)
    out['fragile'] = fragile
    out['reversed_sum'] = any(f == 'reversed' for f, _, _ in fnt)
    out['fnt'] = [x for x in fnt if x[0] != 'reversed']
    return out


# ---------------------------------------------------------------------------------------------------------------------
# generators

def g_const(rng, allow_nondyadic=True):
    r = rng.random()
    if r < 0.5:
        return ['c', str(rng.randint(-4, 6)), 'i']
    if r < 0.8 or not allow_nondyadic:
        q = F(rng.randint(-24, 40), rng.choice([2, 4, 8]))
        return ['c', str(q), 'f' if rng.random() < 0.7 else 'r']
    return ['c', str(F(rng.randint(-9, 12), rng.choice([3, 5, 6, 7, 10]))), 'r']


def g_int(rng, depth, scope):
    """integer-valued formula over int variables / bound indices (for indices and summation limits)"""
    r = rng.random()
    leaves = INTS + list(scope)
    if depth <= 0 or r < 0.55:
        if rng.random() < 0.45:
            return ['c', str(rng.randint(-1, 3)), 'i']
        return ['v', rng.choice(leaves)]
    op = rng.choice(['add', 'sub', 'mul', 'add'])
    return ['b', op, g_int(rng, depth - 1, scope), g_int(rng, depth - 1, scope)]


def g_cond(rng, depth, scope, cfg):
    r = rng.random()
    if depth > 0 and r < 0.2:
        return ['b', rng.choice(['and', 'or']), g_cond(rng, depth - 1, scope, cfg), g_cond(rng, depth - 1, scope, cfg)]
    if depth > 0 and r < 0.27:
        return ['u', 'not', g_cond(rng, depth - 1, scope, cfg)]
    op = rng.choice(['lt', 'le', 'gt', 'ge', 'lt', 'ge', 'eq', 'ne'])
    return ['b', op, g_expr(rng, depth - 1, scope, cfg), g_expr(rng, depth - 1, scope, cfg)]


def g_expr(rng, depth, scope=(), cfg=None):
    cfg = cfg or {}
    r = rng.random()
    if depth <= 0 or r < 0.16:
        r2 = rng.random()
        if r2 < 0.3:
            return g_const(rng, cfg.get('nondyadic', True))
        pool = SCALARS[:cfg.get('nvars', 4)] + list(scope) * 2
        if pool and rng.random() < 0.3:
            pool = pool + INTS
        if not pool:
            return g_const(rng, cfg.get('nondyadic', True))
        if cfg.get('time_var') and rng.random() < 0.4:
            return ['v', 't']
        return ['v', rng.choice(pool)]
    w = [('add', 14), ('sub', 12), ('mul', 14), ('div', 9), ('neg', 5), ('pow', 6), ('min', 5), ('max', 5),
         ('floor', 5), ('ceil', 4), ('floordiv', 5), ('abs', 4), ('ite', 6 if cfg.get('ite', True) else 0),
         ('sum', 6 if cfg.get('sum', True) and len(scope) < 2 else 0), ('idx', 4 if cfg.get('idx', True) else 0),
         ('ibc', 2 if cfg.get('ibc', True) else 0), ('fn', 2 if cfg.get('fn', False) else 0)]
    tot = sum(x for _, x in w)
    pick = rng.random() * tot
    for name, x in w:
        pick -= x
        if pick < 0:
            break
    sub = lambda: g_expr(rng, depth - 1, scope, cfg)
    if name in ('add', 'sub', 'mul', 'div', 'min', 'max', 'floordiv'):
        return ['b', name, sub(), sub()]
    if name in ('neg', 'floor', 'ceil', 'abs'):
        return ['u', name, sub()]
    if name == 'pow':
        return ['u', 'pow:%d' % rng.choice([2, 2, 3, -1, -2, 0, 1, 4]), sub()]
    if name == 'fn':
        return ['u', rng.choice(sorted(FNS)), sub()]
    if name == 'ite':
        els = ['nan'] if rng.random() < 0.12 else sub()
        return ['ite', g_cond(rng, min(depth - 1, 1), scope, cfg), sub(), els]
    if name == 'sum':
        idx = rng.choice([i for i in INDICES if i not in scope])
        lo = rng.choice([['c', '0', 'i'], ['c', '1', 'i'], ['c', '-1', 'i'], g_int(rng, 1, scope)])
        hi = rng.choice([['v', 'n'], ['v', 'm'], ['c', '2', 'i'], ['c', '3', 'i'], g_int(rng, 1, scope)])
        return ['sum', idx, lo, hi, g_expr(rng, depth - 1, tuple(scope) + (idx,), cfg)]
    if name == 'idx':
        return ['idx', rng.choice(BASES), g_int(rng, 1, scope)]
    if name == 'ibc':
        return ['ibc', sub(), rng.choice([1, 2, 3]), g_int(rng, 0, scope)]
    raise AssertionError(name)


def g_value(rng, ty):
    """a JSON-able typed number {'ty', 'v'}: ty in int | float | time | frac | npint | npfloat"""
    if ty in ('int', 'npint'):
        return {'ty': ty, 'v': str(rng.choice([0, 1, 2, 3, -1, -2, rng.randint(-6, 7)]))}
    if ty in ('float', 'npfloat'):
        return {'ty': ty, 'v': str(F(rng.randint(-28, 36), rng.choice([1, 2, 4, 8])))}
    return {'ty': ty, 'v': str(F(rng.randint(-20, 24), rng.choice([1, 2, 3, 4, 5, 7, 8])))}


PROFILES = {'int': ['int'], 'float': ['float', 'float', 'int'], 'time': ['time', 'time', 'int'],
            'mixed': ['int', 'float', 'time'], 'numpy': ['npint', 'npfloat', 'float'], 'frac': ['frac', 'int']}


def g_scope(rng, e, profile, extra=()):
    """values for every variable of e (+extra): int-sorted variables and indexed bases are always ints / int arrays"""
    sc = {}
    for x in sorted(fv(e) | set(extra)):
        if x in INTS or x in INDICES:
            sc[x] = {'ty': 'npint' if profile == 'numpy' and rng.random() < 0.5 else 'int',
                     'v': str(rng.choice([0, 1, 2, 2, 3, 4, -1, -2]))}
        else:
            sc[x] = g_value(rng, rng.choice(PROFILES[profile]))
    for x in sorted(fvv(e)):
        n = rng.randint(3, 5)
        if profile in ('float', 'numpy') and rng.random() < 0.5:
            sc[x] = {'ty': 'arrf', 'v': [str(F(rng.randint(-16, 24), rng.choice([1, 2, 4]))) for _ in range(n)]}
        else:
            sc[x] = {'ty': 'arri', 'v': [str(rng.randint(-5, 9)) for _ in range(n)]}
    return sc


def split_scope(scope):
    """-> (scalar Fractions, base lists, array-valued scalars)"""
    sc, vc, arr = {}, {}, {}
    for x, tv in scope.items():
        if tv['ty'] in ('arri', 'arrf'):
            if x in BASES:
                vc[x] = [F(s) for s in tv['v']]
            else:
                arr[x] = [F(s) for s in tv['v']]
        else:
            sc[x] = F(tv['v'])
    return sc, vc, arr
