"""C01 — an instantiated program plays exactly the voltages the template describes."""
import fractions
import math
import os
import warnings

import vlib
from vlib import gZ, gQ, gN
from props import c01_gen as G
from props import c01_gen2 as G2
from props import c01_gen3 as G3
from props import c01_gen4 as G4
from props import c01_gen5 as G5

F = fractions.Fraction
PID = 'C01'
COQ_DIRS = ['common', 'C01']
TARGETS = ['C01/Props.vo', 'C01/Corr.vo']
MODEL_TARGETS = ['C01/Corr.vo']
PROPS_FILE = 'C01/Props.v'
PROPS_MODULE = 'QV.C01.Props'
CORR_IMPORTS = ['QV.C01.Model', 'QV.C01.Spec', 'QV.C01.Corr']
CHECK_CORR = 'check_corr'
CHECK_SPEC = 'check_spec'
SHARD = 120
RULE = ('template trees over 13 node kinds (constant, table hold/jump/linear, point, affine function, atomic '
        'multi-channel, atomic arithmetic, sequence, repetition, for-loop, mapping, time reversal, parallel channel, scalar arithmetic), '
        'nesting <= 5 (quick) / 7 (thorough), 1-3 channels (string and integer ids incl. 0), dyadic parameter values, '
        'parameterised times / voltages / counts / ranges, parameter mappings incl. shadowing and loop-index routing, '
        'channel renaming and dropping inside the tree and at the top, for-loops with empty / single / negative-step '
        'ranges, repetition counts 0..3 or following the loop index; malformed stream: missing parameter, non-integer '
        'count / range, zero step, non-monotone table, unequal durations; constant-folding stream: equal-voltage constant '
        'siblings around reversed / count-1 repeated / reversed-repeated sequences of ramps; the operator table of '
        'ArithmeticPT (operand order x operator x scalar form plain / all channels / strict subset); exhaustive small scope '
        'of four-entry tables over binary time-increment / value alphabets, plain and reversed (thorough: all 3744, '
        'quick: 60 of them); tables with one, two or '
        '(3 %) three entries at the final time.  Grid: every multiple of 1/4 up to the '
        'duration (sub-sampled to <= 40 points, all junctions of the generated trees lie on it) + off-grid points + '
        't = duration; the same grid read through plotting.render(sample_rate=4) (+ all rendered points compared with '
        'get_sampled).  Round 3 families (c01_gen2): loop index REBOUND by a mapping between loop and body (rebinding '
        'expression x node below the mapping x position x range; exhaustive small scope in thorough), x -> f(x) / swap / cycle '
        'mappings of parameters and channels, a parameter called t, one template object in several places + warm-up '
        'instantiation with other values + decoy-grid / repeated / output_array sampling, the longest table channel dropped, '
        'declared-as-empty overwrite / scalar mapping / None arguments, AtomicMultiChannelPT parts with parameterised '
        'durations (0, negative, dropped, all zero, under a loop).  Round 4 (c01_gen3): DECIMAL stream = real templates '
        '(repetition / for-loop / sequence / mapping / reversal / arithmetic / parallel over two-entry ramps, function ramps, '
        'points, constants, multi-channel and arithmetic atoms whose start and end values differ by >= 1) with durations '
        'k/10, k/5, k/20, k/100, k/3, k/12, k/6, k/7 handed over as float / decimal string / fraction string / Fraction '
        'literal / TimeType (literal or parameter), as products d*k, d*i of TimeType parameters and as i/den; grid = every '
        'junction (correctly rounded double of the exact rational) + interior points + t = duration; plotting.render at '
        'sample rates 10, 20, 5, 2.5, 30, 3, 12, 6, 1.5, 2.4, 4.8, 24, 7, 14, 100, 50, 40 (int / float / Fraction / TimeType); '
        'deterministic family duration x position x form x shape x count (quick: 90 of them, thorough: every '
        'duration x position x form x shape); values compared under the tolerance 2^-30, everything else exactly.  Repetition '
        'counts / loop ranges computed as T/d from decimal floats whose quotient is an ulp below / above the integer.  Flagged '
        'family of three-entry tables at a non-zero decimal offset (known finding).  Variations of the generic stream: pure '
        'constants as Python numbers, parameters as Scope object, parameters as numpy scalars (float64 / int64 / uint16); '
        'edge family: create_program defaults, right-only constant channel of ArithmeticAtomicPT, channel ids -1 / -2 '
        '(colliding hashes), zero-duration tables / points alone, in sequences, repeated, looped; the empty sample grid.  '
        'Round 5 (c01_gen4): family tdep = time dependent ParallelChannelPT values / ArithmeticPT scalars a + b*t on atoms that do '
        'not start at program time 0 (later pass of a repetition / loop, later sequence member, inside a reversal, renamed / dropped '
        'channel, under scalar arithmetic, dyadic and decimal durations), judged against the equivalent tree of modelled node kinds; '
        'every input of the known-finding class par-under-transformation once more for the model comparison alone.  '
        'Round 6 (c01_gen5): family wfpart = ArithmeticAtomicPT whose operand is dropped completely / partly by the channel mapping '
        '(negation wrapper, subsets; 14 recipes) x way of dropping x 10 positions (alone, later sequence member, repetition, loop, '
        'reversal, under scalar arithmetic / a parallel channel, renamed, decimal durations); family sweep = a parameter sweep over '
        'one template object whose sampled arrays are kept while the programs are dropped (4 value sets x 5 one after the other, or '
        'x 8 alive together), then the judged values.  '
        'Non-trivial = tree with >= 3 nodes that instantiates to a program.')
TRUSTED = [
    'Coq 8.16.1 kernel + vm_compute (no native_compute)',
    'harness: generator, construction of the qupulse objects from the JSON tree, exact float->rational conversion, '
    'Gallina printers, exception -> error-kind mapping',
    'numpy / sympy / gmpy2 behave as modelled on dyadic inputs (binary64 arithmetic exact there)',
    'decimal stream: binary64 rounding of the sample VALUES is not modelled; it is bounded by the declared absolute '
    'tolerance 2^-30 (checked, counted apart as inexact_cases); durations, channel sets and junction assignment are exact',
    'pointwise reading of the vectorised samplers (searchsorted slices) for sorted grids',
    'family tdep: the translation of a time dependent ParallelChannelPT value / ArithmeticPT scalar into an equivalent tree '
    '(FunctionPT of the atom\'s duration inside AtomicMultiChannelPT / ArithmeticAtomicPT) is harness code; the Coq model has no '
    'time dependent transformation step',
    'family sweep: the inputs are deterministic, but whether a defect keyed by object identity shows depends on CPython handing the '
    'address of a dead waveform to a new one (measured with seeded change C01-10: 26-33 of 64 cases)',
]
ASSUMPTIONS = [
    'generated numbers are dyadic with small numerators so that numpy float arithmetic is exact (all streams but the decimal one)',
    'decimal stream: only number forms that reach the waveform as the exact rational (measured: decimal fractions in every '
    'form; thirds / twelfths / sevenths as TimeType, and as fraction string / Fraction in table entry times and FunctionPT '
    'durations); a Fraction as parameter VALUE is rejected by qupulse (NonNumericEvaluation) and is not generated',
    'checked_int_cast tolerance (1e-6) is outside the generated domain',
    'no zero-length linear table segment (tbl_guard); channel mappings injective on the complete mapping',
    'FunctionPT: affine expressions a + b*t with positive duration only',
    'measurements, parameter constraints, to_single_waveform, volatile parameters are not exercised (C02/C03/C05/C15)',
    'a parameter called t never occurs inside a FunctionPT expression, an ArithmeticPT scalar or a ParallelChannelPT value (there t is the time)',
    'family tdep: affine time dependence a + b*t only; grid inside [0, duration) (no sample at t = duration)',
]

INTERP = {'hold': 'Hold', 'jump': 'Jump', 'linear': 'Linear'}
ERRK = {'missing': 'EMissing', 'nonint': 'ENotInt', 'value': 'EValue'}


# ---------------------------------------------------------------------------------------------------------------------
# generation
def gen_cases(rng, tier, ctx):
    cases = []
    n = 330 if tier == 'quick' else 2000
    md = 5 if tier == 'quick' else 7
    for _ in range(n):
        cases.append(G.gen_case(rng, max_depth=md))
    # reduced alphabets (deeper coverage of the core fragment and of single node kinds)
    for kinds in (['const', 'table', 'seq', 'rep', 'for', 'map'], ['const', 'table', 'rev', 'seq', 'rep'],
                  ['const', 'par', 'arith', 'seq', 'map'], ['table'], ['point', 'multi', 'aarith', 'const', 'seq'],
                  ['func', 'const', 'seq', 'rev', 'rep', 'for', 'map', 'arith', 'multi']):
        for _ in range(40 if tier == 'quick' else 200):
            cases.append(G.gen_case(rng, max_depth=4, kinds=kinds))
    base = list(cases)
    for _ in range(60 if tier == 'quick' else 400):
        cases.append(G.malform(rng, rng.choice(base)))
    # constant siblings at equal voltage around nested non-constant sub-programs (constant folding in to_waveform)
    for _ in range(70 if tier == 'quick' else 500):
        cases.append(G.gen_fold_case(rng))
    # the operator table of ArithmeticPT: operand order x operator x scalar form (plain / all channels / strict subset)
    cases.extend(G.gen_arith_cases(rng, bodies=2 if tier == 'quick' else 12))
    # single tables over a small alphabet of times / values (de-duplication and constant detection of from_table)
    for _ in range(90 if tier == 'quick' else 800):
        cases.append(G.gen_table_case(rng))
    # exhaustive small scope of four-entry tables over binary alphabets (thorough: all 3744; quick: a random 60)
    allt = G.enum_table_cases()
    cases.extend(allt if tier != 'quick' else rng.sample(allt, 60))
    # round 3: name-coincidence (loop index rebound by a mapping, x -> 2*x, swaps, a parameter called `t`), aliasing
    # (one template object in several places, create_program called before with other values), dropped-longest-channel /
    # declared-as-empty families
    cases.extend(G2.gen_round3(rng, tier))
    # round 4: the decimal stream (durations / sample rates off the dyadic grid; compared under a declared tolerance)
    cases.extend(G3.gen_dec_cases(rng, tier))
    # ... and the two input-independent variations applied to a part of the generic stream
    for c in rng.sample(base, 40 if tier == 'quick' else 250):
        c2 = G2.with_t_name(rng, c)
        if c2 is not None:
            cases.append(c2)
    # round 4 (coverage audit): the same trees with pure constants handed over as Python numbers instead of strings, and
    # with the parameters given as a Scope object
    for j, c in enumerate(rng.sample(base, 36 if tier == 'quick' else 220)):
        c2 = dict(c)
        c2['numobj' if j % 3 else 'as_scope'] = True
        if j % 6 == 1:
            c2['as_scope'] = True
        cases.append(c2)
    # ... and with the parameter values handed over as numpy scalars (float64 / int64; unsigned 16 bit for non-negative
    # integers: `p - 2` must not wrap around)
    for j, c in enumerate(rng.sample([c for c in base if c['params']], 30 if tier == 'quick' else 200)):
        c2 = dict(c)
        c2['ptypes'] = {k: ('npu' if j % 2 else 'np') for k in c['params']}
        c2['nptypes'] = 'unsigned' if j % 2 else 'signed'
        cases.append(c2)
    cases.extend(G3.gen_edge_cases(rng))
    # round 5: time dependent transformation values (ParallelChannelPT value / ArithmeticPT scalar containing t) on atoms that
    # do not start at program time 0; judged against the equivalent tree of modelled node kinds (see c01_gen4)
    cases.extend(G4.gen_tdep_cases(rng, tier))
    # round 6: wrapper waveforms that only a particular atom recipe x channel mapping produces (negation of a pulse whose
    # left operand is dropped, subsets, ...) as parts of sequences / repetitions / loops / reversals (see c01_gen5)
    cases.extend(G5.gen_wfpart_cases(rng, tier))
    # round 6: parameter sweeps whose sampled arrays outlive the programs they came from (history; see c01_gen5)
    cases.extend(G5.gen_sweep_cases(rng, tier))
    for c in rng.sample(base, 30 if tier == 'quick' else 200):
        c2 = dict(c)
        c2['warm'] = {k: str(F(v) + rng.choice([F(1), F(-1), F(1, 2)])) for k, v in c['params'].items()}
        cases.append(c2)
    # round 5 (audit of the known-finding predicates): every input of the class `par-under-transformation` once more for the
    # model comparison alone (CCaseM): a classified specification failure hides the case from both oracles otherwise, and
    # the model mirrors the code on this class, so any OTHER change of behaviour on these inputs is still reported
    for c in [c for c in cases if not c.get('dec') and 'side' not in c and _par_under_trafo(c['pt'])]:
        c2 = dict(c)
        c2['side'] = 'corr'
        cases.append(c2)
    return cases


# ---------------------------------------------------------------------------------------------------------------------
# building the real objects
def _num(fr):
    fr = F(fr)
    return int(fr) if fr.denominator == 1 else float(fr)


def expr_str(e):
    k = e[0]
    if k == 'c':
        v = F(e[1])
        s = repr(_num(v))
        return '(%s)' % s if v < 0 else s
    if k == 'v':
        return e[1]
    if k == 'q':                      # decimal stream: literal with an exact rational value, written in a given form
        v = F(e[1])
        return repr(float(v)) if e[2] in ('float', 'dec_str') else '(%d/%d)' % (v.numerator, v.denominator)
    if k == 'dv':
        return '(%s / %s)' % (expr_str(e[1]), e[2])
    return '(%s %s %s)' % (expr_str(e[1]), k, expr_str(e[2]))


def _form(v, form):
    """the Python object a decimal-stream number is handed over as"""
    v = F(v)
    if form == 'float':
        return float(v)
    if form == 'int':
        return int(v)
    if form == 'dec_str':
        return repr(float(v))
    if form == 'frac_str':
        return '%d/%d' % (v.numerator, v.denominator)
    if form == 'fraction':
        return v
    if form in ('np', 'npu'):            # numpy scalars: float64 / int64, or unsigned for non-negative integers
        import numpy as np
        if v.denominator != 1:
            return np.float64(float(v))
        return np.uint16(int(v)) if form == 'npu' and 0 <= v < 60000 else np.int64(int(v))
    if form == 'time':
        from qupulse.utils.types import TimeType
        return TimeType.from_fraction(v.numerator, v.denominator)
    raise ValueError(form)


def expr_obj(e):
    """a TIME position (ConstantPT / FunctionPT duration, table / point entry time): a literal of the decimal stream is
    handed over as the object its form says (float, Fraction, TimeType, string); everything else as expression string"""
    if e[0] == 'q':
        return _form(e[1], e[2])
    return expr_str(e)


_NUMOBJ = [False]     # set per case by run_impl: pure constants are handed over as Python numbers instead of strings


def expr_val(e):
    """a VALUE position: with the case flag `numobj` a pure constant becomes a Python int / float (the templates keep such
    numbers as they are instead of wrapping them into expressions)"""
    if _NUMOBJ[0] and e[0] == 'c':
        return _num(e[1])
    return expr_str(e)


def build(n, memo=None):
    """the qupulse object of a JSON tree; structurally equal sub-trees become ONE shared Python object"""
    memo = {} if memo is None else memo
    key = vlib.canonical_hash(n)
    if key not in memo:
        memo[key] = _build(n, lambda x: build(x, memo))
    return memo[key]


def _build(n, build):
    from qupulse.pulses import (ConstantPT, TablePT, PointPT, AtomicMultiChannelPT, SequencePT, RepetitionPT, ForLoopPT,
                                MappingPT, TimeReversalPT, ParallelChannelPT, ArithmeticPT, ArithmeticAtomicPT,
                                FunctionPT)
    k = n['k']
    if k == 'const':
        return ConstantPT(expr_val(n['d']) if _NUMOBJ[0] else expr_obj(n['d']), {ch: expr_val(e) for ch, e in n['amps']})
    if k == 'table':
        return TablePT({ch: [(expr_val(t) if _NUMOBJ[0] else expr_obj(t), expr_val(v), i) for t, v, i in es] for ch, es in n['chs']},
                       consistency_check=False)
    if k == 'point':
        ents = []
        for t, vs, i in n['entries']:
            v = expr_val(vs[0]) if len(vs) == 1 else [expr_val(x) for x in vs]
            ents.append((expr_obj(t), v, i))
        return PointPT(ents, list(n['chs']))
    if k == 'multi':
        return AtomicMultiChannelPT(*[build(x) for x in n['subs']])
    if k == 'aarith':
        return ArithmeticAtomicPT(build(n['l']), n['op'], build(n['r']))
    if k == 'func':
        return FunctionPT('(%s) + (%s)*t' % (expr_str(n['a']), expr_str(n['b'])), expr_obj(n['d']), channel=n['ch'])
    if k == 'seq':
        return SequencePT(*[build(x) for x in n['subs']])
    if k == 'rep':
        return RepetitionPT(build(n['body']), expr_val(n['n']))
    if k == 'for':
        return ForLoopPT(build(n['body']), n['idx'], tuple(expr_val(e) for e in n['range']))
    if k == 'map':
        return MappingPT(build(n['body']), parameter_mapping={a: expr_str(b) for a, b in n['pm']},
                         channel_mapping={a: b for a, b in n['chm']}, allow_partial_parameter_mapping=True)
    if k == 'rev':
        return TimeReversalPT(build(n['body']))
    if k == 'par':
        return ParallelChannelPT(build(n['body']), {ch: expr_val(e) for ch, e in n['ow']})
    if k == 'arith':
        sc = n['scalar']
        scalar = {ch: expr_val(e) for ch, e in sc['map']} if isinstance(sc, dict) else expr_val(sc)
        body = build(n['body'])
        return ArithmeticPT(body, n['op'], scalar) if n['lhs'] else ArithmeticPT(scalar, n['op'], body)
    if k == 'tpar':                   # round 5: a time dependent overwritten channel  a + b*t  (b None: a constant one)
        return ParallelChannelPT(build(n['body']), {ch: (expr_val(a) if b is None else _tdep_str(a, b)) for ch, a, b in n['ow']})
    if k == 'tarith':                 # round 5: a time dependent scalar operand
        sc = n['scalar']
        scalar = {ch: _tdep_str(a, b) for ch, a, b in sc['map']} if isinstance(sc, dict) else _tdep_str(sc[0], sc[1])
        body = build(n['body'])
        return ArithmeticPT(body, n['op'], scalar) if n['lhs'] else ArithmeticPT(scalar, n['op'], body)
    raise ValueError(k)


def _tdep_str(a, b):
    return '(%s) + (%s)*t' % (expr_str(a), expr_str(b))


def grid_for(dur):
    """sample times: multiples of 1/4 in [0, dur) (sub-sampled), off-grid dyadic points, and t = dur"""
    dur = F(dur)
    n = int(math.floor(dur * 4))
    ks = list(range(n + 1))
    ks = [k for k in ks if F(k, 4) < dur]
    if len(ks) > 40:
        stride = len(ks) / 40.0
        sel = sorted(set([ks[int(j * stride)] for j in range(40)] + ks[:6] + ks[-6:]))
        # keep a contiguous window too (consecutive junctions)
        mid = len(ks) // 2
        sel = sorted(set(sel + ks[mid:mid + 8]))
        ks = sel
    pts = set(F(k, 4) for k in ks)
    for j, k in enumerate(ks):
        if j % 3 == 0:
            p = F(k, 4) + F(1, 16)
            if p < dur:
                pts.add(p)
        if j % 5 == 1:
            p = F(k, 4) + F(3, 16)
            if p < dur:
                pts.add(p)
    pts.add(dur)
    return sorted(pts)


def run_impl(case):
    import numpy as np
    from qupulse.program.loop import to_waveform
    from qupulse.parameter_scope import ParameterNotProvidedException
    from qupulse.expressions import ExpressionVariableMissingException
    from qupulse.pulses.repetition_pulse_template import ParameterNotIntegerException
    with warnings.catch_warnings():
        warnings.simplefilter('ignore')
        _NUMOBJ[0] = bool(case.get('numobj'))
        try:
            with vlib.time_limit(20):
                pt = build(case.get('pt_real', case['pt']), {('numobj', bool(case.get('numobj'))): None})
        except vlib.Timeout:
            return {'hang': True}
        except Exception as e:
            return {'crash': 'construction failed: %s: %s' % (type(e).__name__, str(e)[:200])}
        ptypes = case.get('ptypes', {})
        params = {k: (_form(v, ptypes[k]) if k in ptypes else _num(v)) for k, v in case['params'].items()}
        cm = {a: b for a, b in case['cm']}
        if case.get('top_none'):           # "not given" instead of "given as empty"
            params, cm = (params or None), (cm or None)
        if case.get('as_scope'):           # the parameters arrive as a Scope object instead of a dict
            from qupulse.parameter_scope import DictScope
            params = DictScope.from_kwargs(**(params or {}))
        # history: the same template object is instantiated with other values first, each program is sampled (also on the
        # grid of the check, without output array) and DROPPED while the sampled arrays stay referenced (`keep`) until the
        # case is over.  `warm`: one earlier assignment; `sweep` (round 6): several, durations unchanged
        # `sweep_hold` = n: the sweep is run n times and ALL its programs / waveforms stay alive until the last pass is over, then
        # they are dropped together (many dead objects whose results are still referenced when the judged pass starts)
        # a `sweep` case runs its JUDGED pass as the last iteration of the same loop (as a parameter sweep in a comprehension does:
        # identical allocation pattern in every pass, so CPython hands the address of a dead waveform to the next one)
        keep, alive = [], []
        hist = [{k: _num(v) for k, v in wv.items()} for wv in
                ([case['warm']] if 'warm' in case else []) + list(case.get('sweep', [])) * int(case.get('sweep_hold') or case.get('sweep_times', 1))]
        if 'sweep' in case:
            hist.append(params)
        objs = w = prog = None
        sweep_error = None
        for j, wv in enumerate(hist):
            objs = None
            if j == len(hist) - 1:
                del alive[:]
            try:
                with vlib.time_limit(30):
                    arrays, objs = _history_pass(pt, wv, cm, case)
                    keep.append(arrays)
                    if case.get('sweep_hold'):
                        alive.append(objs)
            except vlib.Timeout:
                return {'hang': True}
            except Exception as e:
                sweep_error = e
        try:
            with vlib.time_limit(30):
                if 'sweep' in case:
                    if objs is None:
                        return {'crash': 'sweep: the judged pass failed: %r' % (sweep_error,)}
                    prog, w = objs
                else:
                    prog = pt.create_program(parameters=params, channel_mapping=cm)
        except vlib.Timeout:
            return {'hang': True}
        except (ParameterNotProvidedException, ExpressionVariableMissingException):
            return {'err': 'missing'}
        except ParameterNotIntegerException:
            return {'err': 'nonint'}
        except (ValueError, AssertionError, ZeroDivisionError):
            return {'err': 'value'}
        except Exception as e:
            return {'crash': 'create_program: %s: %s' % (type(e).__name__, str(e)[:200])}
        if prog is None:
            return {'none': True}
        try:
            with vlib.time_limit(30):
                if w is None:
                    w = to_waveform(prog)
                dur = vlib.to_fraction(w.duration)
                # decimal stream: the grid comes with the case (exact junctions + interior points); the code is asked for
                # the correctly rounded doubles of these rationals
                ts = [F(t) for t in case['grid']] if 'grid' in case else grid_for(dur)
                arr = np.array([float(t) for t in ts])
                samples = []
                chans = sorted(w.defined_channels, key=lambda c: (isinstance(c, str), c))
                # stateful sampling: a decoy grid of the SAME length is sampled first on every channel, then the grid of
                # the check, then everything once more (py_spec: same answers; the caller's time array is not touched)
                decoy = arr * 0.5
                for ch in chans:
                    w.get_sampled(ch, decoy)
                for ch in chans[:1]:                 # an empty grid is a grid: empty answer, also into an empty output array
                    e0 = w.get_sampled(ch, np.array([], dtype=float))
                    e1 = w.get_sampled(ch, np.array([], dtype=float), output_array=np.array([], dtype=float))
                    if len(e0) != 0 or len(e1) != 0:
                        return {'crash': 'sampling on the empty grid returned %d / %d values' % (len(e0), len(e1))}
                arr_before = arr.copy()
                first = {}
                for ch in chans:
                    first[ch] = np.array(w.get_sampled(ch, arr), dtype=float)
                resample = None
                for ch in reversed(chans):
                    again = np.array(w.get_sampled(ch, arr), dtype=float)
                    buf = np.full_like(arr, -77.)
                    into = w.get_sampled(ch, arr, output_array=buf)
                    ins = arr < float(dur)       # t = duration is outside the half-open interval (left unwritten there)
                    if not (np.array_equal(again[ins], first[ch][ins], equal_nan=True)
                            and np.array_equal(into[ins], first[ch][ins], equal_nan=True)):
                        resample = 'get_sampled(%r, same times) answers differently when called again / into output_array' % (ch,)
                if not np.array_equal(arr, arr_before):
                    resample = 'get_sampled modified the caller\'s sample_times array'
                for ch in chans:
                    vals = first[ch]
                    row = []
                    for t, v in zip(ts, vals):
                        v = float(v)
                        row.append([vlib.frac_json(t), None if math.isnan(v) else
                                    ('inf' if math.isinf(v) else vlib.frac_json(v))])
                    samples.append([ch, row])
                out = {'chans': chans, 'dur': vlib.frac_json(dur), 'prog_dur': vlib.frac_json(prog.duration),
                       'samples': samples}
                if resample:
                    out['resample_mismatch'] = resample
                if case.get('dec'):
                    out.update(_render_obs_dec(prog, w, chans, dur, case))
                else:
                    out.update(_render_obs(prog, w, chans, dur, set(ts)))
                return out
        except vlib.Timeout:
            return {'hang': True}
        except Exception as e:
            if w is None and isinstance(e, ValueError):
                return {'unplayable': str(e)[:120]}        # to_waveform(program) rejects the program
            return {'crash': 'sampling: %s: %s' % (type(e).__name__, str(e)[:200])}


def _instantiate(pt, params, cm):
    """program and waveform; history passes and the judged pass of a `sweep` case go through the same code (same allocation
    pattern: CPython then hands the blocks of the dead objects to the new ones)"""
    from qupulse.program.loop import to_waveform
    prog = pt.create_program(parameters=params, channel_mapping=cm)
    return prog, (None if prog is None else to_waveform(prog))


def _history_pass(pt, params, cm, case):
    """instantiate, sample every channel, return the sampled arrays and the objects (the caller decides when they die)"""
    import numpy as np
    from qupulse.program.loop import to_waveform
    prog, w = _instantiate(pt, params, cm)
    if prog is None:
        return [], None
    dur = vlib.to_fraction(w.duration)
    ts = [F(t) for t in case['grid']] if 'grid' in case else grid_for(dur)
    arr = np.array([float(t) for t in ts])
    chans = sorted(w.defined_channels, key=lambda c: (isinstance(c, str), c))
    out = [w.get_sampled(ch, np.linspace(0., float(w.duration), 7)) for ch in chans]
    out += [w.get_sampled(ch, arr * 0.5) for ch in chans]
    out += [w.get_sampled(ch, arr) for ch in chans]
    return out, (prog, w)


def _render_obs(prog, w, chans, dur, grid):
    """second observation point of the property: qupulse.plotting.render(program, sample_rate=4).  All rendered samples
    inside [0, duration) are compared (in Python, exactly) with get_sampled on the same times; the rendered samples on
    the check's grid additionally go to Coq as extra sample rows (model + denotation oracle)."""
    import numpy as np
    from qupulse.plotting import render
    if (dur * 4).denominator != 1 or dur * 4 < 1 or dur * 4 > 4000:
        return {}
    times, volt, _ = render(prog, sample_rate=4)
    times = times[:-1]                      # the last point is nextafter(duration): outside the half-open interval
    out = {'render_points': int(len(times))}
    if set(volt) != set(chans):
        out['render_mismatch'] = 'render shows channels %r, to_waveform defines %r' % (sorted(map(str, volt)), chans)
        return out
    fts = [vlib.to_fraction(float(t)) for t in times]
    rows = []
    for ch in chans:
        ref = w.get_sampled(ch, np.array(times))
        got = volt[ch][:-1]
        for t, a, b in zip(fts, got, ref):
            a, b = float(a), float(b)
            if not (a == b or (math.isnan(a) and math.isnan(b))) and 'render_mismatch' not in out:
                out['render_mismatch'] = 'render gives %r on %r at t=%s, get_sampled gives %r' % (a, ch, t, b)
        sel = [(t, float(v)) for t, v in zip(fts, got) if t in grid][:24]
        rows.append([ch, [[vlib.frac_json(t), None if math.isnan(v) else ('inf' if math.isinf(v) else vlib.frac_json(v))]
                          for t, v in sel]])
    out['render'] = rows
    return out


def _render_obs_dec(prog, w, chans, dur, case):
    """decimal stream: plotting.render with the case's sample rates (10, 3, 12, 2.4 ... handed over as int / float / Fraction /
    TimeType).  render's time axis is np.linspace(0, duration, n): point k is MEANT to be k / rate.  Where it is the
    correctly rounded double of k / rate the exact rational goes to Coq (a junction stays a junction); where linspace
    rounded differently, the double itself (exactly, as a rational) goes to Coq: it is then at least one ulp away from
    float(junction), hence on the same side of the exact junction."""
    import numpy as np
    from qupulse.plotting import render
    out = {'render': [], 'render_points': 0, 'render_rates': []}
    for rate, form in case.get('rates', []):
        times, volt, _ = render(prog, sample_rate=_form(rate, form))
        times = times[:-1]
        out['render_points'] += int(len(times))
        out['render_rates'].append(rate)
        if set(volt) != set(chans):
            out['render_mismatch'] = 'render shows channels %r, to_waveform defines %r' % (sorted(map(str, volt)), chans)
            return out
        qs, off = [], 0
        for k, t in enumerate(times):
            q = F(k) / F(rate)
            if float(q) == float(t):
                qs.append(q)
            else:
                qs.append(vlib.to_fraction(float(t)))
                off += 1
        out['render_off_grid'] = out.get('render_off_grid', 0) + off
        idx = list(range(len(times)))
        if len(idx) > 40:
            lo = (len(idx) // 3)
            idx = sorted(set(idx[:14] + idx[lo:lo + 14] + idx[-12:]))
        for ch in chans:
            ref = w.get_sampled(ch, np.array(times))
            got = volt[ch][:-1]
            for t, a, b in zip(qs, got, ref):
                a, b = float(a), float(b)
                if not (a == b or (math.isnan(a) and math.isnan(b))) and 'render_mismatch' not in out:
                    out['render_mismatch'] = 'render(rate %s) gives %r on %r at t=%s, get_sampled gives %r' % (rate, a, ch, t, b)
            row = []
            for j in idx:
                v = float(got[j])
                row.append([vlib.frac_json(qs[j]), None if math.isnan(v) else ('inf' if math.isinf(v) else vlib.frac_json(v))])
            out['render'].append([ch, row])
    return out


def py_spec(case, obs):
    """render(program) and to_waveform(program).get_sampled must show the same voltages inside [0, duration); sampling the
    same waveform again (after a decoy grid of equal length, into a caller-provided array) gives the same voltages"""
    return obs.get('render_mismatch') or obs.get('resample_mismatch')


# ---------------------------------------------------------------------------------------------------------------------
# Gallina printers
class Names:
    def __init__(self):
        self.params = {}
        self.chans = {}

    def p(self, name):
        if name not in self.params:
            self.params[name] = len(self.params) + 1
        return gN(self.params[name])

    def c(self, ch):
        if isinstance(ch, int):
            return '(ChI %s)' % gZ(ch)
        if ch not in self.chans:
            self.chans[ch] = len(self.chans) + 1
        return '(ChS %s)' % gN(self.chans[ch])


def g_expr(e, nm):
    k = e[0]
    if k == 'c':
        return '(EC %s)' % gQ(F(e[1]))
    if k == 'v':
        return '(EV %s)' % nm.p(e[1])
    if k == 'q':
        return '(EC %s)' % gQ(F(e[1]))
    if k == '/':
        return '(EMul %s (EC %s))' % (g_expr(e[1], nm), gQ(1 / F(e[2][1])))
    if k == 'dv':                     # division by a top-level parameter of known exact value (never rebound in these trees)
        nm.p(e[2])
        return '(EMul %s (EC %s))' % (g_expr(e[1], nm), gQ(1 / F(e[3])))
    return '(%s %s %s)' % ({'+': 'EAdd', '-': 'ESub', '*': 'EMul'}[k], g_expr(e[1], nm), g_expr(e[2], nm))


def g_list(xs):
    return '[' + '; '.join(xs) + ']'


def g_atom(n, nm):
    k = n['k']
    if k == 'const':
        return '(AConst %s %s)' % (g_expr(n['d'], nm), g_list('(%s, %s)' % (nm.c(ch), g_expr(e, nm)) for ch, e in n['amps']))
    if k == 'table':
        return '(ATable %s)' % g_list(
            '(%s, %s)' % (nm.c(ch), g_list('(%s, %s, %s)' % (g_expr(t, nm), g_expr(v, nm), INTERP[i]) for t, v, i in es))
            for ch, es in n['chs'])
    if k == 'point':
        return '(APoint %s %s)' % (
            g_list('(%s, %s, %s)' % (g_expr(t, nm), g_list(g_expr(v, nm) for v in vs), INTERP[i]) for t, vs, i in n['entries']),
            g_list(nm.c(c) for c in n['chs']))
    if k == 'multi':
        return '(AMulti %s)' % g_list(g_atom(x, nm) for x in n['subs'])
    if k == 'aarith':
        return '(AArith %s %s %s)' % (g_atom(n['l'], nm), 'OpAdd' if n['op'] == '+' else 'OpSub', g_atom(n['r'], nm))
    if k == 'func':
        return '(AFunc %s %s %s %s)' % (g_expr(n['d'], nm), nm.c(n['ch']), g_expr(n['a'], nm), g_expr(n['b'], nm))
    raise ValueError(k)


def g_ochan(c, nm):
    return 'None' if c is None else '(Some %s)' % nm.c(c)


def g_pt(n, nm):
    k = n['k']
    if k in G.ATOMS:
        return '(PAtom %s)' % g_atom(n, nm)
    if k == 'seq':
        return '(PSeq %s)' % g_list(g_pt(x, nm) for x in n['subs'])
    if k == 'rep':
        return '(PRep %s %s)' % (g_expr(n['n'], nm), g_pt(n['body'], nm))
    if k == 'for':
        return '(PFor %s %s %s %s %s)' % (nm.p(n['idx']), g_expr(n['range'][0], nm), g_expr(n['range'][1], nm),
                                          g_expr(n['range'][2], nm), g_pt(n['body'], nm))
    if k == 'map':
        return '(PMap %s %s %s)' % (g_list('(%s, %s)' % (nm.p(a), g_expr(b, nm)) for a, b in n['pm']),
                                    g_list('(%s, %s)' % (nm.c(a), g_ochan(b, nm)) for a, b in n['chm']), g_pt(n['body'], nm))
    if k == 'rev':
        return '(PRev %s)' % g_pt(n['body'], nm)
    if k == 'par':
        return '(PPar %s %s)' % (g_pt(n['body'], nm), g_list('(%s, %s)' % (nm.c(c), g_expr(e, nm)) for c, e in n['ow']))
    if k == 'arith':
        sc = n['scalar']
        if isinstance(sc, dict):
            s = '(inr %s)' % g_list('(%s, %s)' % (nm.c(c), g_expr(e, nm)) for c, e in sc['map'])
        else:
            s = '(inl %s)' % g_expr(sc, nm)
        return '(PArith %s %s %s %s)' % ('true' if n['lhs'] else 'false',
                                         {'+': 'SAdd', '-': 'SSub', '*': 'SMul', '/': 'SDiv'}[n['op']], s, g_pt(n['body'], nm))
    raise ValueError(k)


def to_coq(case, obs):
    if 'crash' in obs or 'hang' in obs:
        return 'CCrash'
    nm = Names()
    p = g_pt(case['pt'], nm)
    env = g_list('(%s, %s)' % (nm.p(k), gQ(F(v))) for k, v in sorted(case['params'].items()))
    cm = g_list('(%s, %s)' % (nm.c(a), g_ochan(b, nm)) for a, b in case['cm'])
    if 'err' in obs:
        o = '(OErr %s)' % ERRK[obs['err']]
    elif 'none' in obs:
        o = 'ONone'
    elif 'unplayable' in obs:
        o = 'OUnplayable'
    else:
        for _, row in obs['samples'] + obs.get('render', []):
            if any(v == 'inf' for _, v in row):
                return 'CCrash'
        if obs['dur'] != obs['prog_dur']:
            return 'CCrash'
        o = '(OProg %s %s %s)' % (
            g_list(nm.c(c) for c in obs['chans']), gQ(F(obs['dur'])),
            g_list('(%s, %s)' % (nm.c(ch), g_list('(%s, %s)' % (gQ(F(t)), 'None' if v is None else '(Some %s)' % gQ(F(v)))
                                                  for t, v in row))
                   for ch, row in obs['samples'] + [r for r in obs.get('render', []) if r[1]]))
    if case.get('dec') and 'samples' in obs:
        _STATS['inexact_cases'] += 1
        _STATS['inexact_samples'] += sum(len(r) for _, r in obs['samples'] + obs.get('render', []))
    return '(%s %s %s %s %s)' % ('CDec' if case.get('dec') else 'CCaseM' if case.get('side') == 'corr' else 'CCase',
                                 p, env, cm, o)


_STATS = {'inexact_cases': 0, 'inexact_samples': 0}


def extra_evidence(ctx):
    return {'inexact_cases': _STATS['inexact_cases'], 'inexact_samples_compared': _STATS['inexact_samples'],
            'inexact_tolerance_abs': '2^-30',
            'inexact_note': 'decimal stream (family dec, Coq constructor CDec): durations k/10, k/5, k/20, k/100, k/3, k/12, k/6, '
                            'k/7 as float / decimal string / fraction string / Fraction / TimeType; grid points on every junction '
                            '(correctly rounded doubles of the exact rationals) and render at decimal sample rates; channel set, '
                            'duration and the piece that answers a junction are compared exactly, the binary64 sample values '
                            'with the exact rational model and denotation under the absolute tolerance; every other case is '
                            'compared exactly'}


# ---------------------------------------------------------------------------------------------------------------------
def nontrivial(case, obs):
    return 'samples' in obs and G.size(case['pt']) >= 3


def histogram_keys(case, obs):
    keys = ['obs:' + ('prog' if 'samples' in obs else sorted(obs)[0] if 'err' not in obs else 'err:' + obs['err'])]
    if case.get('side') == 'corr':
        keys.append('model-side-only')
    kinds = G.node_kinds(case['pt'])
    keys += ['node:' + k for k in sorted(set(kinds))]
    keys.append('depth:%d' % G.depth(case['pt']))
    keys.append('size:%s' % ('1' if len(kinds) == 1 else '2-4' if len(kinds) <= 4 else '5-9' if len(kinds) <= 9 else '10+'))
    chans = G.pt_channels(case['pt'])
    keys.append('channels:%d' % len(chans))
    if 0 in chans or any(b == 0 for _, b in case['cm']):
        keys.append('channel-id-0')
    if any(b is None for _, b in case['cm']):
        keys.append('top-dropped-channel')
    if any(b is not None and a != b for a, b in case['cm']):
        keys.append('top-renamed-channel')
    if 'malformed' in case:
        keys.append('malformed:' + case['malformed'])
    if case.get('final_triple'):
        keys.append('table-final-triple')
    if case.get('tables'):
        keys.append('table-stream')
    if 'arith_table' in case:
        keys.append('arith-table:' + case['arith_table'].split('/', 1)[1])
    if 'fold' in case:
        keys.append('fold-stream')
        keys.append('fold:' + case['fold'].split('/')[1])
    if 'render' in obs:
        keys.append('render-observed')
    if 'family' in case:
        keys.append('family:' + case['family'])
    if 'rebind' in case:
        r, i, o = case['rebind'].split('/')
        keys += ['rebind-expr:' + r, 'rebind-below:' + i, 'rebind-pos:' + o]
    if case.get('dec'):
        keys.append('dec-den:%s' % case['den'])
        keys.append('dec-kind:' + case['dec_kind'])
        for f in sorted(set(case.get('ptypes', {}).values())):
            keys.append('dec-param-form:' + f)
        for r, f in case.get('rates', []):
            keys.append('dec-rate:%s' % r)
        if obs.get('render_off_grid'):
            keys.append('dec-render-linspace-off-by-ulp')
    for tag in ('selfmap', 'alias', 'dropped', 'tname_shape', 'multizero', 'dec_form', 'nptypes', 'nearint', 'tdep', 'tdep_shape', 'wfpart', 'wfpart_shape', 'sweep_tag'):
        if tag in case:
            keys.append('%s:%s' % (tag, case[tag]))
    for tag in ('tname', 'warm', 'top_none', 'idx_rebound', 'multi_zero', 'dec_inner', 'numobj', 'as_scope', 'edge'):
        if case.get(tag):
            keys.append(tag)
    return keys


def _par_under_trafo(n, under=False):
    k = n['k']
    if k == 'par' and under:
        return True
    u = under or k in ('par', 'arith')
    return any(_par_under_trafo(x, u) for x in n.get('subs', [])) or \
        any(_par_under_trafo(n[key], u) for key in ('body',) if key in n)


def classify(case, obs):
    """known findings: a ParallelChannelPT node inside the body of a scalar-arithmetic / parallel-channel node; a table
    with three entries at its final time (flag set by the generator) that is played time-reversed"""
    if 'samples' in obs and _par_under_trafo(case['pt']):
        return 'par-under-transformation'
    if 'samples' in obs and case.get('final_triple'):
        return 'table-final-triple'       # in range only under time reversal; the sample at t = duration always differs
    # round 5: narrowed.  The un-reversed part of `decimal-table-inner-entry` was repaired in /repo by e2c868b; what is left is
    # the same table played time reversed (ReversedWaveform samples at float(duration) - t)
    if case.get('dec_inner') and 'samples' in obs and 'rev' in G.node_kinds(case['pt']):
        return 'decimal-table-inner-entry'
    if case.get('multi_zero') and ('samples' in obs or 'unplayable' in obs):
        return 'multi-zero-duration-part'  # flag set by the generator family (a part of duration <= 0 with a kept channel)
    return None


# ---------------------------------------------------------------------------------------------------------------------
# search for a failing input near a disagreement / shrinking of a failing input.  Both use the specification oracle only
# (implementation's observation + Spec.denote evaluated in Coq through check_spec, and py_spec); the operational model
# is not consulted.
def _spec_failures(cases, ctx, tag):
    """(observations, indices on which the property fails); crashed / hung candidates never count"""
    obs = []
    for c in cases:
        try:
            obs.append(run_impl(c))
        except Exception as e:
            obs.append({'crash': '%s: %s' % (type(e).__name__, str(e)[:200])})
    idx = [i for i, o in enumerate(obs) if 'crash' not in o and 'hang' not in o]
    if not idx:
        return obs, []
    terms = [to_coq(cases[i], obs[i]) for i in idx]
    wd = os.path.join(ctx.get('workdir') or os.path.join(vlib.CASES, 'C01.search'), tag)
    res = vlib.run_coq_cases(wd, CORR_IMPORTS, [CHECK_SPEC], terms, shard=SHARD)
    bad = set(idx[j] for j in res[CHECK_SPEC])
    bad |= set(i for i in idx if py_spec(cases[i], obs[i]))
    return obs, sorted(bad)


def _as_case(pt, like, keep_cm=False):
    params = dict(like['params'])
    for name in sorted(G.free_params(pt)):
        params.setdefault(name, '1')
    defined = G.pt_channels(pt)
    cm = [[a, b] for a, b in like['cm'] if a in defined] if keep_cm else []
    c = {'pt': pt, 'params': params, 'cm': cm}
    for k in ('final_triple', 'multi_zero', 'dec_inner'):
        if like.get(k):
            c[k] = like[k]
    if like.get('dec'):                 # a decimal-stream case stays one: forms, tolerance constructor, junction grid
        c = G3.regrid(c, like)
    return c


def _positions(n, path=()):
    yield path, n
    for j, x in enumerate(n.get('subs', [])):
        if n['k'] == 'seq':
            yield from _positions(x, path + (('subs', j),))
    if 'body' in n:
        yield from _positions(n['body'], path + (('body',),))


def _replace(n, path, new):
    import copy
    if not path:
        return copy.deepcopy(new)
    m = copy.deepcopy(n)
    cur = m
    for step in path[:-1]:
        cur = cur[step[0]][step[1]] if len(step) == 2 else cur[step[0]]
    last = path[-1]
    if new is None:                      # delete a sequence member
        del cur[last[0]][last[1]]
    elif len(last) == 2:
        cur[last[0]][last[1]] = copy.deepcopy(new)
    else:
        cur[last[0]] = copy.deepcopy(new)
    return m


def _smaller(case):
    """structurally smaller variants: a sub-template on its own, a node replaced by its body, a sequence member removed,
    a repetition count / loop range made trivial, the top-level channel mapping dropped"""
    out = []
    pt = case['pt']
    for path, n in _positions(pt):
        if path:
            out.append(_as_case(n, case))
        if 'body' in n and n['k'] in ('rep', 'rev', 'arith', 'map', 'for'):
            out.append(_as_case(_replace(pt, path, n['body']), case, keep_cm=True))
        if n['k'] == 'seq' and len(n['subs']) >= 2:
            for j in range(len(n['subs'])):
                out.append(_as_case(_replace(pt, path + (('subs', j),), None), case, keep_cm=True))
        if n['k'] == 'rep' and n['n'] != G.C(1):
            m = dict(n)
            m['n'] = G.C(1)
            out.append(_as_case(_replace(pt, path, m), case, keep_cm=True))
        if n['k'] == 'for':
            m = dict(n)
            m['range'] = [G.C(0), G.C(1), G.C(1)]
            out.append(_as_case(_replace(pt, path, m), case, keep_cm=True))
    if case['cm']:
        out.append(_as_case(pt, case))
    seen, uniq = set(), []
    for c in out:
        h = vlib.canonical_hash(c)
        if h not in seen and G.size(c['pt']) <= G.size(pt):
            seen.add(h)
            uniq.append(c)
    return uniq


def shrink(case, obs, ctx):
    cur, cur_obs = case, obs
    cls = classify(case, obs)
    for rnd in range(5):
        cands = [c for c in _smaller(cur) if vlib.canonical_hash(c) != vlib.canonical_hash(cur)][:80]
        if not cands:
            break
        o, bad = _spec_failures(cands, ctx, 'shrink%d' % rnd)
        bad = [i for i in bad if classify(cands[i], o[i]) == cls]
        if not bad:
            break
        i = min(bad, key=lambda j: (G.size(cands[j]['pt']), len(cands[j]['cm'])))
        if (G.size(cands[i]['pt']), len(cands[i]['cm'])) >= (G.size(cur['pt']), len(cur['cm'])):
            break
        cur, cur_obs = cands[i], o[i]
    return cur, cur_obs


def search_failing(ctx, broken):
    """an input on which the PROPERTY fails (denotation oracle vs implementation), preferably near ctx['near']"""
    import copy
    rng = ctx['rng']
    near = ctx.get('near')
    cands = []
    if near is not None and 'pt' in near:
        cands += _smaller(near)[:60]
        for wrap in ('rev', 'rep2', 'seq2', 'rep1'):
            pt = copy.deepcopy(near['pt'])
            pt = {'rev': {'k': 'rev', 'body': pt}, 'rep2': {'k': 'rep', 'n': G.C(2), 'body': pt},
                  'rep1': {'k': 'rep', 'n': G.C(1), 'body': pt},
                  'seq2': {'k': 'seq', 'subs': [pt, copy.deepcopy(pt)]}}[wrap]
            cands.append(_as_case(pt, near, keep_cm=True))
            # constant siblings of equal voltage around it (constant folding looks through the nesting)
            chans = G.pt_channels(near['pt'])
            if chans and wrap in ('rev', 'rep1'):
                hold = {'k': 'const', 'd': G.C(1), 'amps': [[ch, G.C('1/2')] for ch in chans]}
                cands.append(_as_case({'k': 'seq', 'subs': [hold, pt, copy.deepcopy(hold)]}, near, keep_cm=True))
        for name in sorted(near['params']):
            for val in (('0', '1', '2', '1/2', '-1', '3') if not near.get('dec') else ('1/10', '3/10', '1/5', '1/3', '7/10')):
                if near['params'][name] != val:
                    c = copy.deepcopy(near)
                    c['params'][name] = val
                    cands.append(c)
        kinds = sorted(set(G.node_kinds(near['pt'])))
        if any(k in G.ATOMS for k in kinds):
            for _ in range(60):
                cands.append(G.gen_case(rng, max_depth=4, kinds=kinds))
    fam = {'dec': G3.gen_dec_case, 'rebind': G2.gen_rebind_case, 'selfmap': G2.gen_selfmap_case, 'tname': G2.gen_tname_case,
           'alias': G2.gen_alias_case, 'dropped': G2.gen_dropped_case, 'multizero': G2.gen_multizero_case}
    if near is not None and near.get('family') in fam:
        for _ in range(60):
            cands.append(fam[near['family']](rng))
    for _ in range(40):
        cands.append(G.gen_case(rng, max_depth=4))
    for _ in range(30):
        cands.append(G.gen_fold_case(rng))
    for f in (G2.gen_rebind_case, G2.gen_selfmap_case, G2.gen_alias_case, G2.gen_dropped_case):
        for _ in range(8):
            cands.append(f(rng))
    for _ in range(20):
        cands.append(G3.gen_dec_case(rng))
    cands = cands[:360]
    obs, bad = _spec_failures(cands, ctx, 'search')
    known = vlib.load_known_findings()[0].get(PID, {})
    bad = [i for i in bad if classify(cands[i], obs[i]) not in known]
    if not bad:
        return None
    i = min(bad, key=lambda j: G.size(cands[j]['pt']))
    c, o = shrink(cands[i], obs[i], ctx)
    return c, o, py_spec(c, o) or 'the denotation oracle (check_spec) rejects what the implementation plays'


MANIFEST = {
    'level_text': 'Proof: by induction on the template tree (unbounded nesting, parameters, ranges, mappings) the program '
                  'built by the operational model of create_program plays the independent denotation (C01_denotes, proved '
                  'in full): every composite node kind, any nesting of scalar arithmetic (transformation composition '
                  'lemma), every modelled atom kind (ConstantPT, TablePT with entry de-duplication / constant detection / '
                  'hold / jump / linear, PointPT, AtomicMultiChannelPT, ArithmeticAtomicPT, affine FunctionPT) incl. enclosing '
                  'transformation and constant short-cut. The only hypotheses are the executable guards of the '
                  'known findings (ParallelChannelPT under a transformation: C01_denotes_refuted; table with a triple '
                  'final time point: C01_table_final_refuted; since round 3 also the AtomicMultiChannelPT part of duration 0 '
                  'next to a part of positive duration, third known finding) plus the exclusion of zero-length linear '
                  'segments and of FunctionPT with non-positive duration. '
                  'to_waveform + get_sampled = the program meaning is proved for all well-formed program trees '
                  '(C01_sampling_loops) and for create_program outputs (C01_sampling_partial). Round 3: the LoopBuilder\'s '
                  'frame stack (StackFrame.iterating / inner_scope) is part of the model that the correspondence runs '
                  '(create_program_b) and is proved irrelevant for the result (C01_builder_frames: cpb = cp for every tree, '
                  'scope, stack); third known finding with refutation and guard conjunct: AtomicMultiChannelPT silently drops '
                  'a part of duration 0 whose channel is kept (C01_multi_zero_refuted, C01_multi_zero_unplayable). The model '
                  'is tied to /repo by an exact correspondence check (13 node kinds; get_sampled and plotting.render samples '
                  'on junction-aligned and off-grid points; shared template objects, warm-up instantiation, repeated / decoy '
                  'sampling), and the denotation is evaluated directly on the implementation as the specification oracle. '
                  'Round 4: decimal stream (Coq case constructor CDec): durations and sample rates off the dyadic grid through '
                  'real templates, compared with the exact rational model and denotation under the declared tolerance 2^-30 '
                  '(durations / channels / junction assignment exact); C01_repetition_restarts / C01_repetition_boundary / C01_sequence_restarts: the '
                  'model restarts a repeated body exactly at k * duration, and a sequence member exactly at the sum of the durations before it, for every rational duration (the reference the '
                  'stream checks the code against; seeded change C01-5 = boundaries accumulated in binary64 is caught). '
                  'Found and repaired in /repo through the new streams: NaN as first sample of a time reversed table with '
                  'exact-rational entry times, spurious padding entry for mixed exact / float final times (9148363), '
                  'wrap-around of unsigned numpy parameter values (d131b58). Fourth known finding (narrowed in round 5 after the '
                  'repair e2c868b): a table with an inner voltage jump at a decimal time, played time reversed, answers a grid '
                  'point on the mirrored entry with the earlier segment. Round 5 (audit): C01_sampled_denotes_partial composes '
                  'the two halves (get_sampled of to_waveform(program) = denotation; hypotheses: to_waveform succeeds, channel '
                  'membership); C01_arith_meaning / C01_par_values_last tie the operator tables that the denotation shares with '
                  'the model to plain arithmetic. Round 6: "no sample is NaN" is a theorem: C01_denotation_total (the denotation is '
                  'defined at every time of [0, total) on every channel all its pieces carry; Spec level, every node and atom kind, '
                  'no guard) and C01_no_nan (under the guards of C01_denotes the model\'s program plays a number, the denoted one, at '
                  'every t in [0, duration)). New families wfpart (seeded change C01-9: negation wrapper of a dropped operand loses its '
                  'sign as a part of a sequence) and sweep (seeded change C01-10: result cache keyed by object identity). '
                  'Tested only, not proved: time dependent transformation '
                  'values (family tdep, judged against an equivalent tree built by the harness; seeded change C01-7).',
    'level_note': 'The guards exclude more than the findings they are named after: guard_C01_par_order every ParallelChannelPT below '
                  'a transformation node (also when the outer node leaves its channels alone), guard_C01_tables also zero-length '
                  'linear entries, FunctionPT of non-positive duration and triple final time points outside time reversal. '
                  'C01_denotes_relative_partial / C01_compositional / C01_compositional2 / C01_emission / C01_junctions are lemma-level '
                  '(semantic hypotheses, discharged inside C01_denotes). C01_no_nan is about the model\'s program (play) and keeps the '
                  'channel hypothesis of C01_denotes (a channel that every piece carries). Inputs flagged table-final-triple are excused from both '
                  'oracles. '
                  '_partial: C01_sampling_partial assumes that to_waveform succeeds (guaranteed by qupulse constructors '
                  'for well-formed templates, not by the model). ArithmeticAtomicPT with an operand of duration 0 plays the '
                  'other operand alone; there the specification still mirrors the code (observed, not classified). '
                  'Open: error correspondence '
                  '(C01_errors_statement is false as stated: eager scope evaluation in ArithmeticPT, non-injective '
                  'channel mappings). Not modelled: non-affine FunctionPT expressions (the affine FunctionWaveform is '
                  'represented by the observationally equal linear table), time-dependent transformation values (tested only), '
                  'to_single_waveform, measurements, constraints, volatile parameters, composite templates used as atoms '
                  '(MappingPT / ParallelChannelPT / TimeReversalPT / ArithmeticPT.build_waveform inside AtomicMultiChannelPT). '
                  'Float rounding is modelled away (dyadic inputs) or bounded by the declared tolerance (decimal stream); no '
                  'theorem speaks about binary64. Trusted: Coq kernel, harness, numpy/sympy on the generated domain.',
    'technique': 'Coq proof by induction on the template tree over an operational model + exact correspondence check '
                 '+ denotational oracle evaluated in Coq on the implementation\'s samples',
    'design_ref': 'DESIGN.md §5 C01, §4.4, Appendix D3',
}
