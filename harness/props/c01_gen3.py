"""C01 — round 4: the DECIMAL stream (durations and sample rates off the dyadic grid).

Blind class closed here (seed C01-5): every earlier C01 stream used dyadic durations, on which binary64 arithmetic is exact,
so "repetition boundaries accumulated in floats" (0.1 + 0.1 + 0.1 = 0.30000000000000004 != float(3/10)) was invisible.
This stream builds REAL templates (Repetition / ForLoop / Sequence / Mapping / reversal / arithmetic / parallel over ramps whose
start and end values differ by >= 1) with durations k/10, k/5, k/100, k/20 (decimal) and k/3, k/12, k/6, k/7 (not even
decimal), handed to qupulse as floats, decimal strings, fraction strings, fractions.Fraction literals and TimeType; grid
points are the exact junctions (the code gets the correctly rounded doubles of the exact rationals) + interior points;
plotting.render is driven with sample rates 10, 20, 5, 2.5, 3, 12, 2.4, 4.8 ... GS/s.

Extra JSON expression forms (see c01_gen.ev / c01.expr_str / c01.g_expr):
  ['q', 'p/q', form]   literal with the exact value p/q, written as form in float | dec_str | frac_str | time | fraction
  ['/', e, ['c', n]]   division by an integer literal (sympy evaluates i/10 in table entries / FunctionPT durations exactly)
Case fields: 'dec': True, 'ptypes': {name: form} (how each parameter value is handed over), 'grid': [...], 'rates': [[rate, form]].

Which forms reach the waveform EXACTLY was measured on the unchanged code (notes/C01.md): decimal fractions in every form and
position; thirds / twelfths / sevenths only as TimeType (parameter or literal; not as a PointPT literal) and as fraction
string / Fraction literal in TablePT entry times and FunctionPT durations.  The generator stays inside these.
"""
from fractions import Fraction as F
from props import c01_gen as G

C, V = G.C, G.V

DEC_FAMILIES = [
    # denominator, leaf-duration numerators, render sample rates
    (10, [1, 1, 1, 3, 7, 2, 9, 11], ['10', '20', '5', '5/2', '30']),
    (5, [1, 2, 3], ['5', '10', '5/2']),
    (100, [7, 11, 33], ['100', '50']),
    (20, [1, 3, 7], ['20', '40']),
    (3, [1, 1, 2, 4], ['3', '12', '6', '3/2']),
    (12, [5, 5, 10, 1, 7], ['12', '12/5', '24/5', '24']),
    (6, [1, 5], ['6', '12', '3']),
    (7, [1, 2], ['7', '14']),
]
DECIMAL_DENS = (5, 10, 20, 100)
VOLT = [F(-2), F(-1), F(-1, 2), F(0), F(1, 2), F(1), F(2), F(3)]
LIT_FORMS = {
    # (decimal?, position) -> literal forms that are exact there
    (True, 'const'): ['float', 'dec_str', 'frac_str', 'time', 'fraction'],
    (True, 'table'): ['float', 'dec_str', 'frac_str', 'time', 'fraction'],
    (True, 'point'): ['float', 'dec_str', 'frac_str', 'time', 'fraction'],
    (True, 'func'): ['float', 'dec_str', 'frac_str', 'time', 'fraction'],
    (True, 'map'): ['dec_str', 'frac_str'],
    (False, 'const'): ['time'],
    (False, 'table'): ['time', 'frac_str', 'fraction'],
    (False, 'func'): ['time', 'frac_str', 'fraction'],
    (False, 'point'): [],
    (False, 'map'): [],
}
PAR_FORMS = {True: ['float', 'float', 'dec_str', 'frac_str', 'time'], False: ['time']}


def Q(q, form):
    return ['q', str(F(q)), form]


class D:
    """generation state of one decimal case"""

    def __init__(self, rng, den, forms=None):
        self.rng = rng
        self.den = den
        self.decimal = den in DECIMAL_DENS
        self.params = {}
        self.ptypes = {}
        self.n = 0
        self.loops = []          # loop indices in scope: (name, lo, hi)
        self.forms = forms       # restriction of the forms (deterministic families)

    def fresh(self, p):
        self.n += 1
        return '%s%d' % (p, self.n)

    def _pick(self, forms):
        if self.forms:
            f2 = [f for f in forms if f in self.forms]
            forms = f2 or forms
        return self.rng.choice(forms)

    def param(self, q, form=None):
        name = self.fresh('d')
        self.params[name] = str(F(q))
        self.ptypes[name] = form or self._pick(PAR_FORMS[self.decimal])
        return name

    def intparam(self, k):
        name = self.fresh('k')
        self.params[name] = str(int(k))
        return name

    def time_expr(self, q, where):
        """an expression with the exact value q that the position `where` turns into exactly TimeType(q)"""
        rng = self.rng
        q = F(q)
        lits = LIT_FORMS[(self.decimal, where)]
        r = rng.random()
        if lits and r < 0.35:
            return Q(q, self._pick(lits))
        if r < 0.75 or q.numerator == 1:
            return V(self.param(q))
        # products / sums of TimeType parameters with integers (exact rational arithmetic inside the expression)
        k = rng.choice([d for d in range(2, 12) if q.numerator % d == 0] or [1])
        if k > 1:
            u = self.param(q / k, 'time')
            return ['*', V(u), V(self.intparam(k)) if rng.random() < 0.5 else C(k)]
        a = F(rng.randint(1, max(1, int(q * self.den) - 1)), self.den)
        if 0 < a < q:
            return ['+', V(self.param(a, 'time')), V(self.param(q - a, 'time'))]
        return V(self.param(q))

    def volt_expr(self, v, idx=None):
        rng = self.rng
        if idx is not None:
            return ['+', C(v), ['*', V(idx), C(rng.choice([F(1), F(-1), F(1, 2)]))]]
        if rng.random() < 0.25:
            name = self.fresh('v')
            self.params[name] = str(F(v))
            return V(name)
        return C(v)


def two_volts(rng):
    v0 = rng.choice(VOLT)
    v1 = rng.choice([v for v in VOLT if abs(v - v0) >= 1])
    return v0, v1


def ramp_table(st, durs, chans, interp=None, idx=None):
    """two-entry table per channel (start value, end value >= 1 away); durs: per channel time expression"""
    rng = st.rng
    chs = []
    for ch, te in zip(chans, durs):
        v0, v1 = two_volts(rng)
        i = interp or rng.choice(['linear', 'linear', 'linear', 'jump', 'hold'])
        chs.append([ch, [[C(0), st.volt_expr(v0, idx), 'hold'], [te, st.volt_expr(v1), i]]])
    return {'k': 'table', 'chs': chs}


def leaf(st, q, chans, tform=None, idx=None, kind=None):
    """an atom over `chans` of duration q (> 0) that does not end where it (and so its successor) may start.
    tform: None | ('idx', unit) - duration = idx * unit with the loop index idx"""
    rng = st.rng

    def te(where):
        if tform is not None:
            i, unit = tform
            if where in ('table', 'func') and rng.random() < 0.5 and F(1) / unit == int(F(1) / unit):
                return ['/', V(i), C(int(F(1) / unit))]
            return ['*', V(st.param(unit, 'time')), V(i)]
        return st.time_expr(q, where)

    kinds = ['table', 'table', 'table', 'func', 'point', 'const', 'aarith']
    if len(chans) >= 2:
        kinds += ['multi', 'multi']
    k = kind or rng.choice(kinds)
    if k == 'func' and len(chans) > 1:
        k = 'multi'
    if k == 'table':
        return ramp_table(st, [te('table') for _ in chans], chans, idx=idx)
    if k == 'const':
        return {'k': 'const', 'd': te('const'), 'amps': [[ch, st.volt_expr(rng.choice(VOLT), idx)] for ch in chans]}
    if k == 'func':
        v0 = rng.choice(VOLT)
        # slope large enough that the value moves by >= 1 over the (smallest) duration
        need = F(1) / (q if tform is None else tform[1])
        b = rng.choice([1, -1]) * max(1, int(need) + (0 if need == int(need) else 1)) * rng.choice([1, 1, 2])
        return {'k': 'func', 'd': te('func'), 'ch': chans[0], 'a': st.volt_expr(v0, idx), 'b': C(b)}
    if k == 'point':
        v = [two_volts(rng) for _ in chans]
        i = rng.choice(['linear', 'linear', 'jump', 'hold'])
        return {'k': 'point', 'entries': [[C(0), [st.volt_expr(a, idx) for a, _ in v], 'hold'],
                                          [te('point'), [C(b) for _, b in v], i]], 'chs': list(chans)}
    if k == 'multi':
        cut = rng.randint(1, len(chans) - 1)
        return {'k': 'multi', 'subs': [leaf(st, q, chans[:cut], tform, idx, rng.choice(['table', 'func', 'const', 'point'])),
                                       leaf(st, q, chans[cut:], tform, None, rng.choice(['table', 'table', 'point']))]}
    # aarith: ramp +- ramp over the same channels
    return {'k': 'aarith', 'l': leaf(st, q, chans, tform, idx, 'table'), 'op': rng.choice(['+', '-']),
            'r': leaf(st, q, chans, tform, None, rng.choice(['table', 'func', 'const']))}


def dec_pt(st, chans, depth, idx=None):
    rng = st.rng
    den = st.den
    ks = st.ks
    if depth <= 0:
        return leaf(st, F(rng.choice(ks), den), chans, idx=idx if rng.random() < 0.6 else None)
    k = rng.choice(['rep', 'rep', 'rep', 'seq', 'seq', 'for', 'for', 'map', 'rev', 'arith', 'leaf'])
    if k == 'leaf':
        return dec_pt(st, chans, 0, idx)
    if k == 'rep':
        n = rng.choice([3, 3, 4, 5, 6, 7, 10]) if depth == 1 else rng.choice([2, 3, 3, 4])
        ne = C(n) if rng.random() < 0.6 else V(st.intparam(n))
        return {'k': 'rep', 'n': ne, 'body': dec_pt(st, chans, depth - 1, idx)}
    if k == 'seq':
        return {'k': 'seq', 'subs': [dec_pt(st, chans, depth - 1, idx) for _ in range(rng.randint(2, 4 if depth == 1 else 3))]}
    if k == 'for':
        i = st.fresh('i')
        lo = rng.choice([0, 1, 1, 2])
        hi = lo + rng.choice([3, 3, 4, 5, 7] if depth == 1 else [2, 3])
        step = 1
        rngexpr = [C(lo), C(hi) if rng.random() < 0.6 else V(st.intparam(hi)), C(step)]
        if rng.random() < 0.5 and lo >= 1:
            # duration follows the loop index: i * unit
            unit = F(rng.choice([1, 1, 2]), den)
            body = leaf(st, None, chans, tform=(i, unit), idx=i if rng.random() < 0.3 else None)
            if rng.random() < 0.3:
                body = {'k': 'rep', 'n': C(rng.choice([2, 3])), 'body': body}
        else:
            body = dec_pt(st, chans, depth - 1, i)
        if i not in G.free_params(body):       # qupulse rejects a loop whose body does not use the index
            body = {'k': 'seq', 'subs': [body, leaf(st, F(rng.choice(ks), den), chans, idx=i)]}
        return {'k': 'for', 'idx': i, 'range': rngexpr, 'body': body}
    if k == 'map':
        # the duration reaches the leaf through a parameter mapping (x -> d, x -> u * k, x -> literal)
        x = st.fresh('x')
        q = F(rng.choice(ks), den)
        body = ramp_table(st, [V(x) for _ in chans], chans, idx=idx) if rng.random() < 0.7 else \
            {'k': 'func', 'd': V(x), 'ch': chans[0], 'a': C(rng.choice(VOLT)), 'b': C(rng.choice([1, -1]) * (int(1 / q) + 1))}
        if body['k'] == 'func' and len(chans) > 1:
            body = ramp_table(st, [V(x) for _ in chans], chans, idx=idx)
        inner = {'k': 'rep', 'n': C(rng.choice([3, 4, 5])), 'body': body} if rng.random() < 0.5 else body
        return {'k': 'map', 'pm': [[x, st.time_expr(q, 'map')]], 'chm': [], 'body': inner}
    if k == 'rev':
        return {'k': 'rev', 'body': dec_pt(st, chans, depth - 1, idx)}
    sc = rng.choice([F(2), F(-1), F(1, 2), F(3)])
    return {'k': 'arith', 'lhs': rng.random() < 0.6, 'op': rng.choice(['+', '-', '*']), 'scalar': C(sc),
            'body': dec_pt(st, chans, depth - 1, idx)}


# ---------------------------------------------------------------------------------------------------------------------
# exact evaluation of durations / junctions of a tree (generator side only: chooses the grid; what the right voltages are
# is decided in Coq by the model and the denotation)
def junctions(n, env):
    """-> (duration, set of piece starts relative to the node start); env: name -> Fraction"""
    k = n['k']
    ev = G.ev
    if k == 'const':
        d = ev(n['d'], env)
        return (d, {F(0)}) if d > 0 else (F(0), set())
    if k == 'func':
        d = ev(n['d'], env)
        return (d, {F(0)}) if d > 0 else (F(0), set())
    if k == 'table':
        ts = set()
        d = F(0)
        for _, es in n['chs']:
            for t, _, _ in es:
                ts.add(ev(t, env))
            d = max(d, ev(es[-1][0], env))
        return d, {t for t in ts | {F(0)} if t < d}
    if k == 'point':
        ts = [ev(t, env) for t, _, _ in n['entries']]
        d = ts[-1]
        return d, {t for t in set(ts) | {F(0)} if t < d}
    if k in ('multi', 'aarith'):
        parts = [junctions(x, env) for x in (n['subs'] if k == 'multi' else [n['l'], n['r']])]
        d = max(p[0] for p in parts)
        return d, set().union(*[p[1] for p in parts])
    if k == 'seq':
        t, js = F(0), set()
        for x in n['subs']:
            d, j = junctions(x, env)
            js |= {t + y for y in j}
            t += d
        return t, js
    if k == 'rep':
        cnt = int(ev(n['n'], env))
        d, j = junctions(n['body'], env)
        js = set()
        for r in range(max(cnt, 0)):
            js |= {r * d + y for y in j}
        return d * max(cnt, 0), js
    if k == 'for':
        a, b, s = [int(ev(e, env)) for e in n['range']]
        t, js = F(0), set()
        for i in range(a, b, s):
            e2 = dict(env)
            e2[n['idx']] = F(i)
            d, j = junctions(n['body'], e2)
            js |= {t + y for y in j}
            t += d
        return t, js
    if k == 'map':
        e2 = dict(env)
        for a, b in n['pm']:
            e2[a] = ev(b, env)
        return junctions(n['body'], e2)
    if k == 'rev':
        d, j = junctions(n['body'], env)
        return d, {d - y for y in j if y > 0} | ({F(0)} if d > 0 else set())
    if k in ('par', 'arith'):
        return junctions(n['body'], env)
    raise ValueError(k)


def finish(st, pt, cm, rates, tag, rng=None, extra=None):
    rng = rng or st.rng
    env = {k: F(v) for k, v in st.params.items()}
    dur, js = junctions(pt, env)
    if dur <= 0:
        return None
    js = sorted(t for t in js | {F(0)} if t < dur)
    if len(js) > 160:
        return None
    bounds = js + [dur]
    inner = []
    for a, b in zip(bounds, bounds[1:]):
        inner.append((a + b) / 2)
        inner.append(a + (b - a) / 3)
    if len(js) > 48:
        lo = rng.randrange(len(js) - 24)
        keep = set(rng.sample(js, 24)) | set(js[lo:lo + 24]) | {F(0)}
        js = [t for t in js if t in keep]
    grid = sorted(set(js) | set(rng.sample(inner, min(len(inner), 14))) | {dur})
    ok_rates = []
    for r, form in rates:
        m = dur * F(r)
        if m.denominator == 1 and 1 <= m <= 400:
            ok_rates.append([r, form])
    c = {'pt': pt, 'params': dict(st.params), 'ptypes': dict(st.ptypes), 'cm': cm, 'dec': True, 'family': 'dec',
         'dec_kind': tag, 'den': st.den, 'grid': [str(t) for t in grid], 'rates': ok_rates[:2]}
    if extra:
        c.update(extra)
    return c


def rate_forms(rng, rs, n=2):
    out = []
    for r in rng.sample(rs, min(n, len(rs))):
        fr = F(r)
        form = rng.choice(['int', 'float']) if fr.denominator == 1 else rng.choice(['float', 'float', 'fraction', 'time'])
        out.append([r, form])
    return out


def gen_dec_case(rng):
    """one random case of the decimal stream"""
    for _ in range(50):
        den, ks, rs = rng.choice(DEC_FAMILIES)
        st = D(rng, den)
        st.ks = ks
        two = rng.random() < 0.3
        chans = ['A', 'B'] if two else [rng.choice(['A', 'B', 0])]
        pt = dec_pt(st, chans, rng.choice([1, 1, 1, 2, 2, 3]))
        wrap = rng.random()
        if wrap < 0.12 and not two:
            other = 'B' if chans[0] != 'B' else 'A'
            pt = {'k': 'par', 'body': pt, 'ow': [[other, C(rng.choice(VOLT))]]}
        elif wrap < 0.2:
            # shifted start: a constant of decimal duration in front
            q = F(rng.choice(ks), den)
            pt = {'k': 'seq', 'subs': [{'k': 'const', 'd': st.time_expr(q, 'const'),
                                        'amps': [[ch, C(rng.choice(VOLT))] for ch in chans]}, pt]}
        cm = []
        r = rng.random()
        if r < 0.15:
            cm = [[chans[0], 'Z']]
        elif r < 0.25 and two:
            cm = [['B', None]]
        c = finish(st, pt, cm, rate_forms(rng, rs), 'random')
        if c is not None and G.size(pt) <= 40:
            return c
    raise RuntimeError('decimal generator: no case')


# ---------------------------------------------------------------------------------------------------------------------
# deterministic families (the boundary inputs of the class)
def _ramp(st, q, where='table', ch='A', form=None, lit=False, v=(F(0), F(1)), interp='linear'):
    if lit:
        te = Q(q, form)
    else:
        te = V(st.param(q, form))
    if where == 'table':
        return {'k': 'table', 'chs': [[ch, [[C(0), C(v[0]), 'hold'], [te, C(v[1]), interp]]]]}
    if where == 'point':
        return {'k': 'point', 'entries': [[C(0), [C(v[0])], 'hold'], [te, [C(v[1])], interp]], 'chs': [ch]}
    if where == 'func':
        return {'k': 'func', 'd': te, 'ch': ch, 'a': C(v[0]), 'b': C(int(F(1) / F(q)) + 1)}
    raise ValueError(where)


def enum_dec_cases(rng, full=False):
    """repetition of a ramp (the seed's shape) x duration x form x literal / parameter x atom kind x count, the same shifted
    by a constant in front, inside a sequence / a loop / a mapping / a reversal / an arithmetic node"""
    out = []
    shapes = ['rep', 'shift', 'seq3', 'for-v', 'for-d', 'nest', 'repseq', 'rev', 'arith', 'map', 'par']
    durs = [(10, 1), (10, 3), (10, 7), (5, 1), (100, 7), (20, 1), (3, 1), (3, 2), (12, 5), (12, 1), (6, 1), (7, 1), (7, 2)]
    for den, k in durs:
        q = F(k, den)
        decimal = den in DECIMAL_DENS
        rs = [r for d, _, r in DEC_FAMILIES if d == den][0]
        for where in ('table', 'func', 'point'):
            forms = []
            for f in PAR_FORMS[decimal]:
                if ('par', f) not in forms:
                    forms.append(('par', f))
            for f in LIT_FORMS[(decimal, where)]:
                forms.append(('lit', f))
            for lp, form in forms:
                for shape in shapes:
                    # thorough: every (duration, position, form, literal / parameter, shape) with one of the counts
                    for cnt in ((3, 4, 7, 10) if not full else (rng.choice((3, 4, 7, 10)),)):
                        out.append((den, q, where, lp, form, shape, cnt, rs))
    if not full:
        # quick: a random sub-sample per run
        out = rng.sample(out, 90)
    cases = []
    for den, q, where, lp, form, shape, cnt, rs in out:
        st = D(rng, den, forms=[form])
        st.ks = [1]
        mk = lambda vv=(F(0), F(1)), interp='linear': _ramp(st, q, where, 'A', form, lp == 'lit', vv, interp)
        if shape == 'rep':
            pt = {'k': 'rep', 'n': C(cnt), 'body': mk()}
        elif shape == 'shift':
            pt = {'k': 'seq', 'subs': [{'k': 'const', 'd': st.time_expr(q, 'const'), 'amps': [['A', C(F(1, 4))]]},
                                       {'k': 'rep', 'n': V(st.intparam(cnt)), 'body': mk()}]}
        elif shape == 'seq3':
            pt = {'k': 'seq', 'subs': [mk(), mk((F(2), F(-1))), mk((F(1), F(3)), 'jump'), mk()][:2 + cnt % 3]}
        elif shape == 'for-v':
            i = 'i'
            b = mk()
            if b['k'] == 'table':
                b['chs'][0][1][0][1] = ['+', C(0), ['*', V(i), C(F(1, 2))]]
                b['chs'][0][1][1][1] = ['+', C(2), V(i)]
            elif b['k'] == 'point':
                b['entries'][0][1][0] = ['+', C(0), ['*', V(i), C(F(1, 2))]]
                b['entries'][1][1][0] = ['+', C(2), V(i)]
            else:
                b['a'] = ['*', V(i), C(F(1, 2))]
            pt = {'k': 'for', 'idx': i, 'range': [C(0), C(cnt), C(1)], 'body': b}
        elif shape == 'for-d':
            i = 'i'
            unit = st.param(q, 'time')
            te = ['*', V(unit), V(i)]
            if where in ('table', 'func') and q.numerator == 1 and rng.random() < 0.5:
                te = ['/', V(i), C(q.denominator)]
            b = _ramp(st, q, where, 'A', form, lp == 'lit')
            if b['k'] == 'table':
                b['chs'][0][1][1][0] = te
            elif b['k'] == 'point':
                b['entries'][1][0] = te
            else:
                b['d'] = te
            pt = {'k': 'for', 'idx': i, 'range': [C(1), C(min(cnt, 7) + 1), C(1)], 'body': b}
        elif shape == 'nest':
            pt = {'k': 'rep', 'n': C(3), 'body': {'k': 'rep', 'n': C(min(cnt, 4)), 'body': mk()}}
        elif shape == 'repseq':
            pt = {'k': 'rep', 'n': C(min(cnt, 5)), 'body': {'k': 'seq', 'subs': [mk(), mk((F(-1), F(2)))]}}
        elif shape == 'rev':
            pt = {'k': 'rev', 'body': {'k': 'rep', 'n': C(cnt), 'body': mk()}} if cnt % 2 else \
                {'k': 'rep', 'n': C(cnt), 'body': {'k': 'rev', 'body': mk()}}
        elif shape == 'arith':
            pt = {'k': 'arith', 'lhs': True, 'op': rng.choice(['+', '*', '-']), 'scalar': C(F(3, 2)),
                  'body': {'k': 'rep', 'n': C(cnt), 'body': mk()}}
        elif shape == 'map':
            x = 'x'
            b = _ramp(st, q, where, 'A', form, lp == 'lit')
            te = [b['chs'][0][1][1][0]] if b['k'] == 'table' else [b['entries'][1][0]] if b['k'] == 'point' else [b['d']]
            if te[0][0] == 'q' and te[0][2] not in ('dec_str', 'frac_str'):
                te[0] = V(st.param(q, 'time'))
            if te[0][0] == 'q' and not (den in DECIMAL_DENS):
                te[0] = V(st.param(q, 'time'))
            if b['k'] == 'table':
                b['chs'][0][1][1][0] = V(x)
            elif b['k'] == 'point':
                b['entries'][1][0] = V(x)
            else:
                b['d'] = V(x)
            pt = {'k': 'map', 'pm': [[x, te[0]]], 'chm': [['A', 'Z']] if cnt % 2 else [],
                  'body': {'k': 'rep', 'n': C(cnt), 'body': b}}
        else:
            pt = {'k': 'par', 'body': {'k': 'rep', 'n': C(cnt), 'body': mk()}, 'ow': [['B', C(F(1, 2))]]}
        c = finish(st, pt, [], rate_forms(rng, rs), 'enum:' + shape,
                   extra={'dec_form': '%s:%s:%s' % (where, lp, form)})
        if c is not None:
            cases.append(c)
    return cases


def gen_inner_case(rng):
    """a table with an INNER entry (three entries, voltages >= 1 apart around the entry) that starts at a non-zero decimal
    offset (behind a ramp in a sequence / in the second pass of a repetition / of a loop); the grid has the inner entry times.
    Former known finding decimal-table-inner-entry (repaired in /repo by e2c868b): since round 5 the family is judged like
    every other decimal case (flag `dec_inner` = histogram key only) and also wraps the table into the other leaf waveform
    classes (multi-channel, arithmetic, time reversal)."""
    den = rng.choice([10, 10, 5, 20, 100])
    st = D(rng, den, forms=['float', 'dec_str', 'time'])
    st.ks = [1, 2, 3, 7]
    j = rng.randint(1, 6)
    k = j + rng.randint(1, 6)
    v0, v1 = two_volts(rng)
    v2 = rng.choice([v for v in VOLT if abs(v - v1) >= 1])
    ch = rng.choice(['A', 0])
    tab = {'k': 'table', 'chs': [[ch, [[C(0), C(v0), 'hold'], [st.time_expr(F(j, den), 'table'), C(v1), rng.choice(['hold', 'linear', 'jump'])],
                                       [st.time_expr(F(k, den), 'table'), C(v2), rng.choice(['linear', 'hold', 'jump'])]]]]}
    shape = rng.choice(['seq', 'seq', 'rep', 'for', 'par', 'multi', 'aarith', 'rev-seq', 'rep-rev'])
    dk = st.time_expr(F(k, den), 'table')
    other = 'B' if ch == 'A' else 'A'
    if shape in ('multi', 'aarith'):
        tab['chs'][0][1][2][0] = dk
        if shape == 'multi':
            leaf_ = {'k': 'multi', 'subs': [tab, {'k': 'table', 'chs': [[other, [[C(0), C(1), 'hold'], [dk, C(-1), 'linear']]]]}]}
        else:
            leaf_ = {'k': 'aarith', 'l': tab, 'op': rng.choice('+-'), 'r': {'k': 'const', 'd': dk, 'amps': [[ch, C(F(1, 2))]]}}
        pt = {'k': 'rep', 'n': C(rng.choice([2, 3, 4])), 'body': leaf_}
    elif shape == 'rev-seq':
        pt = {'k': 'rev', 'body': {'k': 'seq', 'subs': [tab, ramp_table(st, [st.time_expr(F(rng.choice([1, 2, 3, 7, 9]), den), 'table')], [ch])]}}
    elif shape == 'rep-rev':
        pt = {'k': 'rep', 'n': C(rng.choice([2, 3, 4])), 'body': {'k': 'rev', 'body': tab}}
    elif shape == 'seq':
        pt = {'k': 'seq', 'subs': [ramp_table(st, [st.time_expr(F(rng.choice([1, 2, 3, 7, 9]), den), 'table')], [ch]), tab]}
    elif shape == 'rep':
        pt = {'k': 'rep', 'n': C(rng.choice([2, 3, 4])), 'body': tab}
    elif shape == 'for':
        tab['chs'][0][1][0][1] = ['+', C(v0), V('i')]
        pt = {'k': 'for', 'idx': 'i', 'range': [C(0), C(3), C(1)], 'body': tab}
    else:
        pt = {'k': 'arith', 'lhs': True, 'op': '+', 'scalar': C(F(1, 2)), 'body': {'k': 'rep', 'n': C(3), 'body': tab}}
    rs = [r for d, _, r in DEC_FAMILIES if d == den][0]
    return finish(st, pt, [], rate_forms(rng, rs, 1), 'inner:' + shape, extra={'dec_inner': True})


# (total time, piece duration, count): float(total) / float(piece) is just BELOW / ABOVE the integer count
NEAR_BELOW = [('3/10', '1/10', 3), ('3/5', '1/10', 6), ('7/10', '1/10', 7), ('6/5', '1/10', 12), ('3/5', '1/5', 3), ('7/5', '1/5', 7),
              ('6/5', '2/5', 3), ('33/10', '11/10', 3), ('3/20', '1/20', 3), ('7/20', '1/20', 7), ('21/100', '7/100', 3),
              ('7/20', '7/100', 5), ('7/10', '7/100', 10)]
NEAR_ABOVE = [('21/10', '3/10', 7), ('27/10', '3/10', 9), ('21/10', '7/10', 3), ('21/5', '7/10', 6), ('7/100', '1/100', 7)]


def gen_nearint_case(rng, pick=None):
    """a repetition count / loop range that is COMPUTED from decimal floats: 'fill the total time T with pieces of duration
    d' = RepetitionPT(ramp of duration d, 'T/d'); 0.3 / 0.1 = 2.9999999999999996 must be three repetitions (checked_int_cast),
    21/10 / (3/10) = 7.000000000000001 seven"""
    T, d, n = pick or rng.choice(NEAR_BELOW + NEAR_BELOW + NEAR_ABOVE)
    den = F(d).denominator
    st = D(rng, den if den in DECIMAL_DENS else 10)
    st.ks = [1]
    st.params['T'] = T
    st.ptypes['T'] = rng.choice(['float', 'dec_str'])
    st.params['d'] = d
    st.ptypes['d'] = rng.choice(['float', 'dec_str'])
    cnt = ['dv', V('T'), 'd', d]
    v0, v1 = two_volts(rng)
    shape = rng.choice(['rep', 'rep', 'for', 'for-stop', 'seq-rep'])
    body = {'k': 'table', 'chs': [['A', [[C(0), C(v0), 'hold'], [V('d'), C(v1), rng.choice(['linear', 'linear', 'jump'])]]]]}
    if rng.random() < 0.3:
        body = {'k': 'func', 'd': V('d'), 'ch': 'A', 'a': C(v0), 'b': C(int(1 / F(d)) + 1)}
    if shape == 'rep':
        pt = {'k': 'rep', 'n': cnt, 'body': body}
    elif shape == 'seq-rep':
        pt = {'k': 'seq', 'subs': [body, {'k': 'rep', 'n': cnt, 'body': body}]}
    else:
        if body['k'] == 'table':
            body['chs'][0][1][0][1] = ['+', C(v0), ['*', V('i'), C(F(1, 2))]]
        else:
            body['a'] = ['+', C(v0), V('i')]
        rg = [C(0), cnt, C(1)] if shape == 'for' else [['-', cnt, C(2)], ['+', cnt, C(1)], C(1)]
        pt = {'k': 'for', 'idx': 'i', 'range': rg, 'body': body}
    rs = [r for dd, _, r in DEC_FAMILIES if dd == st.den][0]
    return finish(st, pt, [], rate_forms(rng, rs, 1), 'nearint:' + shape, extra={'nearint': '%s/%s' % (T, d)})


def gen_dec_cases(rng, tier):
    q = tier == 'quick'
    out = enum_dec_cases(rng, full=not q)
    for pick in (rng.sample(NEAR_BELOW + NEAR_ABOVE, 12) if q else (NEAR_BELOW + NEAR_ABOVE) * 2):
        c = gen_nearint_case(rng, pick)
        if c is not None:
            out.append(c)
    for _ in range(14 if q else 150):
        c = gen_inner_case(rng)
        if c is not None:
            out.append(c)
    for _ in range(110 if q else 800):
        out.append(gen_dec_case(rng))
    return out


def regrid(c, like):
    """a variant (shrinking / search) of the decimal case `like`: keeps the forms and the tolerance comparison, gets the
    junction grid of its own tree"""
    c = dict(c)
    c.update({'dec': True, 'family': 'dec', 'dec_kind': like.get('dec_kind', 'variant'), 'den': like.get('den', 10),
              'ptypes': {k: v for k, v in like.get('ptypes', {}).items() if k in c['params']}, 'rates': list(like.get('rates', []))})
    try:
        env = {k: F(v) for k, v in c['params'].items()}
        dur, js = junctions(c['pt'], env)
        js = sorted(t for t in js | {F(0)} if t < dur)[:60]
        bounds = js + [dur]
        mids = [(a + b) / 2 for a, b in zip(bounds, bounds[1:])][:20]
        c['grid'] = [str(t) for t in sorted(set(js) | set(mids) | {dur})] if dur > 0 else ['0']
        c['rates'] = [[r, f] for r, f in c['rates'] if (dur * F(r)).denominator == 1 and 1 <= dur * F(r) <= 400]
    except Exception:
        c['grid'] = list(like.get('grid', ['0']))
    return c


# ---------------------------------------------------------------------------------------------------------------------
# round 4, coverage audit: deterministic inputs for lines of the anchored files no generated case reached
def gen_edge_cases(rng):
    out = []

    def case(pt, params=None, cm=None, **kw):
        c = {'pt': pt, 'params': params or {}, 'cm': cm or [], 'family': 'edge', 'edge': True}
        c.update(kw)
        out.append(c)

    ramp = lambda ch, d=2, v0=0, v1=1: {'k': 'table', 'chs': [[ch, [[C(0), C(v0), 'hold'], [C(d), C(v1), 'linear']]]]}
    const = lambda chs, d=2, v=F(1, 2): {'k': 'const', 'd': C(d), 'amps': [[ch, C(v)] for ch in chs]}
    # parameters AND channel mapping not given at all (create_program's defaults), with / without Python numbers
    for pt in (ramp('A'), {'k': 'rep', 'n': C(2), 'body': ramp('A')}, {'k': 'seq', 'subs': [ramp('A'), const(['A'])]}):
        case(pt, top_none=True)
        case(pt, top_none=True, numobj=True)
        case(pt, as_scope=True)
    # ArithmeticAtomicPT: a channel that only the right operand defines and holds constant next to a ramp
    # (ArithmeticWaveform.constant_value of a right-only channel: +c / -c)
    for op in '+-':
        for rv in (F(3, 2), F(-1)):
            pt = {'k': 'aarith', 'l': ramp('A'), 'op': op, 'r': const(['A', 'B'], 2, rv)}
            case(pt)
            case({'k': 'rev', 'body': pt})
            case({'k': 'seq', 'subs': [pt, {'k': 'aarith', 'l': const(['B'], 1, F(1)), 'op': op, 'r': ramp('A', 1)}]}, cm=[['B', 'Z']])
    # channel ids whose Python hashes collide (hash(-1) == hash(-2)): two channels, swapped, one dropped, overwritten
    two = {'k': 'multi', 'subs': [ramp(-1), ramp(-2, 2, 3, -1)]}
    case(two)
    case({'k': 'map', 'pm': [], 'chm': [[-1, -2], [-2, -1]], 'body': two})
    case(two, cm=[[-1, None]])
    case(two, cm=[[-2, -1], [-1, -2]])
    case({'k': 'par', 'body': ramp(-1), 'ow': [[-2, C(F(1, 2))]]})
    case({'k': 'arith', 'lhs': True, 'op': '*', 'scalar': {'map': [[-2, C(2)]]}, 'body': {'k': 'seq', 'subs': [two, two]}})
    case({'k': 'aarith', 'l': two, 'op': '-', 'r': const([-2], 2, F(1))})
    # templates of duration 0 on their own / as members: tables and points whose times are all 0, constants of duration 0
    zero_t = {'k': 'table', 'chs': [['A', [[C(0), C(1), 'hold']]]]}
    zero_t2 = {'k': 'table', 'chs': [['A', [[C(0), C(1), 'hold'], [['v', 'd'], C(2), 'hold']]]]}
    zero_p = {'k': 'point', 'entries': [[['v', 'd'], [C(1)], 'hold']], 'chs': ['A']}
    case(zero_t)
    case(zero_t2, {'d': '0'})
    case(zero_p, {'d': '0'})
    case({'k': 'seq', 'subs': [ramp('A'), zero_t2, ramp('A', 1, 1, 0)]}, {'d': '0'})
    case({'k': 'seq', 'subs': [zero_p, ramp('A')]}, {'d': '0'})
    case({'k': 'rep', 'n': C(3), 'body': zero_t2}, {'d': '0'})
    case({'k': 'for', 'idx': 'd', 'range': [C(0), C(3), C(1)], 'body': zero_t2})
    case({'k': 'for', 'idx': 'd', 'range': [C(0), C(3), C(1)], 'body': zero_p})
    return out
