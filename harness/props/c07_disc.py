"""C07 — tie between `coq/C07/Hist.v` (which dictionary OBJECT a query returns / rewrites) and the SOURCE of the pulse
template classes (round 4).  A small, FAIL-CLOSED dataflow analysis over the Python AST of the three properties
`integral`, `initial_values`, `final_values` of every modelled class classifies the dictionary object a property returns:

  NEW      a dictionary created by this call (display / comprehension / dict(...) / a helper that returns such a one and
           does not write to its arguments / functools.reduce over such a helper with a fresh start value),
  THROUGH  the very object a sub-template's property returned (`return self.body.initial_values`), not written to,
  INPLACE  the object a sub-template's property returned, written to (`values[ch] = ...`, `.update`) before it is returned.

Anything else — another decorator than `@property` (memoisation: `cached_property`), an assignment to an attribute of
`self`, returning an attribute of `self`, a statement form or a call the analysis does not know, a write to a helper's
argument — raises `Unknown` and the obligation fails (needs attention).  `pregen` writes the table to
`coq/C07/GenDisc.v`; `coq/C07/ProofsDisc.v` proves that `Hist.hquery` follows exactly this table
(`C07_hquery_follows_source_discipline`), so a change of the discipline in the source breaks the proof."""
import ast
import os

import vlib

PROPS = ('integral', 'initial_values', 'final_values')
QUANT = {'integral': 'QIntegral', 'initial_values': 'QInitial', 'final_values': 'QFinal'}
# Coq class tag -> (file, class name)
CLASSES = [
    ('KTable', 'table_pulse_template', 'TablePulseTemplate'),
    ('KPoint', 'point_pulse_template', 'PointPulseTemplate'),
    ('KConst', 'constant_pulse_template', 'ConstantPulseTemplate'),
    ('KFunc', 'function_pulse_template', 'FunctionPulseTemplate'),
    ('KSeq', 'sequence_pulse_template', 'SequencePulseTemplate'),
    ('KRep', 'repetition_pulse_template', 'RepetitionPulseTemplate'),
    ('KFor', 'loop_pulse_template', 'ForLoopPulseTemplate'),
    ('KMap', 'mapping_pulse_template', 'MappingPulseTemplate'),
    ('KMulti', 'multi_channel_pulse_template', 'AtomicMultiChannelPulseTemplate'),
    ('KPar', 'multi_channel_pulse_template', 'ParallelChannelPulseTemplate'),
    ('KArith', 'arithmetic_pulse_template', 'ArithmeticPulseTemplate'),
    ('KAAtom', 'arithmetic_pulse_template', 'ArithmeticAtomicPulseTemplate'),
]
MUTATORS = {'update', 'setdefault', 'pop', 'popitem', 'clear', '__setitem__', '__delitem__'}
GEN_FILE = 'C07/GenDisc.v'


class Unknown(Exception):
    pass


FRESH, OTHER = ('fresh',), ('other',)


def child(path, prop):
    return ('child', path, prop)


def param(k):
    return ('param', k)


class Unit:
    """one source file: module level functions and classes"""

    def __init__(self, repo, fname):
        self.path = os.path.join(repo, 'qupulse', 'pulses', fname + '.py')
        self.tree = ast.parse(open(self.path).read())
        self.funcs = {n.name: n for n in self.tree.body if isinstance(n, ast.FunctionDef)}
        self.classes = {n.name: n for n in self.tree.body if isinstance(n, ast.ClassDef)}

    def method(self, cls, name):
        for n in self.classes[cls].body:
            if isinstance(n, ast.FunctionDef) and n.name == name:
                return n
        return None


class Analysis:
    """abstract interpretation of one function body: env maps local names to sets of abstract values"""

    def __init__(self, units, unit, cls, fn, self_name='self', depth=0):
        if depth > 4:
            raise Unknown('helper nesting too deep in %s' % fn.name)
        self.units, self.unit, self.cls, self.fn, self.depth = units, unit, cls, fn, depth
        self.self_name = self_name
        self.env = {}
        self.local_funcs = {}
        self.returns = set()
        self.mutated = set()          # abstract values written to
        args = [a.arg for a in fn.args.args]
        if fn.args.vararg or fn.args.kwarg:
            raise Unknown('*args / **kwargs in %s' % fn.name)
        for k, a in enumerate(args + [a.arg for a in fn.args.kwonlyargs]):
            if a != self_name:
                self.env[a] = {param(k)}
        self.block(fn.body)

    # -- expressions -------------------------------------------------------------------------------------------------
    def is_self(self, e):
        return isinstance(e, ast.Name) and e.id == self.self_name

    def child_path(self, e):
        """self.<attr> | self.<attr>[<index>] | <loop variable over self.<attr>> -> printable path, else None"""
        if isinstance(e, ast.Attribute) and self.is_self(e.value):
            return e.attr
        if isinstance(e, ast.Subscript) and isinstance(e.value, ast.Attribute) and self.is_self(e.value.value):
            return '%s[%s]' % (e.value.attr, ast.unparse(e.slice))
        if isinstance(e, ast.Name) and ('elem', ) in self.env.get(e.id, ()):
            return '<element %s>' % e.id
        return None

    def value(self, e):
        """set of abstract values of the OBJECT the expression evaluates to (dictionaries matter, the rest is OTHER)"""
        if isinstance(e, (ast.Dict, ast.DictComp)):
            self.reads(e)
            return {FRESH}
        if isinstance(e, ast.Name):
            if e.id in self.env:
                return set(self.env[e.id])
            return {OTHER}                      # globals / builtins: modules, classes, functions
        if isinstance(e, ast.Attribute):
            if e.attr in PROPS:
                p = self.child_path(e.value)
                if p is None:
                    raise Unknown('%s read from %s' % (e.attr, ast.unparse(e.value)))
                return {child(p, e.attr)}
            if self.is_self(e.value):
                return {('selfattr', e.attr)}     # a stored object: must not be returned or written to
            self.reads(e.value)
            return {OTHER}
        if isinstance(e, ast.Call):
            return self.call(e)
        if isinstance(e, ast.IfExp):
            self.reads(e.test)
            return self.value(e.body) | self.value(e.orelse)
        if isinstance(e, (ast.Tuple, ast.List, ast.Set)):
            for x in e.elts:
                if any(v[0] in ('child', 'param', 'selfattr', 'fresh') for v in self.value(x)) and not isinstance(x, ast.Attribute):
                    raise Unknown('dictionary object stored in a container: %s' % ast.unparse(e))
            return {OTHER}
        self.reads(e)
        return {OTHER}

    def reads(self, e):
        """an expression that is only read: calls inside must not write to tracked objects"""
        for n in ast.walk(e):
            if isinstance(n, ast.Call):
                f = n.func
                if isinstance(f, ast.Attribute) and f.attr in MUTATORS:
                    for v in self.value(f.value):
                        self.write(v, ast.unparse(n))
            if isinstance(n, (ast.NamedExpr, ast.Await, ast.Yield, ast.YieldFrom)):
                raise Unknown('unsupported expression %s' % ast.unparse(n))

    def call(self, e):
        f = e.func
        # dict() / dict(x): a new dictionary
        if isinstance(f, ast.Name) and f.id == 'dict':
            for a in e.args:
                self.reads(a)
            return {FRESH}
        # functools.reduce(fun, iterable, start): start or a result of fun
        if ast.unparse(f) == 'functools.reduce' and len(e.args) == 3:
            fun, it, start = e.args
            self.reads(it)
            res = self.value(start)
            res |= self.apply(fun, [start, None], e)
            return res
        # X.<prop>.fget(self): the property of a base class, analysed like a helper
        if isinstance(f, ast.Attribute) and f.attr == 'fget' and isinstance(f.value, ast.Attribute) and f.value.attr in PROPS \
                and isinstance(f.value.value, ast.Name) and len(e.args) == 1 and self.is_self(e.args[0]):
            return self.base_property(f.value.value.id, f.value.attr)
        # self.<helper>(args)
        if isinstance(f, ast.Attribute) and self.is_self(f.value):
            m = self.unit.method(self.cls, f.attr) if self.cls else None
            if m is None:
                # inherited helper (e.g. _as_expression of another class): result unknown unless only read
                return {('call', f.attr)}
            return self.apply_def(m, [None] + list(e.args), e, method=True)
        # module level helper / local def
        if isinstance(f, ast.Name) and (f.id in self.local_funcs or f.id in self.unit.funcs):
            d = self.local_funcs.get(f.id) or self.unit.funcs[f.id]
            return self.apply_def(d, list(e.args) + [k.value for k in e.keywords], e, method=False, keywords=e.keywords)
        # a method of a tracked object
        if isinstance(f, ast.Attribute) and f.attr in MUTATORS:
            for v in self.value(f.value):
                self.write(v, ast.unparse(e))
            for a in e.args:
                self.reads(a)
            return {OTHER}
        if isinstance(f, ast.Attribute) and f.attr in ('items', 'keys', 'values', 'get', 'copy'):
            self.reads(f.value)
            for a in e.args:
                self.reads(a)
            return {FRESH} if f.attr == 'copy' else {OTHER}
        # any other call (constructors of expressions, sympy, ...): its arguments must not be tracked dictionaries that it
        # could write to -> only OTHER / values read from dictionaries are allowed as arguments
        for a in list(e.args) + [k.value for k in e.keywords]:
            for v in self.value(a):
                if v[0] in ('child', 'param', 'selfattr') and not isinstance(a, ast.Attribute):
                    raise Unknown('tracked object %s passed to unknown callee %s' % (ast.unparse(a), ast.unparse(f)))
        if isinstance(f, ast.Attribute):
            self.reads(f.value)
        return {OTHER}

    def apply(self, fun, args, where):
        if isinstance(fun, ast.Name) and (fun.id in self.local_funcs or fun.id in self.unit.funcs):
            d = self.local_funcs.get(fun.id) or self.unit.funcs[fun.id]
            return self.apply_def(d, args, where, method=False)
        raise Unknown('unknown function value %s' % ast.unparse(fun))

    def apply_def(self, d, args, where, method, keywords=()):
        sub = Analysis(self.units, self.unit, self.cls if method else None, d,
                       self_name=self.self_name if method else '\0', depth=self.depth + 1)
        names = [a.arg for a in d.args.args] + [a.arg for a in d.args.kwonlyargs]
        actual = {}
        for k, a in enumerate(args):
            if k < len(names):
                actual[k] = a
        for kw in keywords:
            if kw.arg in names:
                actual[names.index(kw.arg)] = kw.value
        out = set()

        def back(v):
            if v[0] == 'param':
                a = actual.get(v[1])
                if a is None:
                    return {OTHER}
                return self.value(a)
            return {v}
        for v in sub.mutated:
            for w in back(v):
                self.write(w, ast.unparse(where))
        for v in sub.returns:
            out |= back(v)
        return out

    def base_property(self, clsname, prop):
        for u in self.units.values():
            if clsname in u.classes:
                m = u.method(clsname, prop)
                if m is None:
                    break
                check_decorators(m)
                sub = Analysis(self.units, u, clsname, m, depth=self.depth + 1)
                for v in sub.mutated:
                    self.write(v, '%s.%s' % (clsname, prop))
                return set(sub.returns)
        raise Unknown('base class property %s.%s not found' % (clsname, prop))

    def write(self, v, where):
        if v[0] in ('fresh', 'other'):
            return
        if v[0] == 'call':
            return          # the result of an inherited helper call (a new dictionary per call, e.g. _as_expression)
        self.mutated.add(v)
        if v[0] == 'selfattr':
            raise Unknown('write to a stored attribute of self: %s' % where)

    # -- statements --------------------------------------------------------------------------------------------------
    def block(self, stmts):
        for s in stmts:
            self.stmt(s)

    def assign(self, target, vals):
        if isinstance(target, ast.Name):
            self.env[target.id] = set(vals)
        elif isinstance(target, ast.Subscript):
            for v in self.value(target.value):
                self.write(v, ast.unparse(target))
        elif isinstance(target, ast.Attribute):
            raise Unknown('assignment to attribute %s' % ast.unparse(target))
        else:
            raise Unknown('assignment target %s' % ast.unparse(target))

    def stmt(self, s):
        if isinstance(s, ast.Expr):
            if isinstance(s.value, ast.Constant):
                return
            self.value(s.value)
        elif isinstance(s, ast.Assign):
            for t in s.targets:
                if isinstance(t, ast.Tuple) and isinstance(s.value, ast.Tuple) and len(t.elts) == len(s.value.elts):
                    vals = [self.value(x) for x in s.value.elts]
                    for tt, vv in zip(t.elts, vals):
                        self.assign(tt, vv)
                elif isinstance(t, ast.Tuple):
                    raise Unknown('tuple unpacking of %s' % ast.unparse(s.value))
                else:
                    self.assign(t, self.value(s.value))
        elif isinstance(s, ast.AugAssign):
            self.reads(s.value)
            self.assign(s.target, {OTHER}) if isinstance(s.target, ast.Subscript) else None
        elif isinstance(s, ast.AnnAssign):
            if s.value is not None:
                self.assign(s.target, self.value(s.value))
        elif isinstance(s, ast.For):
            it = s.iter
            src = self.value(it) if not isinstance(it, ast.Call) else None
            if isinstance(it, ast.Call):
                self.reads(it)
            # loop variables: elements (possibly sub-templates when iterating an attribute of self), never dictionaries
            # handed out by properties
            for n in ast.walk(s.target):
                if isinstance(n, ast.Name):
                    self.env[n.id] = {('elem',)} if src and any(v[0] == 'selfattr' for v in src) else {OTHER}
            # two passes: a loop body may rebind names
            self.block(s.body); self.block(s.body)
            if s.orelse:
                raise Unknown('for/else')
        elif isinstance(s, ast.If):
            self.reads(s.test)
            before = {k: set(v) for k, v in self.env.items()}
            self.block(s.body)
            after_then = self.env
            self.env = {k: set(v) for k, v in before.items()}
            self.block(s.orelse)
            for k, v in after_then.items():
                self.env[k] = self.env.get(k, set()) | v
        elif isinstance(s, ast.Return):
            if s.value is None:
                raise Unknown('return without value')
            self.returns |= self.value(s.value)
        elif isinstance(s, ast.Assert):
            self.reads(s.test)
        elif isinstance(s, ast.FunctionDef):
            self.local_funcs[s.name] = s
        elif isinstance(s, ast.Try):
            self.block(s.body)
            for h in s.handlers:
                self.block(h.body)
            self.block(s.orelse); self.block(s.finalbody)
        elif isinstance(s, ast.Raise) or isinstance(s, ast.Pass):
            return
        else:
            raise Unknown('statement %s' % type(s).__name__)


def check_decorators(fn):
    decs = [ast.unparse(d) for d in fn.decorator_list]
    if decs != ['property']:
        raise Unknown('%s is decorated with %s, expected exactly @property (a memoised property hands out one object)'
                      % (fn.name, decs))


def classify_property(units, fname, cls, prop):
    u = units[fname]
    fn = u.method(cls, prop)
    if fn is None:
        raise Unknown('%s.%s not defined in the class itself' % (cls, prop))
    check_decorators(fn)
    a = Analysis(units, u, cls, fn)
    rets = {v for v in a.returns}
    kinds = set()
    for v in rets:
        if v[0] in ('fresh', 'call'):
            kinds.add('DNew')
        elif v[0] == 'child':
            if v[2] != prop:
                raise Unknown('%s.%s returns the %s of a sub-template' % (cls, prop, v[2]))
            kinds.add('DInPlace' if v in a.mutated else 'DThrough')
        else:
            raise Unknown('%s.%s returns %s' % (cls, prop, v))
    for v in a.mutated:
        if v not in rets:
            raise Unknown('%s.%s writes to %s which it does not return' % (cls, prop, v))
    if len(kinds) != 1:
        raise Unknown('%s.%s returns objects of different kinds: %s' % (cls, prop, sorted(kinds)))
    return kinds.pop()


def discipline_table(repo):
    files = sorted({f for _, f, _ in CLASSES} | {'pulse_template'})
    units = {f: Unit(repo, f) for f in files}
    return {(tag, prop): classify_property(units, f, cls, prop) for tag, f, cls in CLASSES for prop in PROPS}


def render(table, repo):
    lines = ['(* GENERATED by harness/props/c07_disc.py from the source under test (%s/qupulse/pulses/*_pulse_template.py).' % repo,
             '   Do not edit.  Which dictionary object `integral` / `initial_values` / `final_values` return, class by class, read',
             '   off the Python AST (fail closed).  ProofsDisc.v proves that Hist.hquery follows this table. *)',
             'Require Import QV.C07.Model QV.C07.Disc.', '',
             'Definition src_disc (k : cls) (q : quantity) : disc :=', '  match k, q with']
    for tag, _, _ in CLASSES:
        for prop in PROPS:
            lines.append('  | %s, %s => %s' % (tag, QUANT[prop], table[tag, prop]))
    lines += ['  end.', '']
    return '\n'.join(lines)


def pregen(ctx):
    repo = vlib.REPO
    path = os.path.join(vlib.COQ, GEN_FILE)
    try:
        text = render(discipline_table(repo), '$VERIF_REPO or /repo')
    except Unknown as e:
        return [{'name': 'source_discipline_translated', 'ok': False,
                 'detail': 'the dictionary-object discipline of the source could not be classified (fail closed): %s' % e}]
    except (OSError, SyntaxError, KeyError) as e:
        return [{'name': 'source_discipline_translated', 'ok': False, 'detail': '%s: %s' % (type(e).__name__, e)}]
    old = open(path).read() if os.path.exists(path) else None
    if old != text:
        with open(path, 'w') as f:
            f.write(text)
    return [{'name': 'source_discipline_translated', 'ok': True,
             'detail': '36 (class, property) pairs classified from the AST; %s %s' % (GEN_FILE, 'unchanged' if old == text else 'rewritten')}]


if __name__ == '__main__':
    import sys
    t = discipline_table(sys.argv[1] if len(sys.argv) > 1 else '/repo')
    for tag, _, _ in CLASSES:
        print(tag, [t[tag, p] for p in PROPS])
