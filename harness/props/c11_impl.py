"""C11 helper: runs store / overwrite / delete of the REAL qupulse.serialization on a scratch backend with one
injected failure, and reads the backend back through new objects.  No model knowledge in here."""
import builtins
import contextlib
import copy
import errno
import io
import json
import os
import re
import resource
import shutil
import tempfile
import warnings
import zipfile
import zlib

import vlib

def _scratch_root():
    # thousands of tiny directories are created and removed per run: a memory file system is ~100 times faster.
    # Failures are injected at the python level, so the kind of file system does not matter.
    for base in ('/dev/shm', vlib.BUILD):
        if os.path.isdir(base) and os.access(base, os.W_OK | os.X_OK):
            return os.path.join(base, 'verif_c11_scratch.%d' % os.getpid())
    return os.path.join(vlib.BUILD, 'scratch.%d' % os.getpid())


SCRATCH_ROOT = _scratch_root()


class InjectedFault(OSError):
    pass


KILL_STATUS = 77
KILL_MODES = ('noflush', 'flush', 'flush-last', 'flush-first')
_REAL_OPEN = builtins.open
COPY_CHUNK = 256


class Injector:
    """Counts the mutating primitives performed below `root` (and calls of wrapped backend methods); makes the
    `fault_at`-th one raise InjectedFault (mode 'raise': before doing anything; mode 'partial': a file write puts half
    of the data first).  Exactly one failure per run; later primitives run normally (error handlers may clean up)."""

    def __init__(self, root, fault_at=None, mode='raise', kill=None, reads=False, lowlevel=False, on_position=None,
                 natural_at=None):
        self.root = os.path.abspath(root) if root else None
        self.fault_at = fault_at
        # natural_at: the primitive at this position (one that has to open / create a file) is NOT made to raise by the
        # injector: the ENVIRONMENT makes it fail - the limit of open file descriptors of the process is 0 while it
        # runs (EMFILE from the real open / mkstemp), and is restored right after it
        self.natural_at = natural_at
        self._rlimit = None
        self.mode = mode
        # kill: None = exception semantics (the primitive raises, the code runs on);  'count' = only count the
        # positions of the kill runs;  a flush mode (KILL_MODES) = the PROCESS STOPS before the primitive (os._exit:
        # no except / finally clause, no __exit__, no buffered data written unless the flush mode says so: 'flush' =
        # everything the process handed to file objects so far has reached the disk, 'flush-last' / 'flush-first' =
        # only the data of the file opened last / first among the files that are still open, 'noflush' = nothing).
        # Kill runs have extra positions: before a written file / archive is closed.
        # on_position(k, name): called before every position of a run without failure ("snapshot run": the
        # directory is copied at every position = what a process that stops there leaves behind).
        self.kill = kill
        self.on_position = on_position
        self.paused = False
        # lowlevel: the file objects zipfile opens itself (io.open) are proxied too: every low-level write of the
        # archive writer (local header, entry data, central directory records, end record - the last ones are
        # written inside ZipFile.close()) is a fault position of its own
        self.lowlevel = lowlevel
        self.open_files = []
        # reads: read primitives below root (open for reading, ZipFile(..., 'r'), ZipFile.open/read) are fault
        # positions too (exception semantics only); they do not count as writes
        self.reads = reads and kill is None
        self.nwrites = 0
        self.count = 0
        self.trace = []
        self.targets = []           # per position: base name of the file concerned (None when unknown)
        self.env_errors = []        # (position, errno): an opening primitive failed on its own (not injected)
        self.writes_before = None
        self.fired = False
        self._saved = []

    def _mine(self, path):
        if self.paused:
            return False
        try:
            return self.root is not None and os.path.abspath(os.fspath(path)).startswith(self.root + os.sep)
        except TypeError:
            return False

    def hit(self, name, mutating=True, target=None):
        """returns True when this primitive has to fail"""
        k = self.count
        self.count += 1
        self.trace.append(name)
        self.targets.append(os.path.basename(os.fspath(target)) if isinstance(target, (str, bytes, os.PathLike)) else None)
        if self.on_position is not None:
            self.paused = True
            try:
                self.on_position(k, name)
            finally:
                self.paused = False
        if self.fault_at is not None and k == self.fault_at and not self.fired:
            self.fired = True
            self.writes_before = self.nwrites       # mutating primitives completed before this one
            return True
        if self.natural_at is not None and k == self.natural_at and not self.fired:
            self.fired = True
            self.writes_before = self.nwrites
            self._rlimit = resource.getrlimit(resource.RLIMIT_NOFILE)
            resource.setrlimit(resource.RLIMIT_NOFILE, (0, self._rlimit[1]))
            return False                             # the primitive itself runs - and fails on its own
        if mutating:
            self.nwrites += 1
        return False

    def env_error(self, e):
        self.env_errors.append((self.count - 1, e.errno))

    def disarm(self):
        if self._rlimit is not None:
            resource.setrlimit(resource.RLIMIT_NOFILE, self._rlimit)
            self._rlimit = None

    def flush_files(self, flush_mode):
        """what reaches the disk although the process stops: per flush mode a selection of the files still open"""
        live = [f for f in self.open_files if not getattr(f, 'closed', True)]
        sel = {'flush': live, 'flush-last': live[-1:], 'flush-first': live[:1]}.get(flush_mode, [])
        for f in sel:
            try:
                f.flush()
                os.fsync(f.fileno())
            except Exception:
                pass

    def fail(self, name):
        if self.kill in KILL_MODES:
            self.flush_files(self.kill)
            os._exit(KILL_STATUS)
        raise InjectedFault('injected failure at primitive %d (%s)' % (self.count - 1, name))

    def _patch(self, obj, attr, new):
        self._saved.append((obj, attr, obj.__dict__[attr] if isinstance(obj, type) else getattr(obj, attr)))
        setattr(obj, attr, new)

    def wrap_backend_methods(self, backend, names=('put', 'delete')):
        for nm in names:
            orig = getattr(backend, nm)

            def wrapper(*a, _orig=orig, _nm=nm, **kw):
                if self.hit('backend.' + _nm):
                    self.fail('backend.' + _nm)
                return _orig(*a, **kw)
            backend.__dict__[nm] = wrapper
            self._saved.append((backend, '__inst__' + nm, None))

    def __enter__(self):
        inj = self
        real_open = builtins.open

        class FileProxy:
            def __init__(self, f, label='write'):
                self._f = f
                self._label = label
                inj.open_files.append(f)

            def close(self):
                if inj.kill and not self._f.closed:
                    if inj.hit('close'):
                        inj.fail('close')
                return self._f.close()

            def write(self, data):
                if inj.hit(self._label):
                    if inj.mode == 'partial':
                        self._f.write(data[:len(data) // 2])
                    inj.fail(self._label)
                return self._f.write(data)

            def writelines(self, lines):
                for ln in lines:
                    self.write(ln)

            def __enter__(self):
                self._f.__enter__()
                return self

            def __exit__(self, *a):
                self.close()
                return self._f.__exit__(*a)

            def __iter__(self):
                return iter(self._f)

            def __getattr__(self, nm):
                return getattr(self._f, nm)

        def open_(file, mode='r', *a, **kw):
            if isinstance(file, (str, bytes, os.PathLike)) and inj._mine(file) and any(ch in mode for ch in 'wax+'):
                if inj.hit('open:' + mode, target=file):
                    inj.fail('open')
                try:
                    return FileProxy(real_open(file, mode, *a, **kw))
                except OSError as e:
                    inj.env_error(e)
                    raise
                finally:
                    inj.disarm()
            if inj.reads and isinstance(file, (str, bytes, os.PathLike)) and inj._mine(file):
                if inj.hit('open:r', mutating=False):
                    inj.fail('open:r')
            try:
                return real_open(file, mode, *a, **kw)
            except OSError as e:
                if inj._rlimit is not None:
                    inj.env_error(e)
                raise
            finally:
                inj.disarm()
        self._patch(builtins, 'open', open_)
        self._FileProxy = FileProxy

        real_fdopen = os.fdopen

        def fdopen(fd, mode='r', *a, **kw):
            # a descriptor obtained from mkstemp / os.open turned into a file object: its writes are positions
            try:
                target = os.readlink('/proc/self/fd/%d' % fd)
            except OSError:
                target = None
            if target and inj._mine(target) and any(ch in mode for ch in 'wax+'):
                return FileProxy(real_fdopen(fd, mode, *a, **kw))
            return real_fdopen(fd, mode, *a, **kw)
        self._patch(os, 'fdopen', fdopen)

        if self.lowlevel:
            real_io_open = io.open
            dead = set()

            def io_open(file, mode='r', *a, **kw):
                if isinstance(file, (str, bytes, os.PathLike)) and inj._mine(file) and any(ch in mode for ch in 'wax+'):
                    # (zipfile retries a failed open with another mode: the file stays unopenable)
                    if file in dead:
                        raise InjectedFault('injected failure: %r cannot be opened' % (file,))
                    if inj.hit('io.open'):
                        dead.add(file)
                        inj.fail('io.open')
                    if inj._rlimit is not None:      # natural failure: zipfile retries with other modes, all fail
                        dead.add(file)
                        try:
                            return real_io_open(file, mode, *a, **kw)
                        except OSError as e:
                            inj.env_error(e)
                            raise
                        finally:
                            inj.disarm()
                    return FileProxy(real_io_open(file, mode, *a, **kw), 'lowwrite')
                return real_io_open(file, mode, *a, **kw)
            self._patch(io, 'open', io_open)

        # shutil: no in-kernel fast path (the copy loop would be invisible), small chunks, one position per chunk
        self._patch(shutil, '_USE_CP_SENDFILE', False)
        real_cfo = shutil.copyfileobj

        def copyfileobj(fsrc, fdst, length=0):
            target = getattr(fdst, 'name', None)
            if isinstance(target, (str, bytes, os.PathLike)) and inj._mine(target):
                while True:
                    buf = fsrc.read(COPY_CHUNK)
                    if not buf:
                        return
                    if isinstance(fdst, FileProxy):
                        fdst.write(buf)
                    else:
                        if inj.hit('copyfileobj.write'):
                            if inj.mode == 'partial':
                                fdst.write(buf[:len(buf) // 2])
                            inj.fail('copyfileobj.write')
                        fdst.write(buf)
            return real_cfo(fsrc, fdst, length)
        self._patch(shutil, 'copyfileobj', copyfileobj)

        def path_fn(mod, nm, nargs):
            orig = getattr(mod, nm)

            def fn(*a, **kw):
                if any(inj._mine(x) for x in a[:nargs] if isinstance(x, (str, bytes, os.PathLike))):
                    if inj.hit('%s.%s' % (mod.__name__, nm)):
                        inj.fail(nm)
                return orig(*a, **kw)
            self._patch(mod, nm, fn)
        for nm in ('remove', 'unlink', 'rename', 'replace', 'truncate', 'rmdir', 'link', 'symlink'):
            path_fn(os, nm, 2)
        for nm in ('copy', 'copy2', 'copyfile', 'move'):
            path_fn(shutil, nm, 2)

        real_mkstemp = tempfile.mkstemp

        def mkstemp(suffix=None, prefix=None, dir=None, text=False):
            if dir is not None and (inj._mine(os.path.join(dir, 'x'))):
                if inj.hit('tempfile.mkstemp'):
                    inj.fail('mkstemp')
            try:
                return real_mkstemp(suffix, prefix, dir, text)
            except OSError as e:
                inj.env_error(e)
                raise
            finally:
                inj.disarm()
        self._patch(tempfile, 'mkstemp', mkstemp)

        for nm in ('writestr', 'write'):
            orig = zipfile.ZipFile.__dict__[nm]

            def zfn(zself, *a, _orig=orig, _nm=nm, **kw):
                if zself.filename and inj._mine(zself.filename):
                    if inj.hit('zip.%s' % _nm):
                        inj.fail(_nm)
                return _orig(zself, *a, **kw)
            self._patch(zipfile.ZipFile, nm, zfn)

        orig_zinit = zipfile.ZipFile.__dict__['__init__']

        def zinit(zself, file, mode='r', *a, **kw):
            if inj.reads and mode == 'r' and isinstance(file, (str, bytes, os.PathLike)) and inj._mine(file):
                if inj.hit('zip.open:r', mutating=False):
                    inj.fail('zip.open:r')
            try:
                orig_zinit(zself, file, mode, *a, **kw)
            except OSError as e:
                if inj._rlimit is not None:
                    inj.env_error(e)
                raise
            finally:
                inj.disarm()
            if mode != 'r' and zself.filename and inj._mine(zself.filename) and zself.fp is not None \
                    and not isinstance(zself.fp, FileProxy):
                inj.open_files.append(zself.fp)
        self._patch(zipfile.ZipFile, '__init__', zinit)
        orig_zopen = zipfile.ZipFile.__dict__['open']

        def zopen(zself, name, mode='r', *a, **kw):
            if inj.reads and mode == 'r' and zself.filename and inj._mine(zself.filename):
                if inj.hit('zip.read', mutating=False):
                    inj.fail('zip.read')
            return orig_zopen(zself, name, mode, *a, **kw)
        self._patch(zipfile.ZipFile, 'open', zopen)
        orig_zclose = zipfile.ZipFile.__dict__['close']

        def zclose(zself):
            if inj.kill and zself.fp is not None and zself.mode != 'r' and zself.filename and inj._mine(zself.filename):
                if inj.hit('zip.close'):
                    inj.fail('zip.close')
            return orig_zclose(zself)
        self._patch(zipfile.ZipFile, 'close', zclose)
        return self

    def __exit__(self, *exc):
        self.disarm()
        for obj, attr, old in reversed(self._saved):
            if attr.startswith('__inst__'):
                obj.__dict__.pop(attr[len('__inst__'):], None)
            else:
                setattr(obj, attr, old)
        self._saved = []
        return False


# ---------------------------------------------------------------------------------------------------------------------
# identifiers: the model's number i is the string 'n<i>' unless the case gives the identifier another spelling
# (`names`: very long identifiers, characters that matter for a file system); observations are mapped back
_NAMES = {}
_IDS = {}


def set_names(names):
    new = {int(k): v for k, v in (names or {}).items()}
    if new == _NAMES:
        return
    _OBS_CACHE.clear()          # (the cached observations are in terms of the numbers)
    _RAW_CACHE.clear()
    _NAMES.clear()
    _IDS.clear()
    for k, v in (names or {}).items():
        _NAMES[int(k)] = v
        _IDS[v] = int(k)


def name_of(i):
    return _NAMES.get(i) or 'n%d' % i


def id_of(name):
    if name in _IDS:
        return _IDS[name]
    m = re.fullmatch(r'n(\d+)', name)
    if not m or int(m.group(1)) in _NAMES:
        raise RuntimeError('unexpected identifier: %r' % name[:80])
    return int(m.group(1))


OPENING_PRIMS = ('tempfile.mkstemp', 'io.open', 'zip.open:r')
READ_PRIMS = ('open:r', 'zip.open:r', 'zip.read')
NATURAL_ERRNOS = (errno.EMFILE, errno.ENFILE, errno.ENAMETOOLONG, errno.ENOENT, errno.ENOTDIR)
_NATURAL = [False]      # a failure caused by the environment is expected in the run that is in progress


_BAD = {}


def _bad_class():
    if 'c' not in _BAD:
        from qupulse.pulses import ConstantPT

        class UnserializableLeaf(ConstantPT):
            def get_serialization_data(self, serializer=None):
                d = super().get_serialization_data()
                d['handle'] = object()
                return d
        _BAD['c'] = UnserializableLeaf
    return _BAD['c']


def build(objs, tag, memo):
    """Python object for object-table entry `tag` (one Python object per tag and run)."""
    from qupulse.pulses import ConstantPT, SequencePT, RepetitionPT, FunctionPT
    tag = str(tag)
    if tag in memo:
        return memo[tag]
    o = objs[tag]
    kids = []
    for j, k in enumerate(o['kids']):
        if k == 'bad':
            kid = _bad_class()(1, {'a': 0.25})
        else:
            kid = build(objs, k, memo)
        if o.get('wrap') and o['wrap'][j]:
            kid = RepetitionPT(kid, 2)
        kids.append(kid)
    ident = name_of(o['id'])
    meas = [('p%d' % o['payload'], 0, 1)]
    shape = o.get('shape', 0)
    if not kids:
        if shape % 2 == 0:
            t = ConstantPT(2, {'a': 0.5}, identifier=ident, measurements=meas)
        elif o['payload'] % 4 == 1:
            t = FunctionPT('sin(t)', 3, channel='a', identifier=ident, measurements=meas)
        else:       # (parsing the expression of a FunctionPT dominates the run time: only every fourth such leaf)
            t = ConstantPT(3, {'a': 0.25}, identifier=ident, measurements=meas)
    elif len(kids) == 1 and shape % 2 == 1:
        t = RepetitionPT(kids[0], 3, identifier=ident, measurements=meas)
    else:
        t = SequencePT(*kids, identifier=ident, measurements=meas)
    memo[tag] = t
    return t


def make_backend(kind, scratch):
    from qupulse.serialization import DictBackend, FilesystemBackend, ZipFileBackend, CachingBackend
    if kind == 'dict':
        return DictBackend()
    if kind == 'fs':
        return FilesystemBackend(os.path.join(scratch, 'store'), create_if_missing=True)
    if kind == 'cfs':
        return CachingBackend(FilesystemBackend(os.path.join(scratch, 'store'), create_if_missing=True))
    if kind == 'zip':
        return ZipFileBackend(os.path.join(scratch, 'store.zip'))
    if kind == 'czip':
        return CachingBackend(ZipFileBackend(os.path.join(scratch, 'store.zip')))
    raise ValueError(kind)


def _reopen(ps):
    from qupulse.serialization import DictBackend, FilesystemBackend, ZipFileBackend, CachingBackend, PulseStorage
    be = ps._storage_backend
    if isinstance(be, FilesystemBackend):
        be = FilesystemBackend(be._root)
    elif isinstance(be, ZipFileBackend):
        be = ZipFileBackend(be._root)
    elif isinstance(be, CachingBackend):
        with warnings.catch_warnings():
            warnings.simplefilter('ignore')
            inner = be._backend
            be = CachingBackend(FilesystemBackend(inner._root) if isinstance(inner, FilesystemBackend)
                                else ZipFileBackend(inner._root))
    return PulseStorage(be)


def apply_op(ps, op, objs, memo):
    """-> 'ok' | 'clash' | 'unser' | 'missing' | 'fault' | 'recursion' ; anything else propagates.
    'recursion': the identity check `o is not self.storage[id]` (or a load) ran into a self-referencing document
    (known finding dup-id-in-transaction / overwrite-creates-cycle); raised before anything is written."""
    try:
        if op['op'] == 'clear':
            if op.get('how') == 'wrapper':
                # the caching wrapper forgets its texts as well (CachingBackend.clear_cache)
                ps._storage_backend.clear_cache()
                ps.clear()
            elif op.get('how') == 'reopen':
                # a new PulseStorage (and, for persistent backends, a new backend object) on the same content takes
                # over: same effect on the cache as clear(); the old objects are dropped
                ps.__dict__.update(_reopen(ps).__dict__)
            else:
                ps.clear()
        elif op['op'] == 'delete':
            del ps[name_of(op['id'])]
        elif op['op'] == 'load':
            # a query that caches: the identifier and everything it refers to that is not cached yet is read from the
            # backend into NEW objects; they are registered under the tags base + identifier so that later operations
            # of the case can use them as sub-templates
            had = set(ps.temporary_storage)
            try:
                ps[name_of(op['id'])]
            finally:
                for nm in set(ps.temporary_storage) - had:
                    memo[str(op['base'] + id_of(nm))] = ps.temporary_storage[nm].serializable
        elif op['op'] == 'store' and op.get('via_registry') and str(op['t']) not in memo:
            # the PulseStorage is the default pulse registry: CONSTRUCTING the named object stores it
            # (Serializable._register -> registry[identifier] = self -> PulseStorage.__setitem__)
            for k in objs[str(op['t'])]['kids']:
                if k != 'bad':
                    build(objs, k, memo)
            with ps.as_default_registry():
                build(objs, op['t'], memo)
        else:
            t = build(objs, op['t'], memo)
            if op['op'] == 'store':
                ps[t.identifier] = t
            else:
                ps.overwrite(t.identifier, t)
        return 'ok'
    except InjectedFault:
        return 'fault'
    except OSError as e:
        if _NATURAL[0] and e.errno in NATURAL_ERRNOS and not isinstance(e, FileExistsError):
            return 'fault'
        raise
    except RuntimeError as e:
        if isinstance(e, RecursionError):
            return 'recursion'
        return 'clash'
    except TypeError as e:
        if 'JSON serializable' in str(e):
            return 'unser'
        raise
    except KeyError:
        return 'missing'


def parse_doc(text):
    """(payload, [referenced ids in document order]) or None when the text is not a complete document"""
    try:
        d = json.loads(text)
        payload = int(re.fullmatch(r'p(\d+)', d['measurements'][0][0]).group(1))
        if '#identifier' not in d or '#type' not in d:
            return None
    except Exception:
        return None
    refs = []

    def walk(x):
        if isinstance(x, dict):
            if x.get('#type') == 'reference':
                refs.append(id_of(x['#identifier']))
                return
            for k in x:
                walk(x[k])
        elif isinstance(x, list):
            for y in x:
                walk(y)
    try:
        walk(d)
    except Exception:
        return None
    return [payload, refs]


def observe(kind, scratch, backend):
    """what a reader sees.  dict: through the backend object; directory / archive: through NEW backend objects; caching
    wrapper: both - the directory / archive through new objects and, when the wrapper object is given, the content
    through the wrapper itself (its listing and its cached texts, new PulseStorage); the result is the first, with the
    second attached as `view2` when it differs"""
    res = _observe(kind, scratch, backend)
    if kind in ('cfs', 'czip') and backend is not None:
        saved = dict(backend._cache)        # (the observation itself must not fill the wrapper's cache)
        try:
            res2 = _observe('dict', scratch, backend)
        except Exception as e:
            res2 = {'missing': True, 'entries': [], 'error': '%s: %s' % (type(e).__name__, str(e)[:100])}
        finally:
            backend._cache = saved
        if res2 != res:
            res = dict(res, view2=res2)
    return res


def _observe(kind, scratch, backend):
    from qupulse.serialization import FilesystemBackend, ZipFileBackend, PulseStorage
    raw_key = None
    if kind == 'dict':
        be = backend
    elif kind in ('fs', 'cfs'):
        be = FilesystemBackend(os.path.join(scratch, 'store'))
    else:
        path = os.path.join(scratch, 'store.zip')
        if not os.path.isfile(path):
            return {'missing': True, 'entries': []}
        with _REAL_OPEN(path, 'rb') as fh:      # same bytes of the archive file => same observation
            raw_key = fh.read()
        if raw_key in _RAW_CACHE:
            return json.loads(_RAW_CACHE[raw_key])
        try:
            be = ZipFileBackend(path)
            sorted(be)
        except (zipfile.BadZipFile, FileExistsError):
            # the file is there but is not a readable archive any more: every entry is lost
            _RAW_CACHE[raw_key] = json.dumps({'missing': True, 'entries': []})
            return {'missing': True, 'entries': []}
    texts = [(name, be.get(name)) for name in sorted(be)]
    key = tuple(texts)
    listed = PulseStorage(be)
    if sorted(listed) != [n for n, _ in texts] or len(listed) != len(texts):
        raise RuntimeError('PulseStorage lists something else than its backend')
    if key in _OBS_CACHE:           # the result is a function of the complete content of the backend
        res = _OBS_CACHE[key]
        if raw_key is not None:
            _RAW_CACHE[raw_key] = res
        return json.loads(res)
    entries = []
    for name, text in texts:
        ident = id_of(name)
        doc = parse_doc(text)
        try:
            with vlib.time_limit(10):
                obj = PulseStorage(be)[name]
            loads = obj is not None and obj.identifier == name
        except vlib.Timeout:
            raise
        except Exception:
            loads = False
        entries.append([ident, doc, loads])
    entries.sort(key=lambda e: e[0])        # (by number: the order must not depend on the spelling)
    res = {'missing': False, 'entries': entries}
    if len(_OBS_CACHE) > 20000:
        _OBS_CACHE.clear()
        _RAW_CACHE.clear()
    _OBS_CACHE[key] = json.dumps(res)
    if raw_key is not None:
        _RAW_CACHE[raw_key] = _OBS_CACHE[key]
    return res


_OBS_CACHE = {}
_RAW_CACHE = {}
_counter = [0]


def execute(case, fault_at=None, kill=None):
    """One run of history (no failures) + final operation (with the fault_at-th primitive failing, exception
    semantics).  kill = 'count': no failure, the positions of the kill runs are counted."""
    from qupulse.serialization import PulseStorage
    _counter[0] += 1
    scratch = os.path.join(SCRATCH_ROOT, 'r%d' % _counter[0])
    os.makedirs(scratch)
    set_names(case.get('names'))
    try:
        with warnings.catch_warnings():
            warnings.simplefilter('ignore')
            kind = case['backend']
            backend = make_backend(kind, scratch)
            ps = PulseStorage(backend)
            memo = {}
            for op in case['history']:
                r = apply_op(ps, op, case['objs'], memo)
                if r == 'fault':
                    raise RuntimeError('fault outside injection')
            before = observe(kind, scratch, ps._storage_backend)
            inj = Injector(None if kind == 'dict' else scratch, fault_at, case.get('fault', 'raise'), kill,
                           reads=case.get('reads', False), lowlevel=case.get('lowlevel', False))
            if kind == 'dict':
                inj.wrap_backend_methods(backend)
            with inj:
                outcome = apply_op(ps, case['final'], case['objs'], memo)
            after = observe(kind, scratch, ps._storage_backend)
            res = {'before': before, 'outcome': outcome, 'after': after, 'count': inj.count, 'trace': inj.trace,
                   'writes_before': inj.writes_before, 'fired': inj.fired}
            if case.get('post') and kill is None:
                try:
                    res['post_outcome'] = apply_op(ps, case['post'], case['objs'], memo)
                except vlib.Timeout:
                    raise
                except Exception:
                    res['post_outcome'] = 'unusable'
                res['post_obs'] = observe(kind, scratch, ps._storage_backend)
            return res
    finally:
        shutil.rmtree(scratch, ignore_errors=True)


def _in_child(fn):
    """run fn() in a forked child; -> (exit code, JSON value fn returned or None).  The child never returns."""
    rfd, wfd = os.pipe()
    pid = os.fork()
    if pid == 0:
        status = 3
        try:
            os.close(rfd)
            res = fn()
            os.write(wfd, json.dumps(res).encode())
            status = 0
        except BaseException as e:
            try:
                os.write(wfd, json.dumps({'child_error': '%s: %s' % (type(e).__name__, str(e)[:300])}).encode())
            except BaseException:
                pass
            status = 4
        finally:
            os._exit(status)
    os.close(wfd)
    try:
        data = b''
        while True:
            chunk = os.read(rfd, 1 << 16)
            if not chunk:
                break
            data += chunk
        _, st = os.waitpid(pid, 0)
    except BaseException:
        try:
            os.kill(pid, 9)
            os.waitpid(pid, 0)
        except OSError:
            pass
        raise
    finally:
        os.close(rfd)
    return os.waitstatus_to_exitcode(st), (json.loads(data.decode()) if data else None)


class _State:
    """Shallow snapshot of the attributes of the PulseStorage and of the backend object(s) (containers are copied one
    level deep; the cached template objects are immutable).  Restoring it + restoring the directory + forgetting
    the objects built for the final operation puts a run back to "the history was just executed"."""

    def __init__(self, ps, backend):
        self.objs = []
        for o in (ps, backend, getattr(ps, '_storage_backend', None)):
            for x in (o, getattr(o, '_backend', None)):
                if x is not None and not any(x is y for y in self.objs):
                    self.objs.append(x)
        self.saved = [self._copy(o.__dict__) for o in self.objs]

    @staticmethod
    def _copy(d):
        return {k: (copy.copy(v) if isinstance(v, (dict, list, set)) else v) for k, v in d.items()}

    def restore(self):
        for o, sv in zip(self.objs, self.saved):
            o.__dict__.clear()
            o.__dict__.update(self._copy(sv))


def _raw_copytree(src, dst):
    """copies the bytes that are on disk right now (unpatched primitives; used inside an injection context)"""
    os.mkdir(dst)
    for e in os.scandir(src):
        if e.is_dir(follow_symlinks=False):
            _raw_copytree(e.path, os.path.join(dst, e.name))
        else:
            with _REAL_OPEN(e.path, 'rb') as f:
                data = f.read()
            with _REAL_OPEN(os.path.join(dst, e.name), 'wb') as f:
                f.write(data)


def _leftovers(kind, scratch):
    top = scratch if kind in ('zip', 'czip') else os.path.join(scratch, 'store')
    return len([f for f in os.listdir(top) if not (re.fullmatch(r'n\d+\.json|store\.zip', f)
                                                   or (f.endswith('.json') and f[:-5] in _IDS))])


def _case_rng(case):
    import random
    return random.Random(zlib.crc32(json.dumps(case, sort_keys=True, default=str).encode()))


def select_positions(trace, cap, rng):
    """the fault positions of the raise runs: all of them, or - above `cap` - the first and last three, every call of
    an os / shutil / backend level primitive (the steps that can publish) with its neighbours, and a random choice
    among the remaining ones (mostly consecutive writes into a temporary file)"""
    n = len(trace)
    if cap is None or n <= cap:
        return list(range(n))
    keep = set(range(3)) | set(range(n - 3, n))
    for k, name in enumerate(trace):
        if name.startswith(('os.', 'shutil.', 'backend.')):
            keep.update(j for j in (k - 2, k - 1, k, k + 1) if 0 <= j < n)
    rest = [k for k in range(n) if k not in keep]
    keep.update(rng.sample(rest, min(max(0, cap - len(keep)), len(rest))))
    return sorted(keep)


def run_case(case, kill_modes=(), real_kills=2, validate=1, cap=None):
    """All runs of one case.  The history runs ONCE (no failures); directory and object state are saved; then the
    final operation runs
      * once without failure and once per primitive (above `cap` positions: per selected primitive, see
        select_positions) with that primitive raising (exception semantics; follow-up operation on the same
        PulseStorage), each time from the restored state; `validate` of these runs (chosen by a
        case-determined random generator; None = all) are repeated by `execute` from scratch (new directory, history
        re-run) and must agree;
      * per flush mode once as a SNAPSHOT RUN: no failure, the directory is copied before every position (after
        flushing what the mode says) = what a process that stops there leaves behind; each copy is observed, and the
        follow-up operation performed on it, through NEW backend / PulseStorage objects; at `real_kills` positions per
        mode (None = all) the process really is killed there (forked child, os._exit) and what it leaves must be
        observed equal to the copy."""
    from qupulse.serialization import PulseStorage
    _counter[0] += 1
    scratch = os.path.join(SCRATCH_ROOT, 'r%d' % _counter[0])
    backup, snaproot = scratch + '.bak', scratch + '.snap'
    os.makedirs(scratch)
    kind = case['backend']
    rng = _case_rng(case)
    set_names(case.get('names'))
    try:
        with warnings.catch_warnings():
            warnings.simplefilter('ignore')
            backend = make_backend(kind, scratch)
            ps = PulseStorage(backend)
            memo = {}
            for op in case['history']:
                if apply_op(ps, op, case['objs'], memo) == 'fault':
                    raise RuntimeError('fault outside injection')
            before = observe(kind, scratch, ps._storage_backend)
            state = _State(ps, backend)
            hist_memo = dict(memo)
            if kind != 'dict':
                shutil.copytree(scratch, backup)

            def reset():
                state.restore()
                memo.clear()
                memo.update(hist_memo)
                if kind != 'dict':
                    shutil.rmtree(scratch, ignore_errors=True)
                    shutil.copytree(backup, scratch)

            def injector(fault_at, kill=None, on_position=None, natural_at=None):
                inj = Injector(None if kind == 'dict' else scratch, fault_at, case.get('fault', 'raise'), kill,
                               reads=case.get('reads', False), lowlevel=case.get('lowlevel', False),
                               on_position=on_position, natural_at=natural_at)
                if kind == 'dict':
                    inj.wrap_backend_methods(backend)
                return inj

            def raise_run(fault_at, natural_at=None, names=None):
                """fault_at: the injector makes that primitive raise.  natural_at / names: the ENVIRONMENT makes a
                primitive fail (no file descriptor left while the primitive at that position runs / an identifier
                spelled so that a file name derived from it is not acceptable to the file system)"""
                inj = injector(fault_at, natural_at=natural_at)
                _NATURAL[0] = natural_at is not None or names is not None
                if names is not None:
                    set_names(dict(case.get('names') or {}, **names))
                try:
                    try:
                        with inj:
                            outcome = apply_op(ps, case['final'], case['objs'], memo)
                    finally:
                        _NATURAL[0] = False
                    res = {'before': before, 'outcome': outcome, 'after': observe(kind, scratch, ps._storage_backend),
                           'count': inj.count, 'trace': inj.trace, 'writes_before': inj.writes_before,
                           'fired': inj.fired, 'targets': inj.targets, 'env_errors': inj.env_errors}
                    if case.get('post'):
                        try:
                            res['post_outcome'] = apply_op(ps, case['post'], case['objs'], memo)
                        except vlib.Timeout:
                            raise
                        except Exception:      # e.g. the archive / a listed document is not readable any more
                            res['post_outcome'] = 'unusable'
                        res['post_obs'] = observe(kind, scratch, ps._storage_backend)
                    return res
                finally:
                    _NATURAL[0] = False
                    if names is not None:
                        set_names(case.get('names'))
                    reset()

            r0 = raise_run(None)
            positions = select_positions(r0['trace'], None if case.get('all_positions') else cap, rng)
            runs = {k: raise_run(k) for k in positions}
            out = {'r0': r0, 'runs': runs, 'kills': [], 'ktrace': [], 'validated': 0, 'naturals': []}

            # failures the environment produces (no exception raised by the harness)
            nat = case.get('natural') or {}
            if kind != 'dict' and nat.get('emfile'):
                for k, prim in enumerate(r0['trace']):
                    if prim in OPENING_PRIMS or prim.startswith('open:'):
                        rn = raise_run(None, natural_at=k)
                        if [e for e in rn['env_errors'] if e[0] == k and e[1] in (errno.EMFILE, errno.ENFILE)]:
                            rn.update(k=k, how='EMFILE')
                            out['naturals'].append(rn)
                        else:
                            return {'error': 'no file descriptor limit failure at position %d (%s)' % (k, prim)}
            for spec in nat.get('names', []) if kind != 'dict' else []:
                rn = raise_run(None, names={str(spec['id']): spec['name']})
                errs = [e for e in rn['env_errors'] if e[1] in NATURAL_ERRNOS]
                if bool(errs) != bool(spec['fails'] and kind in ('fs', 'cfs')):
                    return {'error': 'identifier of %d characters: the environment %s' % (
                        len(spec['name']), 'refused a file name' if errs else 'accepted all file names')}
                if errs:
                    k = errs[0][0]
                    rn.update(k=k, how=errno.errorcode[errs[0][1]], fired=True,
                              writes_before=sum(1 for t in rn['trace'][:k] if t not in READ_PRIMS))
                    out['naturals'].append(rn)
                else:
                    for fld in ('outcome', 'after', 'trace'):
                        if rn[fld] != r0[fld]:
                            return {'error': 'the spelling of identifier %d changes the run (%s)' % (spec['id'], fld)}

            # independent repetition of some runs (separate directory, history executed again)
            choices = [None] + positions
            picked = choices if validate is None else [rng.choice(choices) for _ in range(validate)]
            for k in picked:
                ind = execute(case, k)
                mine = r0 if k is None else runs[k]
                for fld in ('before', 'outcome', 'after', 'trace', 'writes_before', 'fired', 'post_outcome', 'post_obs'):
                    if ind.get(fld) != mine.get(fld):
                        return {'error': 'run from the restored state differs from an independent run (failure at %s, %s)'
                                         % (k, fld)}
                out['validated'] += 1

            if kind == 'dict' or not kill_modes:
                return out
            for mode in kill_modes:
                moderoot = os.path.join(snaproot, mode)
                os.makedirs(moderoot)
                holder = {}

                def on_position(k, name, _mode=mode, _root=moderoot):
                    holder['inj'].flush_files(_mode)
                    _raw_copytree(scratch, os.path.join(_root, 'k%d' % k))
                inj = injector(None, 'snapshot', on_position)
                holder['inj'] = inj
                try:
                    with inj:
                        outcome = apply_op(ps, case['final'], case['objs'], memo)
                    after = observe(kind, scratch, ps._storage_backend)
                finally:
                    reset()
                if outcome != r0['outcome'] or after != r0['after']:
                    return {'error': 'non-deterministic run (snapshot run, %s)' % mode}
                if out['ktrace'] and out['ktrace'] != inj.trace:
                    return {'error': 'non-deterministic positions (snapshot runs)'}
                out['ktrace'] = trace = inj.trace
                seq = []
                for k in range(len(trace)):
                    snap = os.path.join(moderoot, 'k%d' % k)
                    r = {'k': k, 'prim': trace[k], 'mode': mode, 'wb': k, 'obs': observe(kind, snap, None),
                         'leftovers': _leftovers(kind, snap), 'post_outcome': None}
                    if case.get('post'):
                        try:
                            ps2 = PulseStorage(make_backend(kind, snap))
                            r['post_outcome'] = apply_op(ps2, case['post'], case['objs'], {})
                        except Exception:      # e.g. the archive is not readable any more
                            r['post_outcome'] = 'unusable'
                        r['post'] = observe(kind, snap, None)
                    else:
                        r['post'] = r['obs']
                    seq.append(r)
                out['kills'].append(seq)
                # the process really stops at some of the positions: same remains as the copy?
                ks = list(range(len(trace)))
                if real_kills is not None and len(ks) > real_kills:
                    ks = sorted(rng.sample(ks, real_kills))
                for k in ks:
                    def fn(_k=k, _mode=mode):
                        with injector(_k, _mode):
                            apply_op(ps, case['final'], case['objs'], memo)
                        return None
                    try:
                        code, _ = _in_child(fn)
                        if code != KILL_STATUS:
                            return {'error': 'kill run k=%d (%s) did not stop at the position (exit %s)' % (k, mode, code)}
                        if observe(kind, scratch, None) != seq[k]['obs'] or _leftovers(kind, scratch) != seq[k]['leftovers']:
                            return {'error': 'killed process (k=%d, %s) leaves something else than the copy taken at '
                                             'that position' % (k, mode)}
                        seq[k]['real_kill'] = True
                    finally:
                        reset()
                shutil.rmtree(moderoot, ignore_errors=True)
            return out
    finally:
        shutil.rmtree(scratch, ignore_errors=True)
        shutil.rmtree(backup, ignore_errors=True)
        shutil.rmtree(snaproot, ignore_errors=True)


def cleanup():
    shutil.rmtree(SCRATCH_ROOT, ignore_errors=True)
