"""C11 helper: runs store / overwrite / delete of the REAL qupulse.serialization on a scratch backend with one
injected failure, and reads the backend back through new objects.  No model knowledge in here."""
import builtins
import contextlib
import json
import os
import re
import shutil
import tempfile
import warnings
import zipfile

import vlib

def _scratch_root():
    # thousands of tiny directories are created and removed per run: a memory file system is ~100 times faster.
    # Failures are injected at the python level, so the kind of file system does not matter.
    for base in ('/dev/shm', vlib.BUILD):
        if os.path.isdir(base) and os.access(base, os.W_OK | os.X_OK):
            return os.path.join(base, 'verif_c11_scratch.%d' % os.getpid())
    return os.path.join(vlib.BUILD, 'scratch.%d' % os.getpid())


SCRATCH_ROOT = _scratch_root()


class InjectedFault(OSError):
    pass


KILL_STATUS = 77


class Injector:
    """Counts the mutating primitives performed below `root` (and calls of wrapped backend methods); makes the
    `fault_at`-th one raise InjectedFault (mode 'raise': before doing anything; mode 'partial': a file write puts half
    of the data first).  Exactly one failure per run; later primitives run normally (error handlers may clean up)."""

    def __init__(self, root, fault_at=None, mode='raise', kill=None, reads=False):
        self.root = os.path.abspath(root) if root else None
        self.fault_at = fault_at
        self.mode = mode
        # kill: None = exception semantics (the primitive raises, the code runs on);  'count' = only count the
        # positions of the kill runs;  'flush' / 'noflush' = the PROCESS STOPS before the primitive (os._exit: no
        # except / finally clause, no __exit__, no buffered data written unless 'flush' = everything the process
        # handed to file objects so far has reached the disk).  Kill runs have extra positions: before a written
        # file / archive is closed.
        self.kill = kill
        self.open_files = []
        # reads: read primitives below root (open for reading, ZipFile(..., 'r'), ZipFile.open/read) are fault
        # positions too (exception semantics only); they do not count as writes
        self.reads = reads and kill is None
        self.nwrites = 0
        self.count = 0
        self.trace = []
        self.writes_before = None
        self.fired = False
        self._saved = []

    def _mine(self, path):
        try:
            return self.root is not None and os.path.abspath(os.fspath(path)).startswith(self.root + os.sep)
        except TypeError:
            return False

    def hit(self, name, mutating=True):
        """returns True when this primitive has to fail"""
        k = self.count
        self.count += 1
        self.trace.append(name)
        if self.fault_at is not None and k == self.fault_at and not self.fired:
            self.fired = True
            self.writes_before = self.nwrites       # mutating primitives completed before this one
            return True
        if mutating:
            self.nwrites += 1
        return False

    def fail(self, name):
        if self.kill in ('flush', 'noflush'):
            if self.kill == 'flush':
                for f in self.open_files:
                    try:
                        f.flush()
                        os.fsync(f.fileno())
                    except Exception:
                        pass
            os._exit(KILL_STATUS)
        raise InjectedFault('injected failure at primitive %d (%s)' % (self.count - 1, name))

    def _patch(self, obj, attr, new):
        self._saved.append((obj, attr, obj.__dict__[attr] if isinstance(obj, type) else getattr(obj, attr)))
        setattr(obj, attr, new)

    def wrap_backend_methods(self, backend, names=('put', 'delete')):
        for nm in names:
            orig = getattr(backend, nm)

            def wrapper(*a, _orig=orig, _nm=nm, **kw):
                if self.hit('backend.' + _nm):
                    self.fail('backend.' + _nm)
                return _orig(*a, **kw)
            backend.__dict__[nm] = wrapper
            self._saved.append((backend, '__inst__' + nm, None))

    def __enter__(self):
        inj = self
        real_open = builtins.open

        class FileProxy:
            def __init__(self, f):
                self._f = f
                inj.open_files.append(f)

            def close(self):
                if inj.kill and not self._f.closed:
                    if inj.hit('close'):
                        inj.fail('close')
                return self._f.close()

            def write(self, data):
                if inj.hit('write'):
                    if inj.mode == 'partial':
                        self._f.write(data[:len(data) // 2])
                    inj.fail('write')
                return self._f.write(data)

            def writelines(self, lines):
                for ln in lines:
                    self.write(ln)

            def __enter__(self):
                self._f.__enter__()
                return self

            def __exit__(self, *a):
                self.close()
                return self._f.__exit__(*a)

            def __iter__(self):
                return iter(self._f)

            def __getattr__(self, nm):
                return getattr(self._f, nm)

        def open_(file, mode='r', *a, **kw):
            if isinstance(file, (str, bytes, os.PathLike)) and inj._mine(file) and any(ch in mode for ch in 'wax+'):
                if inj.hit('open:' + mode):
                    inj.fail('open')
                return FileProxy(real_open(file, mode, *a, **kw))
            if inj.reads and isinstance(file, (str, bytes, os.PathLike)) and inj._mine(file):
                if inj.hit('open:r', mutating=False):
                    inj.fail('open:r')
            return real_open(file, mode, *a, **kw)
        self._patch(builtins, 'open', open_)

        def path_fn(mod, nm, nargs):
            orig = getattr(mod, nm)

            def fn(*a, **kw):
                if any(inj._mine(x) for x in a[:nargs] if isinstance(x, (str, bytes, os.PathLike))):
                    if inj.hit('%s.%s' % (mod.__name__, nm)):
                        inj.fail(nm)
                return orig(*a, **kw)
            self._patch(mod, nm, fn)
        for nm in ('remove', 'unlink', 'rename', 'replace', 'truncate', 'rmdir', 'link', 'symlink'):
            path_fn(os, nm, 2)
        for nm in ('copy', 'copy2', 'copyfile', 'move', 'copyfileobj'):
            path_fn(shutil, nm, 2)

        real_mkstemp = tempfile.mkstemp

        def mkstemp(suffix=None, prefix=None, dir=None, text=False):
            if dir is not None and (inj._mine(os.path.join(dir, 'x'))):
                if inj.hit('tempfile.mkstemp'):
                    inj.fail('mkstemp')
            return real_mkstemp(suffix, prefix, dir, text)
        self._patch(tempfile, 'mkstemp', mkstemp)

        for nm in ('writestr', 'write'):
            orig = zipfile.ZipFile.__dict__[nm]

            def zfn(zself, *a, _orig=orig, _nm=nm, **kw):
                if zself.filename and inj._mine(zself.filename):
                    if inj.hit('zip.%s' % _nm):
                        inj.fail(_nm)
                return _orig(zself, *a, **kw)
            self._patch(zipfile.ZipFile, nm, zfn)

        orig_zinit = zipfile.ZipFile.__dict__['__init__']

        def zinit(zself, file, mode='r', *a, **kw):
            if inj.reads and mode == 'r' and isinstance(file, (str, bytes, os.PathLike)) and inj._mine(file):
                if inj.hit('zip.open:r', mutating=False):
                    inj.fail('zip.open:r')
            orig_zinit(zself, file, mode, *a, **kw)
            if mode != 'r' and zself.filename and inj._mine(zself.filename) and zself.fp is not None:
                inj.open_files.append(zself.fp)
        self._patch(zipfile.ZipFile, '__init__', zinit)
        orig_zopen = zipfile.ZipFile.__dict__['open']

        def zopen(zself, name, mode='r', *a, **kw):
            if inj.reads and mode == 'r' and zself.filename and inj._mine(zself.filename):
                if inj.hit('zip.read', mutating=False):
                    inj.fail('zip.read')
            return orig_zopen(zself, name, mode, *a, **kw)
        self._patch(zipfile.ZipFile, 'open', zopen)
        orig_zclose = zipfile.ZipFile.__dict__['close']

        def zclose(zself):
            if inj.kill and zself.fp is not None and zself.mode != 'r' and zself.filename and inj._mine(zself.filename):
                if inj.hit('zip.close'):
                    inj.fail('zip.close')
            return orig_zclose(zself)
        self._patch(zipfile.ZipFile, 'close', zclose)
        return self

    def __exit__(self, *exc):
        for obj, attr, old in reversed(self._saved):
            if attr.startswith('__inst__'):
                obj.__dict__.pop(attr[len('__inst__'):], None)
            else:
                setattr(obj, attr, old)
        self._saved = []
        return False


# ---------------------------------------------------------------------------------------------------------------------
def name_of(i):
    return 'n%d' % i


_BAD = {}


def _bad_class():
    if 'c' not in _BAD:
        from qupulse.pulses import ConstantPT

        class UnserializableLeaf(ConstantPT):
            def get_serialization_data(self, serializer=None):
                d = super().get_serialization_data()
                d['handle'] = object()
                return d
        _BAD['c'] = UnserializableLeaf
    return _BAD['c']


def build(objs, tag, memo):
    """Python object for object-table entry `tag` (one Python object per tag and run)."""
    from qupulse.pulses import ConstantPT, SequencePT, RepetitionPT, FunctionPT
    tag = str(tag)
    if tag in memo:
        return memo[tag]
    o = objs[tag]
    kids = []
    for j, k in enumerate(o['kids']):
        if k == 'bad':
            kid = _bad_class()(1, {'a': 0.25})
        else:
            kid = build(objs, k, memo)
        if o.get('wrap') and o['wrap'][j]:
            kid = RepetitionPT(kid, 2)
        kids.append(kid)
    ident = name_of(o['id'])
    meas = [('p%d' % o['payload'], 0, 1)]
    shape = o.get('shape', 0)
    if not kids:
        if shape % 2 == 0:
            t = ConstantPT(2, {'a': 0.5}, identifier=ident, measurements=meas)
        elif o['payload'] % 4 == 1:
            t = FunctionPT('sin(t)', 3, channel='a', identifier=ident, measurements=meas)
        else:       # (parsing the expression of a FunctionPT dominates the run time: only every fourth such leaf)
            t = ConstantPT(3, {'a': 0.25}, identifier=ident, measurements=meas)
    elif len(kids) == 1 and shape % 2 == 1:
        t = RepetitionPT(kids[0], 3, identifier=ident, measurements=meas)
    else:
        t = SequencePT(*kids, identifier=ident, measurements=meas)
    memo[tag] = t
    return t


def make_backend(kind, scratch):
    from qupulse.serialization import DictBackend, FilesystemBackend, ZipFileBackend, CachingBackend
    if kind == 'dict':
        return DictBackend()
    if kind == 'fs':
        return FilesystemBackend(os.path.join(scratch, 'store'), create_if_missing=True)
    if kind == 'cfs':
        return CachingBackend(FilesystemBackend(os.path.join(scratch, 'store'), create_if_missing=True))
    if kind == 'zip':
        return ZipFileBackend(os.path.join(scratch, 'store.zip'))
    raise ValueError(kind)


def apply_op(ps, op, objs, memo):
    """-> 'ok' | 'clash' | 'unser' | 'missing' | 'fault' | 'recursion' ; anything else propagates.
    'recursion': the identity check `o is not self.storage[id]` (or a load) ran into a self-referencing document
    (known finding dup-id-in-transaction / overwrite-creates-cycle); raised before anything is written."""
    try:
        if op['op'] == 'clear':
            ps.clear()
        elif op['op'] == 'delete':
            del ps[name_of(op['id'])]
        else:
            t = build(objs, op['t'], memo)
            if op['op'] == 'store':
                ps[t.identifier] = t
            else:
                ps.overwrite(t.identifier, t)
        return 'ok'
    except InjectedFault:
        return 'fault'
    except RuntimeError as e:
        if isinstance(e, RecursionError):
            return 'recursion'
        return 'clash'
    except TypeError as e:
        if 'JSON serializable' in str(e):
            return 'unser'
        raise
    except KeyError:
        return 'missing'


def parse_doc(text):
    """(payload, [referenced ids in document order]) or None when the text is not a complete document"""
    try:
        d = json.loads(text)
        payload = int(re.fullmatch(r'p(\d+)', d['measurements'][0][0]).group(1))
        if '#identifier' not in d or '#type' not in d:
            return None
    except Exception:
        return None
    refs = []

    def walk(x):
        if isinstance(x, dict):
            if x.get('#type') == 'reference':
                refs.append(int(re.fullmatch(r'n(\d+)', x['#identifier']).group(1)))
                return
            for k in x:
                walk(x[k])
        elif isinstance(x, list):
            for y in x:
                walk(y)
    try:
        walk(d)
    except Exception:
        return None
    return [payload, refs]


def observe(kind, scratch, backend):
    from qupulse.serialization import FilesystemBackend, ZipFileBackend, PulseStorage
    if kind == 'dict':
        be = backend
    elif kind in ('fs', 'cfs'):
        be = FilesystemBackend(os.path.join(scratch, 'store'))
    else:
        path = os.path.join(scratch, 'store.zip')
        if not os.path.isfile(path):
            return {'missing': True, 'entries': []}
        try:
            be = ZipFileBackend(path)
            sorted(be)
        except (zipfile.BadZipFile, FileExistsError):
            # the file is there but is not a readable archive any more: every entry is lost
            return {'missing': True, 'entries': []}
    texts = [(name, be.get(name)) for name in sorted(be)]
    key = tuple(texts)
    if key in _OBS_CACHE:           # the result is a function of the complete content of the backend
        return json.loads(_OBS_CACHE[key])
    entries = []
    for name, text in texts:
        m = re.fullmatch(r'n(\d+)', name)
        if not m:
            raise RuntimeError('unexpected identifier listed: %r' % name)
        doc = parse_doc(text)
        try:
            with vlib.time_limit(10):
                obj = PulseStorage(be)[name]
            loads = obj is not None and obj.identifier == name
        except vlib.Timeout:
            raise
        except Exception:
            loads = False
        entries.append([int(m.group(1)), doc, loads])
    res = {'missing': False, 'entries': entries}
    _OBS_CACHE[key] = json.dumps(res)
    return res


_OBS_CACHE = {}
_counter = [0]


def execute(case, fault_at=None, kill=None):
    """One run of history (no failures) + final operation (with the fault_at-th primitive failing, exception
    semantics).  kill = 'count': no failure, the positions of the kill runs are counted."""
    from qupulse.serialization import PulseStorage
    _counter[0] += 1
    scratch = os.path.join(SCRATCH_ROOT, 'r%d' % _counter[0])
    os.makedirs(scratch)
    try:
        with warnings.catch_warnings():
            warnings.simplefilter('ignore')
            kind = case['backend']
            backend = make_backend(kind, scratch)
            ps = PulseStorage(backend)
            memo = {}
            for op in case['history']:
                r = apply_op(ps, op, case['objs'], memo)
                if r == 'fault':
                    raise RuntimeError('fault outside injection')
            before = observe(kind, scratch, backend)
            inj = Injector(None if kind == 'dict' else scratch, fault_at, case.get('fault', 'raise'), kill,
                           reads=case.get('reads', False))
            if kind == 'dict':
                inj.wrap_backend_methods(backend)
            with inj:
                outcome = apply_op(ps, case['final'], case['objs'], memo)
            after = observe(kind, scratch, backend)
            res = {'before': before, 'outcome': outcome, 'after': after, 'count': inj.count, 'trace': inj.trace,
                   'writes_before': inj.writes_before, 'fired': inj.fired}
            if case.get('post') and kill is None:
                res['post_outcome'] = apply_op(ps, case['post'], case['objs'], memo)
                res['post_obs'] = observe(kind, scratch, backend)
            return res
    finally:
        shutil.rmtree(scratch, ignore_errors=True)


def _in_child(fn):
    """run fn() in a forked child; -> (exit code, JSON value fn returned or None).  The child never returns."""
    rfd, wfd = os.pipe()
    pid = os.fork()
    if pid == 0:
        status = 3
        try:
            os.close(rfd)
            res = fn()
            os.write(wfd, json.dumps(res).encode())
            status = 0
        except BaseException as e:
            try:
                os.write(wfd, json.dumps({'child_error': '%s: %s' % (type(e).__name__, str(e)[:300])}).encode())
            except BaseException:
                pass
            status = 4
        finally:
            os._exit(status)
    os.close(wfd)
    try:
        data = b''
        while True:
            chunk = os.read(rfd, 1 << 16)
            if not chunk:
                break
            data += chunk
        _, st = os.waitpid(pid, 0)
    except BaseException:
        try:
            os.kill(pid, 9)
            os.waitpid(pid, 0)
        except OSError:
            pass
        raise
    finally:
        os.close(rfd)
    return os.waitstatus_to_exitcode(st), (json.loads(data.decode()) if data else None)


def execute_all(case, kill_modes=(), raise_runs=True):
    """All runs of one case on a persistent backend.  The history runs once (no failures); the scratch directory is
    saved; every run of the final operation happens in a forked child (which inherits the PulseStorage with its
    cache) and the directory is restored afterwards.
      * exception semantics: the child performs the operation with the k-th primitive raising, observes, performs
        the follow-up operation on the same PulseStorage, observes, and reports;
      * kill semantics (modes 'noflush' / 'flush'): the child stops (os._exit: no except / finally / __exit__ code, no
        buffered data unless 'flush') before position k; the observation and the follow-up operation are done by
        this process with NEW backend / PulseStorage objects, i.e. what a new process sees."""
    from qupulse.serialization import PulseStorage
    _counter[0] += 1
    scratch = os.path.join(SCRATCH_ROOT, 'r%d' % _counter[0])
    backup = scratch + '.bak'
    os.makedirs(scratch)
    kind = case['backend']
    if kind == 'dict':
        raise ValueError('needs a persistent backend')
    try:
        with warnings.catch_warnings():
            warnings.simplefilter('ignore')
            backend = make_backend(kind, scratch)
            ps = PulseStorage(backend)
            memo = {}
            for op in case['history']:
                if apply_op(ps, op, case['objs'], memo) == 'fault':
                    raise RuntimeError('fault outside injection')
            before = observe(kind, scratch, None)
            shutil.copytree(scratch, backup)

            def restore():
                shutil.rmtree(scratch, ignore_errors=True)
                shutil.copytree(backup, scratch)

            def raise_run(fault_at):
                def fn():
                    inj = Injector(scratch, fault_at, case.get('fault', 'raise'))
                    with inj:
                        outcome = apply_op(ps, case['final'], case['objs'], memo)
                    res = {'outcome': outcome, 'after': observe(kind, scratch, None), 'count': inj.count,
                           'trace': inj.trace, 'writes_before': inj.writes_before, 'fired': inj.fired}
                    if case.get('post'):
                        res['post_outcome'] = apply_op(ps, case['post'], case['objs'], memo)
                        res['post_obs'] = observe(kind, scratch, None)
                    return res
                code, res = _in_child(fn)
                restore()
                if code != 0 or res is None or 'child_error' in res:
                    raise RuntimeError('run with failure at %s: exit %s %s' % (fault_at, code, res))
                return res

            def kill_run(fault_at, mode):
                def fn():
                    inj = Injector(scratch, fault_at, case.get('fault', 'raise'), mode)
                    with inj:
                        apply_op(ps, case['final'], case['objs'], memo)
                    return inj.trace
                return _in_child(fn)

            out = {'before': before, 'kills': [], 'ktrace': []}
            if raise_runs:      # (slower than re-running the history in this process: not used by the check)
                r0 = raise_run(None)
                r0['before'] = before
                runs = []
                for k in range(r0['count']):
                    rk = raise_run(k)
                    rk['before'] = before
                    runs.append(rk)
                out.update({'r0': r0, 'runs': runs})
            if kill_modes:
                code, trace = kill_run(None, 'count')
                out['after'] = observe(kind, scratch, None)
                restore()
                if code != 0:
                    return {'error': 'kill counting run: exit %s' % code}
                out['ktrace'] = trace
                for mode in kill_modes:
                    seq = []
                    for k in range(len(trace)):
                        code, _ = kill_run(k, mode)
                        if code != KILL_STATUS:
                            return {'error': 'kill run k=%d (%s) did not stop at the position (exit %s)' % (k, mode, code)}
                        top = scratch if kind == 'zip' else os.path.join(scratch, 'store')
                        leftovers = [f for f in os.listdir(top) if not re.fullmatch(r'n\d+\.json|store\.zip', f)]
                        r = {'k': k, 'prim': trace[k], 'mode': mode, 'wb': k, 'obs': observe(kind, scratch, None),
                             'leftovers': len(leftovers), 'post_outcome': None}
                        if case.get('post'):
                            try:
                                ps2 = PulseStorage(make_backend(kind, scratch))
                                r['post_outcome'] = apply_op(ps2, case['post'], case['objs'], {})
                            except Exception:      # e.g. the archive is not readable any more
                                r['post_outcome'] = 'unusable'
                            r['post'] = observe(kind, scratch, None)
                        else:
                            r['post'] = r['obs']
                        seq.append(r)
                        restore()
                    out['kills'].append(seq)
            return out
    finally:
        shutil.rmtree(scratch, ignore_errors=True)
        shutil.rmtree(backup, ignore_errors=True)


def cleanup():
    _OBS_CACHE.clear()
    shutil.rmtree(SCRATCH_ROOT, ignore_errors=True)
