"""C10 — pinned documents: JSON documents written by the pinned /repo code for every template class.  They are part of
the corpus (corpus/C10/pinned_documents.json) and must keep loading to an equal template on every later version of the
code: a change of a serialization key, of a type identifier or of a default turns into a concrete failing input.

Regenerate (only on the UNCHANGED tree, the whole point is that these texts are old):
    cd /verif/harness && PYTHONPATH=/repo:/verif/harness PYTHONHASHSEED=0 /venv/bin/python -m props.c10_pin
"""
import copy
import json
import os
import random
import warnings


def iface_of(obj):
    from props import c10
    out = {}
    for attr in ('parameter_names', 'defined_channels', 'measurement_names'):
        try:
            out[attr] = sorted((repr(type(x).__name__), str(x)) for x in getattr(obj, attr))
        except Exception as e:   # noqa
            out[attr] = 'exc:' + type(e).__name__
    try:
        out['duration'] = c10.fp_value(obj.duration)
    except Exception as e:   # noqa
        out['duration'] = 'exc:' + type(e).__name__
    return json.loads(json.dumps(out))


def pin_case(name, nodes, root):
    from qupulse.serialization import PulseStorage, DictBackend
    from props import c10, c10_gen as G
    objs = G.build(nodes)
    obj = objs[root]
    b = DictBackend()
    with warnings.catch_warnings():
        warnings.simplefilter('ignore')
        PulseStorage(b)[obj.identifier] = obj
    docs = {k: b[k] for k in sorted(b)}
    return {'kind': 'pinned', 'name': name, 'docs': docs, 'load': obj.identifier,
            'expect': c10.introspect(obj, {}), 'iface': iface_of(obj)}


def main():
    import vlib
    from props import c10_gen as G
    rng = random.Random(20261001)
    out = []
    classes, keys = set(), set()
    cands = G.gen_cases(rng, 'thorough', n_store=400, n_doc=0)
    for idx, c in enumerate(cands):
        if {'int_key', 'dup_id'} & set(c['flags']):
            continue
        try:
            pc = pin_case('gen%03d' % idx, c['nodes'], c['roots'][0])
        except Exception:   # noqa
            continue
        new_c, new_k = set(), set()
        for text in pc['docs'].values():
            def walk(x):
                if isinstance(x, dict):
                    t = x.get('#type')
                    if t is not None:
                        new_c.add(t)
                        new_k.update((t, k) for k in x)
                    for v in x.values():
                        walk(v)
                elif isinstance(x, list):
                    for v in x:
                        walk(v)
            walk(json.loads(text))
        # keep a case when it shows a class or key not seen yet, plus a base load of varied cases
        if (new_k - keys) or len(out) < 25:
            classes |= new_c
            keys |= new_k
            out.append(pc)
    for si, shape in enumerate(G.SHAPES):
        nodes = copy.deepcopy(shape)
        for j, n in enumerate(nodes):
            n['id'] = 'root' if j == 3 else 'e%d' % j
        out.append(pin_case('shape%d' % si, nodes, 3))
    path = os.path.join(vlib.VERIF, 'corpus', 'C10', 'pinned_documents.json')
    with open(path, 'w') as fh:
        json.dump(out, fh, indent=0, sort_keys=True)
    print('%d pinned cases, %d documents, %d classes, %d (class, key) pairs' % (
        len(out), sum(len(c['docs']) for c in out), len(classes), len(keys)))
    for t in sorted(classes):
        print(' ', t, sorted(k for c, k in keys if c == t))


if __name__ == '__main__':
    main()
