"""C12 — expressions evaluate to the value of the formula they denote (qupulse/expressions/sympy.py, utils/sympy.py).

Specification: coq/C12/Spec.v (formula language over Q, denotation eval); model: coq/C12/Model.v (subst, builders,
cmp_model, broadcasting evalv), ModelT.v (Python typing); check_spec: SpecCheck.v (imports Spec.v only).
The implementation (sympy + lambdify + numpy) is *compared* with the model, it is not modelled."""
import fractions
import os
import random
import warnings

import vlib
from props import c12_expr as X
from props import c12_det as D

F = fractions.Fraction
PID = 'C12'
COQ_DIRS = ['common', 'C12']
TARGETS = ['C12/Props.vo', 'C12/Corr.vo']
MODEL_TARGETS = ['C12/Corr.vo']
PROPS_FILE = 'C12/Props.v'
PROPS_MODULE = 'QV.C12.Props'
CORR_IMPORTS = ['QV.C12.Model', 'QV.C12.ModelT', 'QV.C12.Corr']
CHECK_CORR = 'check_corr'
CHECK_SPEC = 'check_spec'
SHARD = 120
RULE = ('random formulas (depth <= 4) over + - * / unary minus, integer powers, Min/Max, floor/ceiling, //, Abs, '
        'Piecewise with comparisons/And/Or/Not (with and without default), Sum with integer limits (nested, index reused '
        'outside), x[i] on indexed bases, IndexedBroadcast, sin/cos/exp (tolerance only); printed in sympy syntax or built '
        'from sympy objects; scopes of ints, dyadic floats, TimeType, numpy scalars, Fractions (type-rejection stream). '
        'One case = one Expression object and a call history on it: evaluate_in_scope / evaluate_numeric / '
        'evaluate_with_exact_rationals / evaluate_symbolic(all)+evaluate / get_serialization_data->ExpressionScalar / '
        'numpy arrays of dyadic sample times, with argument types changing between calls (cached lambda reuse). Further '
        'kinds: partial substitution (numbers, variables, swaps, terms mentioning a Sum index, one mapping binding X to a '
        'number and other names to terms mentioning X) then evaluation, for ExpressionScalar and ExpressionVector; every '
        'scalar in_scope / numeric / exact call additionally runs the typed model (mode, value, type class) on the formula read '
        'back from sympy; operators '
        'between ExpressionScalar and numbers of every type, both operand orders; tri-state comparisons with sample '
        'assignments; ExpressionVector (evaluate, serialise, index); malformed stream (missing variable, division by '
        'zero, index out of range). Deterministic families (c12_det.py, the same for every seed): negative non-integral '
        'float scalars through floor/ceiling/// on every path against the array path; comparisons between equal values in '
        'different writing incl. reflected forms; fixed argument-type sequences on one object; parameters named like numpy '
        '/ generated-code / internal names; names the formula language reserves; 2-D vectors; Len/Broadcast. '
        'Round 4: SESSIONS (several Expression objects and the steps made on them in one process, starting with emptied '
        'module-level memos): equal-valued numbers of different types (float / numpy.float64 against numpy.int64 / '
        'TimeType / Fraction / int) substituted through evaluate_symbolic in either order, across objects, in one mapping, '
        'with the other access paths in between (det:xobj + random stream); MAGNITUDES: floor / ceiling / // on doubles '
        'around 2**53 and 2**63 and tiny ones, scalar paths against arrays that fit / do not fit int64, big Python ints '
        '(det:magn + random stream; exact criterion "every intermediate value is a double"); access paths found by the '
        'coverage audit: pickle, repr, copy constructor, Expression.make, nested in sympy, sympy numbers as values, '
        'arrays substituted symbolically (det:api, lenbc). '
        'Round 6: a NAME that is free and the bound index of a Sum in one formula (also two Sums, nested with the same '
        'index, free in the limit of another Sum), substituted by numbers / variables / terms / swaps / completely '
        '(det:bound + stream rnd:bound); CHAINS of 2-4 evaluate_symbolic steps on the results (a step may re-introduce a '
        'name an earlier step removed), every step capture free (det:chain + stream rnd:chain). '
        'Non-trivial = formula with >= 3 nodes; distinct = distinct canonical JSON.')
TRUSTED = [
    'Coq 8.16.1 kernel + vm_compute (no native_compute)',
    'sympy (parser, printer, auto-simplification, lambdify), numpy, gmpy2: they ARE the implementation under comparison; '
    'nothing is assumed about them beyond what the generated cases exercise',
    'harness: generators, sympy-syntax and Gallina printers of the formula AST, exact float->rational conversion, '
    'error-kind mapping; the sympy->AST reader (typed unit cases, tolerance flag, classifier); the Python reference '
    'evaluator only steers generation, fills the sin/cos/exp table and sets the inexact flag (it never decides a case)',
]
ASSUMPTIONS = [
    'summation limits and indices are built from int-typed variables only (range()/indexing reject floats by type, the '
    'model has no types)',
    'a summation limit does not mention the summation index (substituting such a name: known finding '
    'sum-limit-mentions-index)',
    'where the written formula divides by zero nothing is required (sympy may cancel the division)',
    'a float that meets a TimeType is read by its shortest decimal representation (TimeType.from_float, by design): '
    'exact-mode / TimeType calls with a float argument whose repr() is another number are inexact by nature',
    'float evaluations are required to be exact only when every intermediate value of the written formula is dyadic '
    '(magnitude families: is a double); '
    'otherwise (also when the formula sympy holds after re-association has an intermediate value no double represents) '
    'a relative tolerance 2^-30 applies and the call is counted under inexact_calls',
    'TimeType scalars are not mixed with numpy arrays and not used in ExpressionVector (explicitly rejected by type)',
]


# ---------------------------------------------------------------------------------------------------------------------
# generation

JUMPS = {'floor', 'ceil', 'floordiv', 'lt', 'le', 'gt', 'ge', 'eq', 'ne', 'min', 'max'}


def _types_of(scope):
    return {tv['ty'] for tv in scope.values()}


def _usable(e, scope, path):
    """drop calls whose float evaluation sits on a discontinuity with an inexact argument (nothing exact to compare)"""
    sc, vc, arr = X.split_scope(scope)
    if X.kinds(e) & JUMPS and _time_reads_float(e, scope, path):
        return False
    pts = [sc] if not arr else [dict(sc, **{x: l[j] for x, l in arr.items()}) for j in range(len(next(iter(arr.values()))))]
    for p in pts:
        a = X.analyse(e, p, vc)
        if a['fragile'] and not (path == 'exact' and _types_of(scope) <= {'int', 'time', 'arri'}
                                 and not _has_float_const(e)):
            return False
        if 'err' in a and a['err'] in ('big', 'fn'):
            return False
    return True


def _mk_calls(rng, e, profiles, paths_per=None):
    calls = []
    for prof in profiles:
        scope = X.g_scope(rng, e, prof)
        paths = paths_per or ['in_scope', 'numeric', 'exact', 'symfull', 'serial']
        for p in paths:
            if p == 'exact' and prof in ('float', 'numpy') and rng.random() < 0.5:
                continue
            if p == 'symfull' and X.fvv(e):
                continue
            if p == 'exact' and X.has_fn(e):
                continue
            if _usable(e, scope, p):
                calls.append({'path': p, 'scope': scope})
    return calls


def _arr_scope(rng, e, prof):
    scope = X.g_scope(rng, e, prof)
    n = rng.choice([1, 2, 3, 4, 6])
    cand = sorted(x for x in X.fv(e) if x in X.SCALARS or x == 't')
    if not cand:
        return None
    arrs = [x for x in cand if x == 't' or rng.random() < 0.3] or [rng.choice(cand)]
    for x in arrs:
        if x == 't':
            step = F(1, rng.choice([1, 2, 4, 8]))
            vals = [step * k for k in range(n)]
        else:
            vals = [F(rng.randint(-16, 20), rng.choice([1, 2, 4])) for _ in range(n)]
        if rng.random() < 0.15:
            scope[x] = {'ty': 'arri', 'v': [str(rng.randint(-4, 6)) for _ in range(n)]}
        else:
            scope[x] = {'ty': 'arrf', 'v': [str(v) for v in vals]}
    return scope


def gen_cases(rng, tier, ctx):
    mul = {'quick': 1, 'thorough': 8}[tier]
    cases = []
    # --- 1. all access paths on one object ---------------------------------------------------------------------------
    for k in range(230 * mul):
        cfg = {'fn': rng.random() < 0.12, 'nvars': rng.choice([2, 3, 4])}
        e = X.g_expr(rng, rng.choice([1, 2, 2, 3, 3, 4]), (), cfg)
        route = 'sym' if rng.random() < 0.25 else 'str'
        profs = [rng.choice(['int', 'float', 'time', 'mixed', 'numpy'])]
        if rng.random() < 0.5:
            profs.append(rng.choice(['int', 'time', 'mixed']))
        if cfg['fn']:     # numpy's sin/cos/exp reject TimeType by type
            profs = [rng.choice(['int', 'float', 'numpy'])]
        calls = _mk_calls(rng, e, profs)
        if calls:
            cases.append({'kind': 'eval', 'expr': e, 'route': route, 'calls': calls})
    # --- 2. call histories: the cached lambdas are reused with other argument types / arrays ------------------------
    for k in range(70 * mul):
        cfg = {'nvars': 3, 'time_var': rng.random() < 0.5, 'idx': rng.random() < 0.3, 'fn': False, 'ibc': False}
        e = X.g_expr(rng, rng.choice([2, 3, 3]), (), cfg)
        calls = []
        for step in range(rng.randint(3, 6)):
            kind = rng.choice(['int', 'array', 'time', 'float', 'exact', 'array', 'numpy', 'mixed'])
            if kind == 'array':
                sc = _arr_scope(rng, e, rng.choice(['float', 'int']))
                if sc is not None and _usable(e, sc, 'array'):
                    calls.append({'path': 'array', 'scope': sc})
            elif kind == 'exact':
                sc = X.g_scope(rng, e, rng.choice(['time', 'int']))
                if _usable(e, sc, 'exact'):
                    calls.append({'path': 'exact', 'scope': sc})
            else:
                sc = X.g_scope(rng, e, kind)
                p = rng.choice(['in_scope', 'numeric'])
                if _usable(e, sc, p):
                    calls.append({'path': p, 'scope': sc})
        if calls:
            cases.append({'kind': 'eval', 'expr': e, 'route': 'str', 'calls': calls, 'history': True})
    # --- 3. arrays of sample times -------------------------------------------------------------------------------------
    for k in range(110 * mul):
        cfg = {'nvars': 3, 'time_var': True, 'fn': rng.random() < 0.1, 'idx': rng.random() < 0.3, 'ibc': False}
        e = X.g_expr(rng, rng.choice([1, 2, 3, 3]), (), cfg)
        sc = _arr_scope(rng, e, rng.choice(['float', 'int', 'float']))
        if sc is not None and _usable(e, sc, 'array'):
            cases.append({'kind': 'eval', 'expr': e, 'route': 'str', 'calls': [{'path': 'array', 'scope': sc}]})
    # --- 4. partial substitution then evaluation ---------------------------------------------------------------------
    for k in range(170 * mul):
        cfg = {'nvars': 4, 'fn': False, 'idx': rng.random() < 0.2, 'sum': True}
        e = X.g_expr(rng, rng.choice([2, 3, 3, 4]), (), cfg)
        if rng.random() < 0.35:      # make sure sums are well represented here
            idx = rng.choice(X.INDICES)
            e = ['b', rng.choice(['add', 'mul', 'sub']), e,
                 ['sum', idx, ['c', '0', 'i'], rng.choice([['v', 'n'], ['c', '2', 'i']]),
                  X.g_expr(rng, 2, (idx,), cfg)]]
        vs = sorted(X.fv(e))
        if not vs:
            continue
        subs = {}
        style = rng.choice(['num', 'num', 'var', 'swap', 'expr', 'index', 'boundname', 'mixsame', 'mixsame'])
        chosen = [x for x in vs if rng.random() < 0.6] or [rng.choice(vs)]
        sortof = lambda x: 'i' if x in X.INTS + X.INDICES else 's'
        pairs = [(a, b) for a in vs for b in vs if a < b and sortof(a) == sortof(b)]
        if style == 'swap' and pairs:
            a, b = rng.choice(pairs)
            subs = {a: {'expr': ['v', b]}, b: {'expr': ['v', a]}}
        elif style == 'mixsame':     # ONE mapping: a number for X and, for other names, terms that mention X
            subs = _mixsame_subs(rng, vs)
        elif style == 'boundname':   # substituting a name that is (also) a summation index somewhere in the formula
            for i in X.INDICES:
                subs[i] = {'num': X.g_value(rng, 'int')}
            subs[rng.choice(vs)] = {'num': X.g_value(rng, 'int')}
        else:
            for x in chosen:
                if x in X.INTS + X.INDICES:
                    subs[x] = {'num': X.g_value(rng, 'int')} if style != 'index' else {'expr': ['v', rng.choice(X.INTS)]}
                elif style == 'num':
                    subs[x] = {'num': X.g_value(rng, rng.choice(['int', 'float', 'time']))}
                elif style == 'var':
                    subs[x] = {'expr': ['v', rng.choice(X.SCALARS)]}
                elif style == 'index':   # a term that mentions a name used as summation index: capture if under that Sum
                    subs[x] = {'expr': rng.choice([['v', rng.choice(X.INDICES)],
                                                   ['b', 'add', ['v', rng.choice(X.INDICES)], ['c', '1', 'i']]])}
                else:
                    subs[x] = {'expr': X.g_expr(rng, 1, (), {'nvars': 4, 'sum': False, 'idx': False, 'ite': False})}
        remaining = (X.fv(e) - set(subs)) | set().union(*[X.fv(s['expr']) for s in subs.values() if 'expr' in s] or [set()])
        prof = rng.choice(['int', 'float', 'time', 'mixed'])
        scope = X.g_scope(rng, e, prof, extra=remaining)
        scope = {x: v for x, v in scope.items() if x in remaining or x in X.fvv(e)}
        _separate(rng, subs, scope)
        cases.append({'kind': 'partial', 'expr': e, 'route': 'sym' if rng.random() < 0.2 else 'str', 'subs': subs,
                      'scope': scope, 'path': rng.choice(['in_scope', 'in_scope', 'exact'])})
    # --- 5. operators between expressions and numbers ----------------------------------------------------------------
    for k in range(170 * mul):
        cfg = {'nvars': 3, 'fn': False, 'idx': False}
        a = X.g_expr(rng, rng.choice([0, 1, 2, 2]), (), cfg)
        op = rng.choice(['add', 'sub', 'mul', 'div', 'floordiv', 'sub', 'div', 'floordiv', 'neg', 'pos'])
        if rng.random() < 0.7:
            b = {'num': X.g_value(rng, rng.choice(['int', 'float', 'time', 'frac', 'npint', 'npfloat']))}
            if op in ('div', 'floordiv') and rng.random() < 0.9 and F(b['num']['v']) == 0:
                b['num']['v'] = '2'
        else:
            b = {'expr': X.g_expr(rng, rng.choice([0, 1, 2]), (), cfg)}
        both = ['b', 'add', a, b['expr']] if 'expr' in b else a
        scope = X.g_scope(rng, both, rng.choice(['int', 'float', 'time', 'mixed']))
        cases.append({'kind': 'build', 'op': op, 'a': a, 'b': b, 'swap': rng.random() < 0.5, 'scope': scope,
                      'path': rng.choice(['in_scope', 'in_scope', 'exact'])})
    # --- 6. comparisons ------------------------------------------------------------------------------------------------
    for k in range(130 * mul):
        style = rng.random()
        cfgc = {'nvars': 0, 'sum': False, 'idx': False, 'ibc': False, 'ite': False, 'fn': False}
        cfgo = {'nvars': 2, 'sum': False, 'idx': False, 'ibc': False, 'ite': False, 'fn': False}
        if style < 0.4:      # closed formulas: must be decided
            a = _closed(rng, cfgc)
            b = _closed(rng, cfgc) if rng.random() < 0.7 else a
        elif style < 0.7:    # shapes sympy can sometimes decide
            x = ['v', rng.choice(['a', 'b'])]
            a = rng.choice([['u', 'abs', x], ['u', 'pow:2', x], ['b', 'add', ['u', 'pow:2', x], ['c', '1', 'i']],
                            ['b', 'max', x, ['c', '2', 'i']], ['b', 'min', x, ['c', '2', 'i']], x,
                            ['b', 'mul', x, ['c', '0', 'i']], ['u', 'neg', ['u', 'abs', x]],
                            ['b', 'sub', ['u', 'floor', x], x], ['b', 'sub', ['u', 'ceil', x], x]])
            b = rng.choice([['c', '0', 'i'], ['c', '1', 'i'], ['c', '-1', 'i'], ['c', '2', 'i'], x,
                            ['b', 'add', x, ['c', '1', 'i']], ['c', '5/2', 'f']])
        else:
            a, b = X.g_expr(rng, 2, (), cfgo), X.g_expr(rng, 1, (), cfgo)
        rhs_num = a is not b and b[0] == 'c' and rng.random() < 0.5
        samples = []
        for _ in range(8):
            samples.append({x: str(F(rng.randint(-12, 12), rng.choice([1, 1, 2, 4]))) for x in sorted(X.fv(a) | X.fv(b))})
        samples.append({x: '0' for x in sorted(X.fv(a) | X.fv(b))})
        if rng.random() < 0.5:
            a, b = b, a
            rhs_num = False
        cases.append({'kind': 'cmp', 'op': rng.choice(['lt', 'le', 'gt', 'ge']), 'a': a, 'b': b, 'rhs_num': rhs_num,
                      'samples': samples})
    # --- 7. vectors ------------------------------------------------------------------------------------------------------
    for k in range(80 * mul):
        cfg = {'nvars': 3, 'fn': False, 'idx': False}
        es = [X.g_expr(rng, rng.choice([0, 1, 2, 3]), (), cfg) for _ in range(rng.randint(1, 4))]
        allv = ['b', 'add', es[0], es[0]]
        for e in es[1:]:
            allv = ['b', 'add', allv, e]
        scope = X.g_scope(rng, allv, rng.choice(['int', 'float', 'numpy']))
        if all(_usable(e, scope, 'in_scope') for e in es):
            cases.append({'kind': 'vec', 'exprs': es, 'scope': scope,
                          'path': rng.choice(['in_scope', 'serial', 'item', 'symfull', 'numeric'])})
    # --- 7a. vectors: partial substitution then evaluation ------------------------------------------------------------
    for k in range(40 * mul):
        cfg = {'nvars': 4, 'fn': False, 'idx': False, 'ibc': False}
        es = [X.g_expr(rng, rng.choice([1, 2, 2, 3]), (), cfg) for _ in range(rng.randint(1, 3))]
        vs = sorted(set().union(*[X.fv(e) for e in es]))
        if not vs:
            continue
        style = rng.choice(['mixsame', 'mixsame', 'num', 'var', 'swap'])
        pairs = [(a, b) for a in vs for b in vs if a < b and (a in X.SCALARS) == (b in X.SCALARS)]
        if style == 'mixsame':
            subs = _mixsame_subs(rng, vs, num_types=('int', 'float'))
        elif style == 'swap' and pairs:
            a, b = rng.choice(pairs)
            subs = {a: {'expr': ['v', b]}, b: {'expr': ['v', a]}}
        else:
            subs = {}
            for x in [x for x in vs if rng.random() < 0.6] or [rng.choice(vs)]:
                if x in X.INTS + X.INDICES:
                    subs[x] = {'num': X.g_value(rng, 'int')}
                elif style == 'var':
                    subs[x] = {'expr': ['v', rng.choice(X.SCALARS)]}
                else:
                    subs[x] = {'num': X.g_value(rng, rng.choice(['int', 'float']))}
        terms = [sub['expr'] for sub in subs.values() if 'expr' in sub]
        remaining = (set(vs) - set(subs)) | set().union(*[X.fv(t) for t in terms] or [set()])
        scope = X.g_scope(rng, ['c', '0', 'i'], rng.choice(['int', 'float', 'numpy']), extra=remaining)
        _separate(rng, subs, scope)
        case = {'kind': 'vecpartial', 'exprs': es, 'subs': subs, 'scope': scope}
        if all(_usable(se, scope, 'in_scope') for se in _vecpartial_view(case)):
            cases.append(case)
    # --- 7b. closed formulas and plain numbers (serialised as numbers, not strings) ---------------------------------
    for k in range(50 * mul):
        cfgc = {'nvars': 0, 'sum': rng.random() < 0.3, 'idx': False, 'ibc': False, 'ite': rng.random() < 0.2, 'fn': False}
        if rng.random() < 0.5:
            q = rng.choice([F(rng.randint(-9, 9)), F(rng.randint(-40, 40), rng.choice([2, 4, 8]))])
            e = ['c', str(q), rng.choice(['f', 'f', 'r', 'i']) if q.denominator == 1 else rng.choice(['f', 'r'])]
            if e[2] == 'i' and q.denominator != 1:
                e[2] = 'r'
        else:
            e = X.g_expr(rng, rng.choice([1, 2]), (), cfgc)
        calls = [{'path': p, 'scope': {}} for p in ['serial', 'in_scope', 'exact', 'serial'] if _usable(e, {}, p)]
        if calls:
            cases.append({'kind': 'eval', 'expr': e, 'route': rng.choice(['str', 'str', 'sym']), 'calls': calls})
    # --- 8. malformed stream ------------------------------------------------------------------------------------------
    for k in range(60 * mul):
        cfg = {'nvars': 3, 'fn': False}
        e = X.g_expr(rng, rng.choice([1, 2, 3]), (), cfg)
        scope = X.g_scope(rng, e, rng.choice(['int', 'float', 'time']))
        what = rng.choice(['missing', 'zero', 'index', 'frac'])
        if what == 'missing' and scope:
            del scope[rng.choice(sorted(scope))]
        elif what == 'zero':
            for x in scope:
                if scope[x]['ty'] in ('int', 'float', 'time') and rng.random() < 0.7:
                    scope[x] = dict(scope[x], v='0')
        elif what == 'index':
            e = ['b', 'add', e, ['idx', 'v', ['v', 'n']]]
            scope = X.g_scope(rng, e, 'int')
            scope['n'] = {'ty': 'int', 'v': str(rng.choice([len(scope['v']['v']), -len(scope['v']['v']) - 1, 7,
                                                            -len(scope['v']['v']), len(scope['v']['v']) - 1]))}
        else:
            scope = X.g_scope(rng, e, 'frac')
        calls = [{'path': p, 'scope': scope} for p in ['in_scope', 'exact'] if _usable(e, scope, p)]
        if calls:
            cases.append({'kind': 'eval', 'expr': e, 'route': 'str', 'calls': calls, 'malformed': what})
    rnd = [c for c in cases if not _fragile_case(c)]
    out = _det_cases(tier) + rnd + _session_stream(rng, 30 * mul) + _magn_stream(rng, 30 * mul)
    # drawn last from its own generator: the streams above are the same as before round 6
    rng2 = random.Random(rng.getrandbits(64))
    return out + _bound_stream(rng2, 40 * mul) + _chain_stream(rng2, 50 * mul)


def _chain_stream(rng, n):
    """round 6, random: chains of 2-4 evaluate_symbolic steps on the results (numbers, variables that a later step
    replaces again, terms, a step that re-introduces a name an earlier step removed, index names free and bound), every
    step capture free; the value must be the value of the written formula in the scope the steps denote
    (theorem C12_subst_chain)"""
    out = []
    for _ in range(n * 3):
        if len(out) >= n:
            break
        cfg = {'nvars': 4, 'fn': False, 'idx': rng.random() < 0.15, 'sum': True, 'ibc': False}
        e = X.g_expr(rng, rng.choice([2, 3, 3]), (), cfg)
        if rng.random() < 0.4:
            idx = rng.choice(X.INDICES)
            e = ['b', rng.choice(['add', 'mul', 'sub']), ['b', 'add', e, ['v', idx]] if rng.random() < 0.5 else e,
                 ['sum', idx, ['c', '0', 'i'], rng.choice([['v', 'n'], ['c', '2', 'i']]), X.g_expr(rng, 2, (idx,), cfg)]]
        steps, cur = [], e
        for j in range(rng.randint(2, 4)):
            vs = sorted(X.fv(cur))
            if not vs:
                break
            st = {}
            for x in [x for x in vs if rng.random() < 0.5] or [rng.choice(vs)]:
                ints = x in X.INTS + X.INDICES
                r = rng.random()
                if r < 0.4:
                    st[x] = {'num': X.g_value(rng, 'int' if ints else rng.choice(['int', 'float', 'time']))}
                elif r < 0.75:   # another variable (maybe one an earlier step removed, maybe one a later step replaces)
                    st[x] = {'expr': ['v', rng.choice(X.INTS if ints else X.SCALARS)]}
                elif ints:
                    st[x] = {'expr': ['b', 'add', ['v', rng.choice(X.INTS)], ['c', '1', 'i']]}
                else:
                    st[x] = {'expr': X.g_expr(rng, 1, (), {'nvars': 4, 'sum': False, 'idx': False, 'ite': False, 'ibc': False})}
            steps.append(st)
            cur = X.subst(_step_ast(st), cur)
        if len(steps) < 2:
            continue
        prof = rng.choice(['int', 'float', 'time', 'mixed'])
        scope = X.g_scope(rng, cur, prof)
        case = {'kind': 'chain', 'expr': e, 'route': 'sym' if rng.random() < 0.2 else 'str', 'steps': steps,
                'scope': scope, 'path': rng.choice(['in_scope', 'in_scope', 'exact']), 'family': 'rnd:chain'}
        if _chain_capture_free(case) and not _fragile_case(case):
            out.append(case)
    return out


def _bound_stream(rng, n):
    """round 6 (seed C12-9), random: formulas in which the index name of a Sum ALSO occurs free (outside the Sum, in
    the limit of another Sum, next to a second Sum with the same index), substituted by a number / an int variable / a
    term / swapped, alone or together with other names"""
    out = []
    for _ in range(n):
        cfg = {'nvars': 3, 'fn': False, 'idx': rng.random() < 0.2, 'sum': False, 'ibc': False}
        idx = rng.choice(X.INDICES)
        body = X.g_expr(rng, rng.choice([1, 2, 2]), (idx,), cfg)
        sm = ['sum', idx, ['c', str(rng.choice([0, 0, 1, -1])), 'i'], rng.choice([['v', 'n'], ['c', '2', 'i'], ['c', '3', 'i']]), body]
        outer = ['b', rng.choice(['add', 'mul', 'sub']), X.g_expr(rng, rng.choice([0, 1]), (), cfg), ['v', idx]]
        r = rng.random()
        if r < 0.2:         # a second Sum with the same index
            outer = ['b', 'add', outer, ['sum', idx, ['c', '0', 'i'], ['c', '2', 'i'], X.g_expr(rng, 1, (idx,), cfg)]]
        elif r < 0.35:      # free in the limit of another Sum
            other = rng.choice([i for i in X.INDICES if i != idx])
            outer = ['b', 'add', outer, ['sum', other, ['c', '0', 'i'], ['v', idx], X.g_expr(rng, 1, (other,), cfg)]]
        e = ['b', rng.choice(['add', 'mul', 'sub']), outer, sm] if rng.random() < 0.5 else \
            ['b', rng.choice(['add', 'sub']), sm, outer]
        vs = sorted(X.fv(e))
        style = rng.choice(['num', 'num', 'var', 'term', 'swap', 'all'])
        subs = {}
        if style == 'num':
            subs[idx] = {'num': X.g_value(rng, rng.choice(['int', 'int', 'npint']))}
        elif style == 'var':
            subs[idx] = {'expr': ['v', rng.choice(X.INTS)]}
        elif style == 'term':
            subs[idx] = {'expr': ['b', rng.choice(['add', 'mul']), ['v', rng.choice(X.INTS)], ['c', str(rng.choice([1, 2])), 'i']]}
        elif style == 'swap':
            subs = {idx: {'expr': ['v', 'n']}, 'n': {'expr': ['v', idx]}}
        else:
            subs[idx] = {'num': X.g_value(rng, 'int')}
        for x in vs:
            if x != idx and x not in subs and (style == 'all' or rng.random() < 0.3):
                subs[x] = {'num': X.g_value(rng, 'int' if x in X.INTS + X.INDICES else rng.choice(['int', 'float', 'time']))}
        remaining = (X.fv(e) - set(subs)) | set().union(*[X.fv(t['expr']) for t in subs.values() if 'expr' in t] or [set()])
        scope = X.g_scope(rng, e, rng.choice(['int', 'float', 'time', 'mixed']), extra=remaining)
        scope = {x: t for x, t in scope.items() if x in remaining or x in X.fvv(e)}
        _separate(rng, subs, scope)
        case = {'kind': 'partial', 'expr': e, 'route': 'sym' if rng.random() < 0.2 else 'str', 'subs': subs,
                'scope': scope, 'path': rng.choice(['in_scope', 'in_scope', 'exact']), 'family': 'rnd:bound'}
        if not _fragile_case(case):
            out.append(case)
    return out


def _dbl(rng, big):
    """a random value that is exactly a double: small, or m * 2**k with k near / beyond 53 and 63, or tiny"""
    if not big:
        return F(rng.randint(-60, 60), rng.choice([1, 1, 1, 2, 4]))
    m = rng.choice([1, 1, 3, 5, 7, -1, -3, 2 ** 20 + 1])
    k = rng.choice([50, 52, 53, 54, 60, 61, 62, 63, 64, 70, 100, -55, -60, -70])
    return F(m) * F(2) ** k


def _session_stream(rng, n):
    """class (a), random: sessions over several objects in which numbers of EQUAL value and different types (float,
    numpy float, numpy int, TimeType, Fraction, int) are substituted in random order, alone or in one mapping, with
    evaluations through the other access paths in between"""
    forms = [D.THIRD, D.SQ1, D.HALFSUM, D.MIXFL, ['b', 'add', ['b', 'mul', ['v', 'b'], ['c', '2/7', 'r']], ['v', 'b']],
             ['b', 'sub', ['b', 'mul', ['v', 'b'], ['v', 'b']], ['b', 'div', ['v', 'b'], ['c', '5', 'i']]],
             ['b', 'mul', ['b', 'add', ['v', 'b'], ['c', '1', 'i']], ['b', 'sub', ['v', 'b'], ['c', '1', 'i']]]]
    out = []
    for _ in range(n):
        big = rng.random() < 0.4
        val = _dbl(rng, big)
        if val.denominator != 1:
            val = F(int(val))
        if abs(val) >= 2 ** 61:
            val = F(2) ** 60 + rng.choice([0, 1024, 2 ** 40])
        steps = []
        for j in range(rng.randint(2, 6)):
            ety = rng.choice(D.EXACT_TYS)
            fty = rng.choice(D.FLOAT_TYS)
            fl, ex = D.tv(fty, val), D.tv(ety, val)
            r = rng.random()
            obj = rng.choice(['o1', 'o2', 'o3', None])
            if r < 0.3:        # the float, where its digits beyond the 15th cannot matter
                steps.append(D._part(D.WARM, {'a': fl}, {'x': D.tv('int', -2 ** 62)}, 'in_scope', 'warm'))
            elif r < 0.75:     # the exact number where exactness shows
                e = rng.choice(forms)
                sc = {'x': D.tv('int', 3)} if 'x' in X.fv(e) else {}
                subs = {'b': ex}
                if 'a' in X.fv(e) or rng.random() < 0.4:
                    subs['a'] = fl
                steps.append(D._part(e, subs, sc, rng.choice(['exact', 'exact', 'in_scope']),
                                     None if obj is None else '%s:%d' % (obj, forms.index(e))))
            elif r < 0.85:     # at once, on an object that may have been used before
                e = rng.choice(forms[:3])
                steps.append(D._ev(e, [(rng.choice(['exact', 'in_scope']), {'b': D.tv('time', val)}),
                                       ('symfull', {'b': ex})], None if obj is None else '%s:%d' % (obj, forms.index(e))))
            else:              # the float through a compiled path of another object
                steps.append(D._ev(D.WARM, [(rng.choice(['in_scope', 'numeric', 'symfull']),
                                             {'a': fl, 'x': D.tv('int', -2 ** 62)})], 'warm'))
        steps = [st for st in steps if st['kind'] != 'partial' or not _fragile_case(st)]
        if steps:
            out.append({'kind': 'session', 'subs': steps, 'precise': True, 'family': 'rnd:xobj'})
    return out


def _magn_stream(rng, n):
    """class (b), random: floor / ceiling / // and neighbours on doubles m * 2**k around 2**53 and 2**63 and tiny ones,
    as scalars on every path and as arrays that mix entries which fit int64 with entries which do not"""
    out = []
    for _ in range(n):
        name, e = rng.choice(D.MAGN_FORMS)
        uses_t = 't' in X.fv(e)
        calls = []
        for j in range(rng.randint(2, 5)):
            t = rng.choice([F(1, 2), F(1), F(2), F(1, 4), F(-1)])
            if rng.random() < 0.5:
                sc = {'a': D.tv(rng.choice(['float', 'npfloat']), _dbl(rng, rng.random() < 0.8))}
                if uses_t:
                    sc['t'] = D.tv('float', t)
                calls.append({'path': rng.choice(['in_scope', 'numeric', 'exact', 'serial']), 'scope': sc})
            else:
                sc = {'a': {'ty': 'arrf', 'v': [str(_dbl(rng, rng.random() < 0.6)) for _ in range(rng.randint(1, 5))]}}
                if uses_t:
                    sc['t'] = D.tv('float', t)
                calls.append({'path': 'array', 'scope': sc})
        with X.precision(True):
            calls = [c for c in calls if _usable(e, c['scope'], c['path'])]
        if calls:
            out.append({'kind': 'eval', 'expr': e, 'route': 'str', 'calls': calls, 'history': True, 'precise': True,
                        'family': 'rnd:magn:' + name})
    return out


def _det_cases(tier):
    """the deterministic families of c12_det (same cases for every seed); calls that sit on a jump with an inexact
    argument are dropped by the same rule as in the random stream"""
    out = []
    for c in D.det_cases(tier, _usable):
        with X.precision(c.get('precise')):
            if c['kind'] == 'eval':
                c = dict(c, calls=[cl for cl in c['calls'] if _usable(c['expr'], cl['scope'], cl['path'])])
                if not c['calls']:
                    continue
            elif c['kind'] != 'session' and _fragile_case(c):
                continue
            if c['kind'] == 'chain' and not _chain_capture_free(c):
                continue
        out.append(c)
    return out


def _mixsame_subs(rng, vs, num_types=('int', 'float', 'time')):
    """a substitution that is only correct when performed SIMULTANEOUSLY: the mapping binds X to a number and other
    names Y to terms that mention X (so the substituted formula mentions X again: it must stay free).  X need not occur
    in the formula."""
    ints = [x for x in vs if x in X.INTS + X.INDICES]
    scal = [x for x in vs if x in X.SCALARS or x == 't']
    pool = scal if scal and (not ints or rng.random() < 0.8) else ints
    int_sorted = pool is ints
    ys = rng.sample(pool, rng.choice([1, 1, 2]) if len(pool) > 1 and not int_sorted else 1)
    names = X.INTS if int_sorted else X.SCALARS
    others = [x for x in names if x not in ys]
    inside = [x for x in others if x in vs]
    xname = rng.choice(inside) if inside and rng.random() < 0.7 else rng.choice(others)
    xv = ['v', xname]
    subs = {}
    for y in ys:
        shapes = [xv, ['b', 'add', xv, ['c', '1', 'i']], ['b', 'mul', ['c', '2', 'i'], xv], ['b', 'sub', ['v', y], xv],
                  ['u', 'neg', xv]]
        if not int_sorted:
            shapes += [['b', 'mul', xv, xv], ['b', 'add', xv, ['c', '1/2', 'f']],
                       ['b', 'sub', ['v', rng.choice(X.SCALARS)], xv]]
        subs[y] = {'expr': rng.choice(shapes)}
    subs[xname] = {'num': X.g_value(rng, 'int' if int_sorted else rng.choice(list(num_types)))}
    for x in vs:         # sometimes further plain numbers in the same mapping
        if x not in subs and rng.random() < 0.3:
            subs[x] = {'num': X.g_value(rng, 'int' if x in X.INTS + X.INDICES else rng.choice(list(num_types)))}
    return subs


def _separate(rng, subs, scope):
    """a name that is both substituted by a number and evaluated later gets two DIFFERENT values (a second
    substitution pass would otherwise be invisible)"""
    for x, sub in subs.items():
        if 'num' in sub and x in scope and scope[x]['ty'] not in ('arri', 'arrf'):
            while F(scope[x]['v']) == F(sub['num']['v']):
                scope[x] = dict(scope[x], v=str(F(scope[x]['v']) + rng.choice([1, 2, 3, -1])))


def _build_view(case):
    a, b = case['a'], _b_expr(case) if case['op'] not in ('neg', 'pos') else None
    if case['op'] == 'neg':
        whole = ['u', 'neg', a]
    elif case['op'] == 'pos':
        whole = a
    else:
        l, r = (b, a) if case['swap'] else (a, b)
        whole = ['b', case['op'], l, r]
        if 'num' in case['b'] and case['b']['num']['ty'] in ('float', 'npfloat'):
            whole = ['b', case['op']] + [['c', x[1], 'f'] if x is b and X.is_dyadic(x[1]) else x for x in (l, r)]
    untyped = case['op'] not in ('neg', 'pos') and 'num' in case['b'] and \
        case['b']['num']['ty'] in ('float', 'npfloat', 'frac', 'npint')
    exact = case['path'] == 'exact' and _types_of(case['scope']) <= {'int', 'time'} and not _has_float_const(whole) \
        and not untyped
    return whole, exact


def _fragile_case(case):
    try:
        if case['kind'] == 'partial':
            se, exact = _partial_view(case)
        elif case['kind'] == 'chain':
            se, exact = _partial_view(_chain_last(case))
        elif case['kind'] == 'build':
            se, exact = _build_view(case)
        else:
            return False
        sc, vc, _ = X.split_scope(case['scope'])
        a = X.analyse(se, sc, vc)
        return (a['fragile'] and not exact) or a.get('err') in ('big', 'fn')
    except Exception:
        return False


def _closed(rng, cfg):
    return X.g_expr(rng, rng.choice([0, 1, 2]), (), cfg)


# ---------------------------------------------------------------------------------------------------------------------
# running the implementation

def _py_value(tv):
    import numpy as np
    from qupulse.utils.types import TimeType
    ty = tv['ty']
    if ty == 'int':
        return int(tv['v'])
    if ty == 'float':
        return float(F(tv['v']))
    if ty == 'time':
        f = F(tv['v'])
        return TimeType.from_fraction(f.numerator, f.denominator)
    if ty == 'frac':
        return F(tv['v'])
    if ty == 'npint':
        return np.int64(int(tv['v']))
    if ty == 'npfloat':
        return np.float64(float(F(tv['v'])))
    if ty == 'npf32':
        return np.float32(float(F(tv['v'])))
    if ty == 'arri':
        return np.array([int(s) for s in tv['v']], dtype=np.int64)
    if ty == 'arrf':
        return np.array([float(F(s)) for s in tv['v']], dtype=float)
    raise ValueError(ty)


def _obs_value(r):
    import math
    import numpy as np
    if isinstance(r, np.ndarray):
        out = []
        for x in r.flat:
            o = _obs_value(x)
            if 'val' in o:
                out.append(o['val'])
            elif 'nan' in o:
                out.append(None)
            else:
                return {'err': 'other:array-of-%s' % type(x).__name__}
        return {'arr': out, 'ty': str(r.dtype), 'shape': list(r.shape)}
    if isinstance(r, (bool, np.bool_)):
        return {'val': str(int(r)), 'ty': 'bool'}
    if isinstance(r, (float, np.floating)):
        if not math.isfinite(r):
            return {'nan': True}
        return {'val': vlib.frac_json(float(r)), 'ty': type(r).__name__}
    if isinstance(r, (int, np.integer)):
        return {'val': str(int(r)), 'ty': type(r).__name__}
    if type(r).__name__ == 'TimeType':
        return {'val': vlib.frac_json(r), 'ty': 'TimeType'}
    if isinstance(r, complex):
        return {'err': 'other:complex'}
    return {'err': 'other:result-type-%s' % type(r).__name__}


def _guard(fn):
    from qupulse.expressions import ExpressionVariableMissingException, NonNumericEvaluation
    try:
        with vlib.time_limit(10):
            with warnings.catch_warnings():
                warnings.simplefilter('ignore')
                return _obs_value(fn())
    except vlib.Timeout:
        return {'hang': True}
    except ExpressionVariableMissingException:
        return {'err': 'unbound'}
    except ZeroDivisionError:
        return {'err': 'divzero'}
    except IndexError:
        return {'err': 'index'}
    except NonNumericEvaluation as e:
        r = e.non_numeric_result
        import numpy as np
        if isinstance(r, np.ndarray):
            tn = 'array:' + ','.join(sorted({type(x).__name__ for x in r.flat}))
        else:
            tn = type(r).__name__
            if tn in ('ComplexInfinity', 'NaN', 'Infinity', 'NegativeInfinity'):
                return {'err': 'divzero'}
        return {'err': 'nonnumeric:' + tn}
    except (MemoryError, RecursionError) as e:
        return {'crash': type(e).__name__}
    except Exception as e:
        return {'err': 'other:' + type(e).__name__}


def _readback_items(ev):
    out = []
    for item in getattr(ev, '_expression_items', []):
        try:
            out.append(X.from_sympy(item))
        except Exception:
            out.append(None)
    return out


def _readback(ex):
    """the implementation's own (auto-simplified) formula as AST, or None when it leaves the AST"""
    try:
        return X.from_sympy(ex.sympified_expression)
    except Exception:
        return None


def _run_reserved(case):
    """a name the formula language defines itself, used where a parameter could stand"""
    from qupulse.expressions import ExpressionScalar
    text = case['template'].format(n=case['name'])
    ex, bad = _construct(lambda: ExpressionScalar(text))
    if bad is not None:
        return bad if ('hang' in bad or 'crash' in bad) else {'construct_error': bad['err']}
    kw = {'t': 3, 'x': 5, case['name']: 7}
    out = {'vars': sorted(map(str, ex.variables)), 'vals': {}}
    for p, f in (('in_scope', lambda: ex.evaluate_in_scope(kw)), ('exact', lambda: ex.evaluate_with_exact_rationals(kw)),
                 ('symbolic', lambda: ex.evaluate_symbolic({'t': 3, 'x': 5}).evaluate_in_scope(kw))):
        try:
            with warnings.catch_warnings():
                warnings.simplefilter('ignore')
                r = f()
            out['vals'][p] = [float(complex(r).real), float(complex(r).imag)]
        except Exception as e:
            out['vals'][p] = 'err:' + type(e).__name__
    return out


def _run_lenbc(case):
    import numpy as np
    from qupulse.expressions import ExpressionScalar

    def val(x):
        if isinstance(x, list):
            return np.array([float(F(str(y))) if any(F(str(z)).denominator != 1 for z in x) else int(y) for y in x])
        q = F(str(x))
        return int(q) if q.denominator == 1 else float(q)
    kw = {x: val(y) for x, y in case['scope'].items()}

    def run():
        ex = ExpressionScalar(case['text'])
        p = case['path']
        if p == 'exact':
            return ex.evaluate_with_exact_rationals(kw)
        if p == 'numeric':
            return ex.evaluate_numeric(**kw)
        if p == 'serial':
            return ExpressionScalar(ex.get_serialization_data()).evaluate_in_scope(kw)
        if p == 'twice':
            ex.evaluate_in_scope(kw)
        if p == 'symarr':      # the array values first, symbolically (as arrays and as lists), the numbers later
            arrs = {x: val for x, val in kw.items() if isinstance(val, np.ndarray)}
            ex2 = ex.evaluate_symbolic(arrs)
            ex3 = ex.evaluate_symbolic({x: val.tolist() for x, val in arrs.items()})
            rest = {x: val for x, val in kw.items() if x not in arrs}
            r2, r3 = ex2.evaluate_in_scope(rest), ex3.evaluate_in_scope(rest)
            if not np.array_equal(np.asarray(r2, dtype=float), np.asarray(r3, dtype=float)):
                raise ValueError('arrays and lists substitute differently')
            return r2
        return ex.evaluate_in_scope(kw)
    return {'obs': _guard(run)}


def _lenbc_spec(case, obs):
    o = obs.get('obs', {})

    def flat(w):
        return [x for y in w for x in flat(y)] if isinstance(w, list) else [w]

    def shape(w):
        return [len(w)] + shape(w[0]) if isinstance(w, list) else []
    want = case['want']
    if isinstance(want, list):
        if 'arr' not in o or o.get('shape') != shape(want) or [F(x) for x in o['arr']] != [F(x) for x in flat(want)]:
            return '%s in %r: observed %r, the formula denotes %r' % (case['text'], case['scope'], o, want)
    elif 'val' not in o or F(o['val']) != F(want):
        return '%s in %r: observed %r, the formula denotes %s' % (case['text'], case['scope'], o, want)
    return None


def _reserved_spec(case, obs):
    """never a silently wrong value: either the name is a variable of the expression (then its value is used), or it
    is the documented constant (and not a variable), or the expression is refused at construction"""
    if 'construct_error' in obs:
        return None if case['role'] == 'reject' else 'the formula %r is refused although %s is a %s' % (
            case['template'].format(n=case['name']), case['name'], case['role'])
    if 'vals' not in obs:
        return None
    nm, role = case['name'], case['role']
    others = sorted(x for x in ('t', 'x') if x in case['template'])
    if nm in obs['vars']:
        n, want_vars = 7, sorted(others + [nm])
    elif role == 'const':
        n, want_vars = float(case['value']), others
    elif role == 'complex':
        n, want_vars = 1j, others
    else:
        return 'the name %s is neither a variable nor a documented constant' % nm
    if obs['vars'] != want_vars:
        return 'variables %r, expected %r' % (obs['vars'], want_vars)
    t, x = 3, 5
    try:
        want = {'{n}*t': lambda: n * t, 't + {n}*x': lambda: t + n * x, 'Max({n}*t, x)': lambda: max(n * t, x)}[case['template']]()
    except TypeError:
        return None
    want = complex(want)
    for p, val in obs['vals'].items():
        if isinstance(val, str):
            return 'evaluation (%s) of %r raises %s' % (p, case['template'].format(n=nm), val)
        if abs(complex(val[0], val[1]) - want) > 1e-12 * max(1.0, abs(want)):
            return 'evaluation (%s) of %r gives %r, the formula denotes %r' % (p, case['template'].format(n=nm), val, want)
    return None


def _make(e, route):
    from qupulse.expressions import ExpressionScalar
    if route == 'sym':
        return ExpressionScalar(X.to_sympy(e))
    return ExpressionScalar(X.to_str(e))


def _construct(fn):
    try:
        with vlib.time_limit(10):
            with warnings.catch_warnings():
                warnings.simplefilter('ignore')
                return fn(), None
    except vlib.Timeout:
        return None, {'hang': True}
    except (MemoryError, RecursionError) as e:
        return None, {'crash': type(e).__name__}
    except Exception as e:
        return None, {'err': 'other:construct:' + type(e).__name__}


def _call(ex, path, scope):
    from qupulse.expressions import ExpressionScalar
    kw = {X.rn(x): _py_value(tv) for x, tv in scope.items()}
    if path in ('in_scope', 'array'):
        return _guard(lambda: ex.evaluate_in_scope(kw))
    if path == 'numeric':
        return _guard(lambda: ex.evaluate_numeric(**kw))
    if path == 'exact':
        return _guard(lambda: ex.evaluate_with_exact_rationals(kw))
    if path == 'symfull':
        return _guard(lambda: ex.evaluate_symbolic(kw).evaluate_in_scope({}))
    if path == 'serial':
        return _guard(lambda: ExpressionScalar(ex.get_serialization_data()).evaluate_in_scope(kw))
    # round 4 (coverage audit): the other ways an expression is copied / stored / rebuilt, and sympy numbers as values
    if path == 'pickle':
        import pickle
        return _guard(lambda: pickle.loads(pickle.dumps(ex)).evaluate_in_scope(kw))
    if path == 'repr':
        return _guard(lambda: eval(repr(ex), {'ExpressionScalar': ExpressionScalar}).evaluate_in_scope(kw))
    if path == 'copy':
        import copy
        return _guard(lambda: copy.deepcopy(ExpressionScalar(ex)).evaluate_in_scope(kw))
    if path == 'make':
        from qupulse.expressions import Expression

        def run():
            e2 = Expression.make({'expression': ex.get_serialization_data()})
            e3 = Expression(Expression.make(e2))
            if not isinstance(e3, ExpressionScalar) or hash(e3) != hash(ex) or e3 != ex:
                raise TypeError('Expression.make changed the expression')
            return e3.evaluate_in_scope(kw)
        return _guard(run)
    if path == 'symscope':
        import sympy

        def conv(x):
            if isinstance(x, (bool,)) or type(x).__name__ in ('TimeType', 'ndarray'):
                return x
            if isinstance(x, int) or type(x).__name__ == 'int64':
                return sympy.Integer(int(x))
            return sympy.Float(float(x))
        return _guard(lambda: ex.evaluate_in_scope({x: conv(val) for x, val in kw.items()}))
    if path == 'nested':     # the expression used as a sympy object inside another one
        import sympy
        return _guard(lambda: ExpressionScalar(sympy.sympify(ex) + 0).evaluate_in_scope(kw))
    raise ValueError(path)


def run_impl(case):
    with warnings.catch_warnings():
        warnings.simplefilter('ignore')
        import qupulse.expressions  # noqa: F401  (first import warns about scipy)
    with X.renaming(case.get('rename')):
        return _run_impl(case)


def _fresh_process_state():
    """a session starts like a fresh process: every module-level memo of the expression modules is emptied (whatever
    their names are), so that the ORDER of the session's own steps decides what the process-global caches hold"""
    import importlib
    for mn in ('qupulse.utils.sympy', 'qupulse.expressions.sympy', 'qupulse.expressions', 'qupulse.utils.types'):
        try:
            m = importlib.import_module(mn)
        except Exception:
            continue
        for nm in dir(m):
            f = getattr(m, nm, None)
            if callable(getattr(f, 'cache_clear', None)):
                try:
                    f.cache_clear()
                except Exception:
                    pass


def _run_impl(case, objs=None):
    from qupulse.expressions import ExpressionScalar, ExpressionVector, Expression
    k = case['kind']
    if k == 'session':
        # several Expression objects and call histories on them in ONE process, in the listed order
        _fresh_process_state()
        shared = {}
        return {'subs': [_run_impl(sub, shared) for sub in case['subs']]}

    def obtain(mk):
        """the object of this (sub-)case: inside a session a step may name an object created by an earlier step"""
        key = case.get('obj')
        if objs is not None and key is not None and key in objs:
            return objs[key], None
        ex, bad = _construct(mk)
        if bad is None and objs is not None and key is not None:
            objs[key] = ex
        return ex, bad
    if k == 'reserved':
        return _run_reserved(case)
    if k == 'lenbc':
        return _run_lenbc(case)
    if k == 'eval':
        ex, bad = obtain(lambda: _make(case['expr'], case['route']))
        if bad is not None:
            return bad if ('hang' in bad or 'crash' in bad) else {'vars': [], 'obs': [bad for _ in case['calls']]}
        out = {'vars': sorted(X.unrn(str(v)) for v in ex.variables), 'obs': [], 'impl_expr': _readback(ex)}
        for c in case['calls']:
            out['obs'].append(_call(ex, c['path'], c['scope']))
        if case['route'] == 'str':     # parsing the printed form back gives an equal object
            out['serial_equal'] = _guard(lambda: ExpressionScalar(ex.get_serialization_data()) == ex)
        return out
    if k == 'partial':
        ex, bad = obtain(lambda: _make(case['expr'], case['route']))
        if bad is not None:
            return bad if ('hang' in bad or 'crash' in bad) else {'obs': bad}
        subs = {}
        for x, s in case['subs'].items():
            subs[x] = _py_value(s['num']) if 'num' in s else X.to_str(s['expr'])
        kw = {x: _py_value(tv) for x, tv in case['scope'].items()}

        rb = []

        def run():
            ex2 = ex.evaluate_symbolic(subs)
            rb.append(_readback(ex2))
            return ex2.evaluate_with_exact_rationals(kw) if case['path'] == 'exact' else ex2.evaluate_in_scope(kw)
        o = _guard(run)
        return {'obs': o, 'impl_expr': rb[0] if rb else None}
    if k == 'chain':
        ex, bad = obtain(lambda: _make(case['expr'], case['route']))
        if bad is not None:
            return bad if ('hang' in bad or 'crash' in bad) else {'obs': bad}
        kw = {x: _py_value(tv) for x, tv in case['scope'].items()}
        rb = []

        def run_chain():
            ex2 = ex
            for st in case['steps']:     # evaluate_symbolic on the result of evaluate_symbolic ...
                ex2 = ex2.evaluate_symbolic({x: (_py_value(t['num']) if 'num' in t else X.to_str(t['expr']))
                                             for x, t in st.items()})
            rb.append(_readback(ex2))
            return ex2.evaluate_with_exact_rationals(kw) if case['path'] == 'exact' else ex2.evaluate_in_scope(kw)
        o = _guard(run_chain)
        return {'obs': o, 'impl_expr': rb[0] if rb else None}
    if k == 'build':
        import operator
        ea, bad = _construct(lambda: ExpressionScalar(X.to_str(case['a'])))
        if bad is not None:
            return bad if ('hang' in bad or 'crash' in bad) else {'obs': bad}
        kw = {x: _py_value(tv) for x, tv in case['scope'].items()}
        op = case['op']
        a_vars, rb = [], []

        def run():
            if op == 'neg':
                r = -ea
            elif op == 'pos':
                r = +ea
            else:
                other = _py_value(case['b']['num']) if 'num' in case['b'] else ExpressionScalar(X.to_str(case['b']['expr']))
                f = {'add': operator.add, 'sub': operator.sub, 'mul': operator.mul, 'div': operator.truediv,
                     'floordiv': operator.floordiv}[op]
                r = f(other, ea) if case['swap'] else f(ea, other)
            if not isinstance(r, ExpressionScalar):
                # TimeType <op> closed expression: the TimeType operator converts the expression to a number and
                # returns a number -- accepted, its value is what is compared
                # (TimeType // TimeType is a gmpy2 mpz: TimeType's own operator table, property C14)
                if type(r).__name__ in ('TimeType', 'mpz') and not ea.variables and 'num' in case['b'] \
                        and case['b']['num']['ty'] == 'time' and case['swap']:
                    a_vars.extend(ea.variables)
                    return int(r) if type(r).__name__ == 'mpz' else r
                raise TypeError('operator returned %s' % type(r).__name__)
            a_vars.extend(ea.variables)
            rb.append(_readback(r))
            return r.evaluate_with_exact_rationals(kw) if case['path'] == 'exact' else r.evaluate_in_scope(kw)
        o = _guard(run)
        return {'obs': o, 'a_closed': not a_vars, 'impl_expr': rb[0] if rb else None}
    if k == 'cmp':
        import operator
        f = {'lt': operator.lt, 'le': operator.le, 'gt': operator.gt, 'ge': operator.ge}[case['op']]

        def run():
            num = case.get('num') or {}
            a = ExpressionScalar(X.to_str(case['a']))
            if case.get('a_subs'):
                a = a.evaluate_symbolic({x: _py_value(tv) for x, tv in case['a_subs'].items()})
            if num.get('side') == 'a':       # the raw number on the LEFT: Python calls the reflected method
                a = _py_value(num)
            if case['rhs_num']:
                q = F(case['b'][1])
                b = int(q) if q.denominator == 1 else float(q)
            elif num.get('side') == 'b':
                b = _py_value(num)
            else:
                b = ExpressionScalar(X.to_str(case['b']))
            r = f(a, b)
            if r is None:
                return {'ret': None}
            if r is True or r is False:
                return {'ret': bool(r)}
            return {'err': 'other:cmp-returned-%s' % type(r).__name__}
        try:
            with vlib.time_limit(10):
                with warnings.catch_warnings():
                    warnings.simplefilter('ignore')
                    return run()
        except vlib.Timeout:
            return {'hang': True}
        except Exception as e:
            return {'err': 'other:' + type(e).__name__}
    if k == 'vec':
        kw = {x: _py_value(tv) for x, tv in case['scope'].items()}
        strs = [X.to_str(e) for e in case['exprs']]
        if case.get('shape'):        # 2-D ExpressionVector: nested lists, row-major
            nr, nc = case['shape']
            strs = [strs[i * nc:(i + 1) * nc] for i in range(nr)]
        p = case['path']

        rbs = []

        def run():
            import numpy as np
            ev = ExpressionVector(strs)
            rbs.extend(_readback_items(ev))
            if p == 'in_scope':
                return ev.evaluate_in_scope(kw)
            if p == 'numeric':
                return ev.evaluate_numeric(**kw)
            if p == 'serial':
                ev2 = Expression.make(ev.get_serialization_data())
                if not isinstance(ev2, ExpressionVector):    # (structural equality is not required: sympy re-normalises)
                    raise TypeError('round trip changed the kind of expression')
                return ev2.evaluate_in_scope(kw)
            if p == 'symfull':
                return ev.evaluate_symbolic(kw).evaluate_in_scope({})
            if p in ('pickle', 'repr'):
                import pickle
                ev2 = pickle.loads(pickle.dumps(ev)) if p == 'pickle' else \
                    eval(repr(ev), {'ExpressionVector': ExpressionVector})
                if not isinstance(ev2, ExpressionVector) or not (ev2 == ev) or hash(ev2) != hash(ev) or \
                        str(ev2) != str(ev):
                    raise TypeError('round trip changed the vector')
                return ev2.evaluate_in_scope(kw)
            if p == 'symscope':
                import sympy
                return ev.evaluate_in_scope({x: (sympy.Integer(int(val)) if isinstance(val, int) else
                                                 sympy.Float(float(val))) for x, val in kw.items()})
            if p == 'item':
                ev.evaluate_in_scope(kw)   # warm the per-item lambdas first
                if case.get('shape'):      # row i is an ExpressionVector again
                    rows = [ev[i] for i in range(len(strs))]
                    if not all(isinstance(r, ExpressionVector) for r in rows):
                        raise TypeError('row of a 2-D vector is not a vector')
                    return np.array([r.evaluate_in_scope(kw) for r in rows])
                return np.array([ev[i].evaluate_in_scope(kw) for i in range(len(strs))])
            raise ValueError(p)
        o = _guard(run)
        return {'obs': o, 'impl_exprs': rbs}
    if k == 'vecpartial':
        kw = {x: _py_value(tv) for x, tv in case['scope'].items()}
        strs = [X.to_str(e) for e in case['exprs']]
        subs = {x: (_py_value(sub['num']) if 'num' in sub else X.to_str(sub['expr'])) for x, sub in case['subs'].items()}

        def run():
            ev2 = ExpressionVector(strs).evaluate_symbolic(subs)
            if not isinstance(ev2, ExpressionVector):
                raise TypeError('evaluate_symbolic changed the kind of expression')
            rbs.extend(_readback_items(ev2))
            return ev2.evaluate_in_scope(kw)
        rbs = []
        o = _guard(run)
        return {'obs': o, 'impl_exprs': rbs}
    raise ValueError(k)


# ---------------------------------------------------------------------------------------------------------------------
# Gallina

def _g_obs(o):
    if 'val' in o:
        return '(OVal %s)' % X.gq(o['val'])
    if 'arr' in o:
        return '(OArr [%s])' % '; '.join('None' if v is None else '(Some %s)' % X.gq(v) for v in o['arr'])
    if 'nan' in o:
        return 'ONan'
    e = o['err']
    k = {'unbound': 'KUnbound', 'divzero': 'KDivZero', 'index': 'KIndex'}.get(e)
    if k is None:
        k = 'KNonNumeric' if e.startswith('nonnumeric') else 'KOther'
    return '(OErr %s)' % k


def _tol(e, scope, path, impl_e=None):
    """is this call inexact by nature?  (see ASSUMPTIONS)"""
    sc, vc, arr = X.split_scope(scope)
    if path == 'exact' and _types_of(scope) <= {'int', 'time', 'arri'} and not X.has_fn(e) and not _has_float_const(e):
        return False, []
    pts = [sc] if not arr else [dict(sc, **{x: l[j] for x, l in arr.items()}) for j in range(len(next(iter(arr.values()))))]
    tol, fnt = _time_reads_float(e, scope, path, impl_e), []
    for p in pts:
        a = X.analyse(e, p, vc)
        tol = tol or a['inexact'] or _impl_inexact(impl_e, p, vc)
        fnt += a['fnt']
    return tol, fnt


def _time_reads_float(e, scope, path, impl_e=None):
    """TimeType arithmetic reads a float operand by its shortest decimal representation (TimeType.from_float, by
    design): where a TimeType can meet a float (exact mode turns Rational constants into TimeType; TimeType arguments)
    and some float argument / literal is not the number its repr() shows (4.611686018427388e+18 is 2**62), the call is
    inexact by nature"""
    if path != 'exact' and 'time' not in _types_of(scope):
        return False
    vals = [F(t['v']) for t in scope.values() if t['ty'] in ('float', 'npfloat', 'npf32')]
    vals += [F(x) for t in scope.values() if t['ty'] == 'arrf' for x in t['v']]
    for f in (e, impl_e):
        if f is not None:
            vals += [F(s[1]) for s in X.subterms(f) if s[0] == 'c' and s[2] == 'f']
    return any(X.repr_differs(q) for q in vals)


def _impl_inexact(impl_e, sc, vc):
    """sympy re-associates products and folds constants (a*0.25/(-3/b) -> -0.0833333333333333*a*b): the float
    evaluation is also inexact by nature when the implementation's OWN formula has an intermediate value that no
    double represents"""
    if impl_e is None:
        return False
    try:
        return bool(X.analyse(impl_e, sc, vc)['inexact'])
    except Exception:
        return False


def _g_fnt(fnt):
    seen, out = set(), []
    for f, x, v in fnt:
        if (f, x) not in seen:
            seen.add((f, x))
            out.append('(%d%%N, %s, %s)' % (X.FNS[f], X.gq(x), X.gq(v)))
    return '[%s]' % '; '.join(out)


def _g_call(e, scope, path, o, impl_e=None):
    sc, vc, arr = X.split_scope(scope)
    tol, fnt = _tol(e, scope, path, impl_e)
    gsc = '[%s]' % '; '.join('(%d%%N, %s)' % (X.NID[x], X.gq(v)) for x, v in sorted(sc.items()))
    gvc = '[%s]' % '; '.join('(%d%%N, [%s])' % (X.NID[x], '; '.join(X.gq(v) for v in l)) for x, l in sorted(vc.items()))
    return '(mkCall %s %s %s %s %s)' % (gsc, gvc, _g_fnt(fnt), vlib.gbool(tol), _g_obs(o))


def _g_arr_case(e, scope, o, impl_e=None):
    sc, vc, arr = X.split_scope(scope)
    tol, fnt = _tol(e, scope, 'array', impl_e)
    n = len(next(iter(arr.values())))
    items = ['(%d%%N, VQ %s)' % (X.NID[x], X.gq(v)) for x, v in sorted(sc.items())]
    items += ['(%d%%N, VArr [%s])' % (X.NID[x], '; '.join(X.gq(v) for v in l)) for x, l in sorted(arr.items())]
    gvc = '[%s]' % '; '.join('(%d%%N, [%s])' % (X.NID[x], '; '.join(X.gq(v) for v in l)) for x, l in sorted(vc.items()))
    return '(CArr %s [%s] %s %s %d%%nat %s %s)' % (X.to_coq(e), '; '.join(items), gvc, _g_fnt(fnt), n, vlib.gbool(tol),
                                                   _g_obs(o))


def _typed_applicable(c, impl_e):
    """exact-mode call with exact inputs on a formula the typed model covers (no decimal literal, no sin/cos/exp)"""
    return c['path'] == 'exact' and impl_e is not None and _types_of(c['scope']) <= {'int', 'npint', 'time', 'arri'} \
        and not _has_float_const(impl_e) and not X.has_fn(impl_e)


TYPED_TYPES = {'int', 'npint', 'float', 'npfloat', 'npf32', 'time', 'arri', 'arrf'}
OBS_CLASS = {'int': 'TInt', 'int64': 'TInt', 'int32': 'TInt', 'bool': 'TInt', 'bool_': 'TInt', 'float': 'TFloat',
             'float64': 'TFloat', 'float32': 'TFloat', 'TimeType': 'TTime'}


def _typed_view(c, impl_e):
    """(exact mode?, formula with literals abstracted, typed scalar scope, typed bases) of a call the typed model
    covers: scalar scope of ints / floats / TimeType, numeric or exact lambda of THIS object, no sin/cos/exp"""
    if c['path'] not in ('in_scope', 'numeric', 'exact') or impl_e is None or X.has_fn(impl_e):
        return None
    if not _types_of(c['scope']) <= TYPED_TYPES or X.split_scope(c['scope'])[2]:
        return None
    tsc, tvc = X.typed_scope(c['scope'])
    ab = X.abstract_literals(impl_e, tsc)
    if ab is None:
        return None
    return c['path'] == 'exact', ab[0], ab[1], tvc


def _typed_claims(c, impl_e):
    """does the typed unit case of this call require the exact value (the typed model computes int / TimeType)?"""
    tvw = _typed_view(c, impl_e)
    if tvw is None:
        return False
    try:
        return X.typed_eval(tvw[1], tvw[2], tvw[3], exact=tvw[0])[1] in ('int', 'time')
    except Exception:
        return False


def _g_typed(e, c, o, impl_e):
    tv = _typed_view(c, impl_e)
    if tv is None:
        return None
    ex, te, tsc, tvc = tv
    sc, vc, _ = X.split_scope(c['scope'])
    tolf = bool(X.analyse(e, sc, vc)['inexact']) or _impl_inexact(impl_e, sc, vc) or \
        _time_reads_float(e, c['scope'], c['path'], impl_e)
    gty = {'int': 'TInt', 'time': 'TTime', 'float': 'TFloat'}
    gsc = '[%s]' % '; '.join('(%d%%N, (%s, %s))' % (X.NID[x], X.gq(v), gty[t]) for x, (v, t) in sorted(tsc.items()))
    gvc = '[%s]' % '; '.join('(%d%%N, ([%s], %s))' % (X.NID[x], '; '.join(X.gq(v) for v in l), gty[t])
                             for x, (l, t) in sorted(tvc.items()))
    oc = OBS_CLASS.get(o.get('ty')) if 'val' in o else None
    return '(CTyped %s %s %s %s %s %s %s)' % (vlib.gbool(ex), X.to_coq(te), gsc, gvc, vlib.gbool(tolf), _g_obs(o),
                                              '(Some %s)' % oc if oc else 'None')


def _bad(obs):
    return 'crash' in obs or 'hang' in obs


def _b_expr(case):
    b = case['b']
    if 'expr' in b:
        return b['expr']
    q = F(b['num']['v'])
    return ['c', str(q), 'r']


def to_coq(case, obs):
    with X.precision(case.get('precise')):
        return _to_coq(case, obs)


def _to_coq(case, obs):
    k = case['kind']
    if _bad(obs):
        return '[CCrash]'
    if k == 'session':
        # the denotation has no history: every step is judged on its own, whatever happened before in the process
        units = []
        for sub, o in zip(case['subs'], obs['subs']):
            with X.precision(sub.get('precise', case.get('precise'))):
                t = _to_coq(sub, o).strip()
            units.append(t[1:-1])
        return '[%s]' % '; '.join(u for u in units if u.strip())
    if k in ('reserved', 'lenbc'):     # judged by py_spec (outside the Coq formula language)
        return '[CEval (Const 0) [] []]'
    if k == 'eval':
        if any(_bad(o) for o in obs['obs']):
            return '[CCrash]'
        e = case['expr']
        units = []
        ivars = '[%s]' % '; '.join('%d%%N' % X.NID[v] for v in obs['vars'] if v in X.NID)
        for c, o in zip(case['calls'], obs['obs']):
            _, _, arr = X.split_scope(c['scope'])
            if o.get('err', '').startswith('nonnumeric') and 'Fraction' in o['err'] and 'frac' in _types_of(c['scope']):
                units.append('(CEval %s %s [])' % (X.to_coq(e), ivars))    # Fractions are rejected by type, explicitly
            elif o.get('err', '').startswith('nonnumeric') and c['path'] == 'symscope':
                # sympy numbers as argument values: the right value or an explicit refusal of the (sympy typed) result
                units.append('(CEval %s %s [])' % (X.to_coq(e), ivars))
            elif arr:
                units.append(_g_arr_case(e, c['scope'], o, obs.get('impl_expr')))
            else:
                units.append('(CEval %s %s [%s])' % (X.to_coq(e), ivars,
                                                     _g_call(e, c['scope'], c['path'], o, obs.get('impl_expr'))))
                t = _g_typed(e, c, o, obs.get('impl_expr'))
                if t is not None:
                    units.append(t)
        return '[%s]' % '; '.join(units)
    if _bad(obs.get('obs', {})):
        return '[CCrash]'
    if k == 'partial':
        e = case['expr']
        subs = []
        full = e
        for x, s in sorted(case['subs'].items()):
            t = s['expr'] if 'expr' in s else ['c', s['num']['v'], 'r']
            subs.append('(%d%%N, %s)' % (X.NID[x], X.to_coq(t)))
            full = ['b', 'add', full, t]
        # the inexact flag is computed on formula and substituted terms together
        return '[CPartial %s [%s] %s]' % (X.to_coq(e), '; '.join(subs),
                                          _g_call_partial(case, full, obs['obs'], obs.get('impl_expr')))
    if k == 'chain':
        last = _chain_last(case)
        full = last['expr']
        gss = []
        for st in case['steps']:
            gs = []
            for x, t in sorted(st.items()):
                t = t['expr'] if 'expr' in t else ['c', t['num']['v'], 'r']
                gs.append('(%d%%N, %s)' % (X.NID[x], X.to_coq(t)))
                full = ['b', 'add', full, t]
            gss.append('[%s]' % '; '.join(gs))
        return '[CChain %s [%s] %s]' % (X.to_coq(case['expr']), '; '.join(gss),
                                        _g_call_partial(last, full, obs['obs'], obs.get('impl_expr')))
    if k == 'build':
        a, b = case['a'], _b_expr(case)
        if case['op'] in ('neg', 'pos'):
            call = _g_call(a, case['scope'], case['path'], obs['obs'], obs.get('impl_expr'))
            if case['op'] == 'neg':
                return '[CNeg %s %s]' % (X.to_coq(a), call)
            return '[CEval %s [] [%s]]' % (X.to_coq(a), call)
        l, r = (b, a) if case['swap'] else (a, b)
        whole, exact = _build_view(case)
        # a float operand makes the formula a float formula (Fraction / numpy ints: not exact-typed either)
        call = _g_call(whole, case['scope'], 'exact' if exact else 'in_scope', obs['obs'], obs.get('impl_expr'))
        return '[CBuild %s %s %s %s]' % ({'add': 'OpAdd', 'sub': 'OpSub', 'mul': 'OpMul', 'div': 'OpDiv',
                                          'floordiv': 'OpFloorDiv'}[case['op']], X.to_coq(l), X.to_coq(r), call)
    if k == 'cmp':
        # an exception while comparing (e.g. a closed formula that divides by zero) is "not decided"
        impl = 'None' if obs.get('ret') is None else '(Some %s)' % vlib.gbool(obs['ret'])
        samples = '[%s]' % '; '.join('[%s]' % '; '.join('(%d%%N, %s)' % (X.NID[x], X.gq(v)) for x, v in sorted(s.items()))
                                     for s in case['samples'])
        ca = case['a']
        if case.get('a_subs'):
            ca = X.subst({x: ['c', tv['v'], 'r'] for x, tv in case['a_subs'].items()}, ca)
        return '[CCmp %s %s %s %s %s]' % ({'lt': 'OLt', 'le': 'OLe', 'gt': 'OGt', 'ge': 'OGe'}[case['op']],
                                          X.to_coq(ca), X.to_coq(case['b']), impl, samples)
    if k == 'vec' and case['path'] == 'symscope' and obs['obs'].get('err', '').startswith('nonnumeric'):
        return '[CEval (Const 0) [] []]'      # (as for scalars: refused by type, explicitly)
    if k == 'vec':
        es = case['exprs']
        allv = es[0]
        for e in es[1:]:
            allv = ['b', 'add', allv, e]
        sc, vc, _ = X.split_scope(case['scope'])
        tol = any(X.analyse(e, sc, vc)['inexact'] for e in es) or \
            any(_impl_inexact(ie, sc, vc) for ie in obs.get('impl_exprs') or [])
        gsc = '[%s]' % '; '.join('(%d%%N, %s)' % (X.NID[x], X.gq(v)) for x, v in sorted(sc.items()))
        call = '(mkCall %s [] [] %s %s)' % (gsc, vlib.gbool(tol), _g_obs(obs['obs']))
        return '[CVec [%s] %s]' % ('; '.join(X.to_coq(e) for e in es), call)
    if k == 'vecpartial':
        sc, vc, _ = X.split_scope(case['scope'])
        tol = any(X.analyse(se, sc, vc)['inexact'] for se in _vecpartial_view(case)) or \
            any(_impl_inexact(ie, sc, vc) for ie in obs.get('impl_exprs') or [])
        gsc = '[%s]' % '; '.join('(%d%%N, %s)' % (X.NID[x], X.gq(v)) for x, v in sorted(sc.items()))
        call = '(mkCall %s [] [] %s %s)' % (gsc, vlib.gbool(tol), _g_obs(obs['obs']))
        subs = ['(%d%%N, %s)' % (X.NID[x], X.to_coq(t)) for x, t in sorted(_subs_ast(case).items())]
        return '[CVecPartial [%s] [%s] %s]' % ('; '.join(X.to_coq(e) for e in case['exprs']), '; '.join(subs), call)
    raise ValueError(k)


def _vecpartial_view(case):
    return [X.subst(_subs_ast(case), e) for e in case['exprs']]


def _step_ast(st):
    return {x: (t['expr'] if 'expr' in t else _num_const(t['num'])) for x, t in st.items()}


def _chain_last(case):
    """a chain seen as one partial step: the formula after all steps but the last (the model's substitution applied to
    the WRITTEN inputs, numbers typed by their Python type) and the last step"""
    e = case['expr']
    for st in case['steps'][:-1]:
        e = X.subst(_step_ast(st), e)
    return {'kind': 'partial', 'expr': e, 'route': case['route'], 'subs': case['steps'][-1], 'scope': case['scope'],
            'path': case['path']}


def _chain_capture_free(case):
    e = case['expr']
    for st in case['steps']:
        if not X.capture_free(_step_ast(st), e):
            return False
        e = X.subst(_step_ast(st), e)
    return True


def _partial_view(case):
    """(substituted formula, exact?) of a partial case -- what the implementation finally evaluates"""
    se = X.subst(_subs_ast(case), case['expr'])
    sub_types = {s['num']['ty'] for s in case['subs'].values() if 'num' in s}
    # a number substituted symbolically is sympified: numpy integers and Fractions become Integer / Rational exactly
    # like int and TimeType do (round 4: the class "equal value, different exact type" of the substitution cache)
    exact = case['path'] == 'exact' and _types_of(case['scope']) <= {'int', 'time', 'arri'} and \
        sub_types <= {'int', 'time', 'npint', 'frac'} and not _has_float_const(se)
    return se, (exact or _typed_exact(case))


def _num_const(num):
    return ['c', num['v'], 'f' if num['ty'] in ('float', 'npfloat', 'npf32') else 'r']


def _typed_exact(case):
    """round 4: the WRITTEN formula with the substituted numbers typed by their Python type (int / numpy int -> Integer,
    TimeType / Fraction -> Rational, float -> Float), evaluated by the typed model in the mode of the call, has an exact
    type (int / TimeType): then the exact value is required, whatever its magnitude (2**60 + 1 is not a double) --
    unless the float evaluation sits on a jump with an inexact argument (floor(a/3 + b/3))"""
    try:
        if not _types_of(case['scope']) <= {'int', 'time', 'float', 'arri', 'arrf'}:
            return False          # numpy scalars in the scope: fixed width arithmetic
        sub_ast = {x: (s['expr'] if 'expr' in s else _num_const(s['num'])) for x, s in case['subs'].items()}
        se = X.subst(sub_ast, case['expr'])
        if X.has_fn(se):
            return False
        sc, vc, arr = X.split_scope(case['scope'])
        if arr:
            return False
        a = X.analyse(se, sc, vc)
        if a['fragile'] or 'value' not in a:
            return False
        tsc, tvc = X.typed_scope(case['scope'])
        return X.typed_eval(se, tsc, tvc, exact=case['path'] == 'exact')[1] in ('int', 'time')
    except Exception:
        return False


def _g_call_partial(case, full, o, impl_e=None):
    se, exact = _partial_view(case)
    sc, vc, _ = X.split_scope(case['scope'])
    a = X.analyse(se, sc, vc)
    tol = (not exact) and (a['inexact'] or _impl_inexact(impl_e, sc, vc))
    gsc = '[%s]' % '; '.join('(%d%%N, %s)' % (X.NID[x], X.gq(v)) for x, v in sorted(sc.items()))
    gvc = '[%s]' % '; '.join('(%d%%N, [%s])' % (X.NID[x], '; '.join(X.gq(v) for v in l)) for x, l in sorted(vc.items()))
    return '(mkCall %s %s [] %s %s)' % (gsc, gvc, vlib.gbool(tol), _g_obs(o))


def _has_float_const(e):
    return any(s[0] == 'c' and s[2] == 'f' for s in X.subterms(e))


# ---------------------------------------------------------------------------------------------------------------------
# bookkeeping

def _exprs_of(case):
    k = case['kind']
    if k in ('reserved', 'lenbc'):
        return []
    if k == 'session':
        return [e for sub in case['subs'] for e in _exprs_of(sub)]
    if k in ('eval', 'partial', 'chain'):
        return [case['expr']]
    if k == 'build':
        return [case['a']] + ([case['b']['expr']] if 'expr' in case['b'] else [])
    if k == 'cmp':
        return [case['a'], case['b']]
    return list(case['exprs'])


def nontrivial(case, obs):
    return sum(X.size(e) for e in _exprs_of(case)) >= 3


def histogram_keys(case, obs):
    with X.precision(case.get('precise')):
        return _histogram_keys(case, obs)


def _histogram_keys(case, obs):
    k = case['kind']
    keys = [k]
    if case.get('family'):
        keys.append('family:' + ':'.join(case['family'].split(':')[:2]))
    if k == 'session':
        keys.append('session:%d-steps:%d-objects' % (len(case['subs']), len({sub.get('obj', id(sub)) for sub in case['subs']})))
        for sub, o in zip(case['subs'], obs.get('subs', [])):
            keys += ['session:' + x for x in _histogram_keys(sub, o) if x.split(':')[0] in ('path', 'types', 'obs', 'partial', 'eval')]
            if sub['kind'] == 'partial':
                keys.append('session:subst-types:' + '+'.join(sorted({t['num']['ty'] for t in sub['subs'].values() if 'num' in t})))
        return keys
    if k == 'lenbc':
        return keys + ['lenbc:' + case['path'], 'obs:' + _okind(obs.get('obs', {}))]
    if k == 'reserved':
        return keys + ['reserved:%s:%s' % (case['role'], 'refused' if 'construct_error' in obs else 'built')]
    if k == 'cmp' and case.get('num'):
        keys.append('cmp:number-%s:%s' % ('left' if case['num']['side'] == 'a' else 'right', case['num']['ty']))
    if k == 'vec' and case.get('shape'):
        keys.append('vec:2d')
    for e in _exprs_of(case):
        keys += ['node:' + n for n in sorted(X.kinds(e))]
        keys.append('size:%s' % ('1-2' if X.size(e) < 3 else '3-7' if X.size(e) < 8 else '8-15' if X.size(e) < 16 else '16+'))
    if k == 'eval':
        keys.append('route:' + case['route'])
        if case.get('history'):
            keys.append('history:%d-calls' % len(case['calls']))
        if case.get('malformed'):
            keys.append('malformed:' + case['malformed'])
        for c, o in zip(case['calls'], obs.get('obs', [])):
            keys.append('path:' + c['path'])
            keys.append('types:' + '+'.join(sorted(_types_of(c['scope']))))
            keys.append('obs:' + _okind(o))
            if _typed_applicable(c, obs.get('impl_expr')):
                keys.append('typed_model_exact_calls')
                if _exact_mode_float(obs['impl_expr'], c['scope']):
                    keys.append('typed_model_predicts_float')
            tvw = _typed_view(c, obs.get('impl_expr'))
            if tvw is not None:
                keys.append('typed_calls:%s' % ('exact' if tvw[0] else 'numeric'))
                try:
                    keys.append('typed_predicts:%s' % X.typed_eval(tvw[1], tvw[2], tvw[3], exact=tvw[0])[1])
                except X.EvalError:
                    pass
            try:
                tol, _ = _tol(case['expr'], c['scope'], c['path'])
                keys.append('inexact_calls' if tol else 'exact_calls')
                if X.has_fn(case['expr']):
                    keys.append('transcendental_calls')
            except Exception:
                pass
    else:
        if 'path' in case:
            keys.append('%s:path:%s' % (k, case['path']))
        if k == 'build':
            keys.append('build:%s:%s:%s' % (case['op'], case['b']['num']['ty'] if 'num' in case['b'] else 'expr',
                                            'r' if case['swap'] else 'l'))
        if k == 'cmp':
            keys.append('cmp:%s' % (obs.get('ret', 'err'),))
        if k == 'partial':
            keys.append('partial:%s' % ('capture' if not X.capture_free(_subs_ast(case), case['expr']) else 'capture-free'))
        if k == 'chain':
            keys.append('chain:%d-steps:%s' % (len(case['steps']), 'capture-free' if _chain_capture_free(case) else 'capture'))
        if 'obs' in obs:
            keys.append('obs:' + _okind(obs['obs']))
    return keys


def _okind(o):
    if 'val' in o:
        return 'val:' + o.get('ty', '?')
    if 'arr' in o:
        return 'arr:' + o.get('ty', '?')
    if 'nan' in o:
        return 'nan'
    if 'err' in o:
        return 'err:' + o['err']
    return 'crash'


def _subs_ast(case):
    return {x: (s['expr'] if 'expr' in s else ['c', s['num']['v'], 'r']) for x, s in case['subs'].items()}


def _float_close(o, want):
    try:
        return 'val' in o and abs(F(o['val']) - want) <= F(1, 10 ** 9) * max(1, abs(want))
    except Exception:
        return False


def _fails(a, tol, o):
    """python mirror of Corr.agree, used only to find WHICH call of a rejected case to classify"""
    if 'value' in a:
        if 'val' not in o:
            return True
        d = abs(F(o['val']) - a['value'])
        return not (d == 0 or (tol and d <= F(1, 2 ** 30) * max(1, abs(a['value']))))
    if a['err'] == 'unbound':
        return o.get('err') != 'unbound'
    if a['err'] == 'divzero':
        return False
    if a['err'] == 'nan':
        return False      # round 5: Corr.agree requires nothing where no Piecewise branch matches (Err ENan => true); the
        #                   mirror used to call an exception there "failing", which then needed a finding to explain it
        #                   (thorough tier: TimeType * Piecewise-without-match raises ValueError, false alarm)
    return not ('err' in o or 'nan' in o)


def _exact_mode_float(e, scope, extra_types=()):
    """exact-int-div, the class: every input is an int / TimeType / Rational, yet the typed evaluation of the formula
    (Python arithmetic as the exact-rational lambda performs it, mirror of ModelT.evalT) ends in a float -- which can
    only come from a true division of two ints (or a negative power of an int)"""
    if not (_types_of(scope) | set(extra_types)) <= {'int', 'time', 'arri', 'npint'} or _has_float_const(e):
        return False
    try:
        tsc, tvc = X.typed_scope(scope)
        return X.typed_eval(e, tsc, tvc)[1] == 'float'
    except X.EvalError:
        return False


def _closed_floordiv(e):
    """sympy-number-floordiv, the class: the formula contains a floor division of two NUMBERS (closed operands) on which
    the pinned sympy's Number.__floordiv__ differs from floor(x / y) (asked of sympy itself: it does for a non-integer
    Rational divided by a number with a negative non-integer quotient)"""
    import math
    import sympy
    for s in X.subterms(e):
        if s[0] == 'b' and s[1] == 'floordiv' and not X.fv(s) and not X.fvv(s):
            try:
                x, y = X.py_eval(s[2], {}, {}), X.py_eval(s[3], {}, {})
                if y != 0 and int(sympy.Rational(x.numerator, x.denominator) //
                                  sympy.Rational(y.numerator, y.denominator)) != math.floor(x / y):
                    return True
            except Exception:
                pass
    return False


def _floordiv_as_sympy(e):
    """the formula with every closed floor division of two numbers replaced by what the pinned sympy's
    Number.__floordiv__ answers for it (round 5: the finding is accepted only when the observation IS that value)"""
    import sympy
    if not isinstance(e, list):
        return e
    if e[0] == 'b' and e[1] == 'floordiv' and not X.fv(e) and not X.fvv(e):
        try:
            x, y = X.py_eval(e[2], {}, {}), X.py_eval(e[3], {}, {})
            if y != 0:
                q = sympy.Rational(x.numerator, x.denominator) // sympy.Rational(y.numerator, y.denominator)
                return ['c', str(int(q)), 'i']
        except Exception:
            pass
    return [_floordiv_as_sympy(x) for x in e]


def _karr_value(e, sc, vc, o):
    """sum-reversed-limits, the observation: sympy, once the limits are numbers, DECIDES with the Karr convention
    (sum_{lo}^{hi} = -sum_{hi+1}^{lo-1} for hi < lo - 1: Max(1, Abs(Sum(-1, (i, 6, 3)))) loses the 1 because the Sum
    "is" 2) while the generated code sums an empty range to 0.  Set-valued evaluation: a Sum over an empty range is 0 or
    its Karr value; Min / Max / comparison / Piecewise over an undetermined operand may select either way.  The finding
    is accepted only for an observation that is one of these values (round 5; before: any value)."""
    import itertools
    CAP = 32

    def app(f, *sets):
        out = []
        for combo in itertools.islice(itertools.product(*sets), 600):
            try:
                v = f(*combo)
            except X.EvalError:
                continue
            if v not in out:
                out.append(v)
        return out[:CAP]

    def ev(e, sc):
        k = e[0]
        if k == 'c':
            return [F(e[1])]
        if k == 'nan':
            return []
        if k == 'v':
            return [sc[e[1]]] if e[1] in sc else []
        one = lambda sub: X.py_eval(sub, sc, vc)
        cst = lambda x: ['c', str(x), 'r']
        if k == 'ite':
            cs = ev(e[1], sc)
            out = []
            if any(c != 0 for c in cs):
                out += ev(e[2], sc)
            if any(c == 0 for c in cs):
                out += ev(e[3], sc)
            return out[:CAP]
        if k == 'sum':
            out = []
            for lo in ev(e[2], sc)[:2]:
                for hi in ev(e[3], sc)[:2]:
                    if lo.denominator != 1 or hi.denominator != 1 or abs(hi - lo) > 64:
                        continue
                    acc = [F(0)]
                    for kk in range(int(lo), int(hi) + 1):
                        acc = app(lambda x, y: x + y, acc, ev(e[4], {**sc, e[1]: F(kk)}))
                    out += acc
                    if hi < lo - 1:
                        acc = [F(0)]
                        for kk in range(int(hi) + 1, int(lo)):
                            acc = app(lambda x, y: x - y, acc, ev(e[4], {**sc, e[1]: F(kk)}))
                        out += acc
            return out[:CAP]
        if k == 'u':
            return app(lambda x: one(['u', e[1], cst(x)]), ev(e[2], sc))
        if k == 'b':
            xs, ys = ev(e[2], sc), ev(e[3], sc)
            if e[1] in ('min', 'max') and (len(xs) > 1 or len(ys) > 1):
                return (xs + ys)[:CAP]
            if e[1] in X.CMPS and (len(xs) > 1 or len(ys) > 1):
                return [F(0), F(1)]
            return app(lambda x, y: one(['b', e[1], cst(x), cst(y)]), xs, ys)
        if k == 'idx':
            return app(lambda x: one(['idx', e[1], cst(x)]), ev(e[2], sc))
        if k == 'ibc':
            return app(lambda x, y: one(['ibc', cst(x), e[2], cst(y)]), ev(e[1], sc), ev(e[3], sc))
        return []
    try:
        return any(not _fails({'value': v}, True, o) for v in ev(e, sc))
    except Exception:
        return False


def _sum_under_minmax(e):
    """the class of symbolic-minmax-sum: Min / Max has an argument that contains a Sum (sympy leaves the closed Sum
    unevaluated and cannot compare it)"""
    return any(s[0] == 'b' and s[1] in ('min', 'max') and any(t[0] == 'sum' for x in s[2:4] for t in X.subterms(x))
               for s in X.subterms(e))


def _time_possible(e):
    """can the exact-rational printer put a TimeType into the code of this (written, typed) formula?  It prints every
    non-integer Rational as TimeType: a non-integer constant, or a division / negative power sympy may fold into one"""
    for s in X.subterms(e):
        if s[0] == 'c' and F(s[1]).denominator != 1:
            return True
        if s[0] == 'b' and s[1] in ('div', 'floordiv'):
            return True
        if s[0] == 'u' and s[1].startswith('pow:') and int(s[1][4:]) < 0:
            return True
    return False


def _mixed_shape_junction(e, array_names):
    """array-and-mixed-shapes, the class: an And / Or joins an operand that depends on an array-valued variable with
    one that does not (numpy.logical_and.reduce over operands of different shape)"""
    for s in X.subterms(e):
        if s[0] == 'b' and s[1] in ('and', 'or'):
            l, r = bool(X.fv(s[2]) & array_names), bool(X.fv(s[3]) & array_names)
            if l != r:
                return True
    return False


def _code_uses_as_function(case):
    """does the code sympy generates for this formula -- written with the REAL parameter names, either printer -- use
    one of the renamed parameters as a function or module (`name(` / `name.`)?  A number is never used that way: the
    parameter shadows a global name of the generated code."""
    import inspect
    import re
    import sympy
    from qupulse.utils import sympy as qs
    from qupulse.utils.types import TimeType
    real = set((case.get('rename') or {}).values())
    e = case['expr']
    try:
        with X.renaming(case.get('rename')), warnings.catch_warnings():
            warnings.simplefilter('ignore')
            sx = X.to_sympy(e)
            args = sorted(X.rn(x) for x in X.fv(e) | X.fvv(e))
            srcs = [inspect.getsource(sympy.lambdify(args, sx, qs._lambdify_modules))]
            qs._lambdify_modules[0]['TimeType'] = TimeType
            pr = qs.HighPrecPrinter.make(sx, qs._lambdify_modules, use_imps=False)
            srcs.append(inspect.getsource(sympy.lambdify(args, sx, qs._lambdify_modules, printer=pr)))
    except Exception:
        return False
    body = '\n'.join(x.split('\n', 1)[1] if '\n' in x else x for x in srcs)      # without the def line
    return any(re.search(r'(?<![\w.])%s\s*[(.]' % re.escape(nm), body) for nm in real)


def _name_capture(case, c, o):
    """lambda-name-capture, the class: a variable is called like a global name the generated code uses (select, less,
    logical_and, builtins, range, mod, broadcast_to, TimeType ...), or `self` through evaluate_numeric(**kwargs); the
    compiled evaluation raises TypeError / AttributeError (the symbolic route does not compile: it is not affected)"""
    real = set((case.get('rename') or {}).values())
    if not real or o.get('err') not in ('other:TypeError', 'other:AttributeError') or c['path'] == 'symfull':
        return False
    return _code_uses_as_function(case) or ('self' in real and c['path'] == 'numeric')


NPKIND = {'int': 'py', 'time': 'py', 'frac': 'py', 'npint': 'np', 'arri': 'np', 'float': 'flt', 'npfloat': 'flt',
          'npf32': 'flt', 'arrf': 'flt'}


def _np_overflow(e, scope, impl_e=None):
    """numpy-int-overflow, the class (see X.np_int_overflow), on the written formula (with the substituted numbers typed
    by their Python type)"""
    impl_e = None
    sc, vc, arr = X.split_scope(scope)
    n = len(next(iter(arr.values()))) if arr else 1
    pts = []
    for j in range(n):
        p = {x: (q, NPKIND[scope[x]['ty']]) for x, q in sc.items()}
        p.update({x: (l[j], NPKIND[scope[x]['ty']]) for x, l in arr.items()})
        pts.append(p)
    vk = {x: (l, NPKIND[scope[x]['ty']]) for x, l in vc.items()}
    return any(f is not None and X.np_int_overflow(f, pts, vk, set(arr)) for f in (e, impl_e))


def _digits15(e, scope, path, symbolic):
    """float-15-digits, the class: a float INPUT with more than 15 significant decimal digits sits inside the formula
    that is compiled / printed: a float literal of the written formula (e carries the symbolically substituted
    numbers typed: a float number is an 'f' constant) or a float argument on the symbolic route"""
    lits = [F(s[1]) for s in X.subterms(e) if s[0] == 'c' and s[2] == 'f']
    if path == 'symfull':
        lits += [F(t['v']) for t in scope.values() if t['ty'] in ('float', 'npfloat')]
    return any(X.digits15_lossy(q) for q in lits)


def _very_close(o, want):
    try:
        return 'val' in o and F(o['val']) != want and abs(F(o['val']) - want) <= F(1, 10 ** 14) * max(1, abs(want))
    except Exception:
        return False


def _int_div_class(e, scope, path, impl_e, extra_types=()):
    if not (_types_of(scope) | set(extra_types)) <= {'int', 'time', 'npint', 'arri', 'frac'}:
        return False
    try:
        tsc, tvc = X.typed_scope(scope)
        return X.int_div_inexact(e, tsc, tvc, path == 'exact')
    except Exception:
        return False


def _classify_call(e, kinds, scope, path, route, o, exact_required, extra_types=(), symbolic=False, impl_e=None,
                   parsed_parts=None, typed_e=None):
    typed_e = e if typed_e is None else typed_e
    sc, vc, arr = X.split_scope(scope)
    types = _types_of(scope) | set(extra_types)
    if arr:
        n = len(next(iter(arr.values())))
        pts = [X.analyse(e, dict(sc, **{x: l[j] for x, l in arr.items()}), vc) for j in range(n)]
        tol = any(a['inexact'] for a in pts)
        if 'arr' in o and len(o['arr']) == n:
            bad = any(_fails(a, tol, {'val': v} if v is not None else {'nan': True}) for a, v in zip(pts, o['arr']))
        elif 'val' in o or 'nan' in o:
            bad = any(_fails(a, tol, o) for a in pts)
        else:
            bad = not any('err' in a for a in pts)
        if not bad:
            return 'ok'
        if 'time' in types and o.get('err', '').startswith('nonnumeric:array'):
            return 'timetype-ndarray'     # round 5: only the refusal by type (was: any error next to a TimeType)
        if 'err' in o and o['err'] != 'unbound' and 'ite' in kinds and \
                any(X.eager_fails(e, dict(sc, **{x: l[j] for x, l in arr.items()}), vc) for j in range(n)):
            return 'piecewise-eager'
        if o.get('err') == 'other:ValueError' and _mixed_shape_junction(e, set(arr)):
            return 'array-and-mixed-shapes'
        if ('arr' in o or o.get('err') in ('other:OverflowError', 'other:TypeError')) and _np_overflow(typed_e, scope):
            return 'numpy-int-overflow'
        return None
    a = X.analyse(e, sc, vc)
    if 'value' not in a and impl_e is not None and exact_required:
        # the written formula has no value here (a/a at a = 0) but sympy cancelled the offending part: the typed unit
        # case judges the formula the implementation holds
        a2 = X.analyse(impl_e, sc, vc)
        if 'value' in a2:
            a = a2
    tol = (not exact_required) and a['inexact']
    if not _fails(a, tol, o):
        return 'ok'
    if ('time' in types or (path == 'exact' and _time_possible(typed_e))) and 'ite' in kinds and \
            kinds & {'floor', 'ceil', 'floordiv'} and o.get('err', '') == 'other:AttributeError':
        # round 5: since /repo 6f36e9a a TimeType survives numpy.select (0-d object array) and the arithmetic after it;
        # what is left is floor / ceiling applied to that 0-d object array (_floor_to_int takes the array path and
        # calls .astype on the int TimeType.__floor__ returned).  Before: any AttributeError / ValueError / TypeError /
        # array refusal of a formula with a Piecewise in the exact mode or next to a TimeType
        return 'timetype-piecewise'
    if 'value' not in a:
        return None
    if ('val' in o or o.get('err') in ('other:OverflowError', 'other:TypeError')) and path != 'symfull' and \
            _np_overflow(typed_e, scope):
        return 'numpy-int-overflow'
    if _very_close(o, a['value']) and not exact_required and _digits15(typed_e, scope, path, symbolic):
        return 'float-15-digits'
    if exact_required and _float_close(o, a['value']) and o.get('ty') in ('float', 'float64', 'TimeType') and \
            _exact_mode_float(impl_e if impl_e is not None else e, scope, extra_types):
        return 'exact-int-div'           # (round 5: asked BEFORE its companion below, which had shadowed it: the
        #                                   witness a/b at 1, 3 was filed as int-div-through-float)
    if _very_close(o, a['value']) and path != 'symfull' and _int_div_class(typed_e, scope, path, impl_e, extra_types):
        return 'int-div-through-float'
    if 'time' in types and 'ite' in kinds and o.get('ty') in ('TimeType', 'float', 'float64') and \
            _float_close(o, a['value']):
        return 'timetype-piecewise'      # the TimeType went through numpy.select as a float: inexact result
    if any(_closed_floordiv(p) for p in ([e] if parsed_parts is None else parsed_parts)) and 'val' in o and \
            not _fails(X.analyse(_floordiv_as_sympy(e), sc, vc), True, o):
        return 'sympy-number-floordiv'      # only inside PARSED text; the operator route builds floor(a / b);
        #                                     round 5: and only the value sympy's quotient leads to
    if 'err' in o and o['err'] != 'unbound' and 'ite' in kinds and X.eager_fails(e, sc, vc):
        return 'piecewise-eager'
    if (('err' in o and o['err'] != 'unbound') or 'nan' in o) and X.eager_fails(e, sc, vc, dead=True):
        return 'dead-part-evaluated'
    if o.get('err') == 'other:ValueError' and (path == 'symfull' or symbolic) and _sum_under_minmax(e):
        return 'symbolic-minmax-sum'     # round 6: only a Sum INSIDE an argument of Min / Max (was: both anywhere)
    if a['reversed_sum'] and (path == 'symfull' or symbolic) and ('nan' in o or ('val' in o and _karr_value(e, sc, vc, o))):
        return 'sum-reversed-limits'     # round 5: a value only when it IS what the Karr convention gives
    return None


def classify(case, obs):
    with X.precision(case.get('precise')):
        return _classify(case, obs)


def _limit_mentions_index(case):
    """names that are substituted, are the index of a Sum of the formula and occur free in that Sum's own limits"""
    return sorted({t[1] for t in X.subterms(case['expr'])
                   if t[0] == 'sum' and t[1] in case['subs'] and t[1] in (X.fv(t[2]) | X.fv(t[3]))})


def _partial_status(case, obs):
    """'ok' | id of a known finding | None for one partial-substitution step"""
    o = obs['obs']
    se, exact = _partial_view(case)
    lim = _limit_mentions_index(case)
    if lim and (o.get('err') == 'other:ValueError' or ('val' in o and any(case['subs'][x].get('expr', [''])[0] == 'v' for x in lim))):
        # round 6: Sum(f(k), (k, lo, hi(k))) -- the index name also occurs FREE in the Sum's own limit and is substituted:
        # the substitution reaches the bound occurrences too ('Invalid limits given', or a renamed index)
        return 'sum-limit-mentions-index'
    if not X.capture_free(_subs_ast(case), case['expr']) and 'hang' not in o and 'crash' not in o:
        # the class: a substituted term mentions the index of a Sum it lands under (guard capture_free of the
        # Coq model is false) AND the observation is what the capturing substitution evaluates to
        sc_, vc_, _ = X.split_scope(case['scope'])
        a_ = X.analyse(se, sc_, vc_)
        if not _fails(a_, True, o):
            return 'subst-capture'
    typed = X.subst({x: (t['expr'] if 'expr' in t else _num_const(t['num'])) for x, t in case['subs'].items()},
                    case['expr'])
    return _classify_call(se, X.kinds(se), case['scope'], case['path'], case['route'], o, exact, symbolic=True,
                          impl_e=obs.get('impl_expr'), typed_e=typed,
                          extra_types=[t['num']['ty'] for t in case['subs'].values() if 'num' in t])


def _eval_status(case, obs):
    """set of ids (None = not a listed finding) of the failing calls of one eval case"""
    e = case['expr']
    ids = set()
    for c, o in zip(case['calls'], obs['obs']):
        exact = c['path'] == 'exact' and _types_of(c['scope']) <= {'int', 'time', 'arri'} and \
            not X.has_fn(e) and not _has_float_const(e)
        exact = exact or (_typed_applicable(c, obs.get('impl_expr')) and not X.split_scope(c['scope'])[2])
        exact = exact or _typed_claims(c, obs.get('impl_expr'))
        r = _classify_call(e, X.kinds(e), c['scope'], c['path'], case['route'], o, exact, impl_e=obs.get('impl_expr'))
        if r is None and _name_capture(case, c, o):
            r = 'lambda-name-capture'
        ids.add(r)
    ids.discard('ok')
    return ids


def _classify(case, obs):
    """id of the known finding a rejected case belongs to (input class + what was observed), else None"""
    k = case['kind']
    try:
        if k == 'session':
            ids = set()
            for sub, o in zip(case['subs'], obs['subs']):
                with X.precision(sub.get('precise', case.get('precise'))):
                    if sub['kind'] == 'eval':
                        ids |= _eval_status(sub, o)
                    elif sub['kind'] == 'partial':
                        ids.add(_partial_status(sub, o))
            ids.discard('ok')
            return sorted(ids)[0] if ids and None not in ids else None
        if k == 'eval':
            ids = _eval_status(case, obs)
            return sorted(ids)[0] if ids and None not in ids else None
        if k == 'partial':
            r = _partial_status(case, obs)
            return None if r == 'ok' else r
        if k == 'chain':       # only capture-free chains are generated: judged as the last step on the formula before it
            if not _chain_capture_free(case):
                return None
            r = _partial_status(_chain_last(case), obs)
            return None if r == 'ok' else r
        if k in ('vec', 'vecpartial'):
            o = obs['obs']
            if k == 'vecpartial':
                if any(not X.capture_free(_subs_ast(case), e) for e in case['exprs']) and 'hang' not in o and 'crash' not in o:
                    return 'subst-capture'
                exprs, vpath, symb = _vecpartial_view(case), 'in_scope', True
            else:
                exprs, vpath, symb = case['exprs'], ('symfull' if case['path'] == 'symfull' else 'in_scope'), False
            if 'err' in o:
                for e in exprs:
                    r = _classify_call(e, X.kinds(e), case['scope'], vpath, 'str', o, False, symbolic=symb)
                    if r not in (None, 'ok'):
                        return r
            if 'arr' in o and len(o['arr']) == len(exprs):
                ids = set()
                for e, v in zip(exprs, o['arr']):
                    ids.add(_classify_call(e, X.kinds(e), case['scope'], vpath, 'str',
                                           {'val': v, 'ty': 'float'} if v is not None else {'nan': True}, False,
                                           symbolic=symb))
                ids.discard('ok')
                return sorted(ids)[0] if ids and None not in ids else None
            return None
        if k == 'cmp':
            if 'ret' in obs and (_closed_floordiv(case['a']) or _closed_floordiv(case['b'])):
                return 'sympy-number-floordiv'
            return None
        if k == 'build':
            o = obs['obs']
            whole, exact = _build_view(case)
            if 'num' in case['b'] and case['b']['num']['ty'] == 'time' and case['swap'] and obs.get('a_closed') and \
                    o.get('ty') == 'TimeType' and not X.fv(case['a']):
                # the class: TimeType <op> closed expression went through float(): a close but inexact TimeType number
                sc_, vc_, _ = X.split_scope(case['scope'])
                a_ = X.analyse(whole, sc_, vc_)
                if 'value' in a_ and _float_close(o, a_['value']) and F(o['val']) != a_['value']:
                    return 'timetype-left-operand'
            r = _classify_call(whole, X.kinds(whole), case['scope'], case['path'], 'str', o, exact,
                               extra_types=[case['b']['num']['ty']]
                               if 'num' in case['b'] and case['op'] not in ('neg', 'pos') else [],
                               impl_e=obs.get('impl_expr'),
                               parsed_parts=[case['a']] + ([case['b']['expr']] if 'expr' in case['b'] else []))
            return None if r == 'ok' else r
    except Exception:
        return None
    return None


def py_spec(case, obs):
    if case['kind'] == 'session':
        for sub, o in zip(case['subs'], obs.get('subs', [])):
            r = py_spec(sub, o)
            if r is not None:
                return r
        return None
    if case['kind'] == 'reserved':
        return _reserved_spec(case, obs)
    if case['kind'] == 'lenbc':
        return _lenbc_spec(case, obs)
    if case['kind'] == 'eval' and 'serial_equal' in obs:
        o = obs['serial_equal']
        if o.get('val') == '0':
            return 'ExpressionScalar(e.get_serialization_data()) != e'
    return None


def search_failing(ctx, broken):
    """spec oracle (check_spec, evaluated in Coq) against the implementation on a fresh, larger stream"""
    rng = random.Random(ctx.get('seed', 0) * 7919 + 12)
    known, _ = vlib.load_known_findings()
    known = known.get(PID, {})
    cases = gen_cases(rng, 'quick', ctx)
    obs = [run_impl(c) for c in cases]
    terms = [to_coq(c, o) for c, o in zip(cases, obs)]
    wd = os.path.join(ctx['workdir'], 'search')
    try:
        res = vlib.run_coq_cases(wd, CORR_IMPORTS, [CHECK_SPEC], terms, shard=SHARD)
    except RuntimeError:
        return None
    for i in res[CHECK_SPEC]:
        if classify(cases[i], obs[i]) not in known:
            return cases[i], obs[i], 'specification oracle check_spec rejects the implementation on this input'
    return None


def _spec_fails(ctx, cands, tag):
    """run the implementation and check_spec (in Coq) on candidate cases; -> indices rejected for an unlisted reason"""
    known, _ = vlib.load_known_findings()
    known = known.get(PID, {})
    obs = []
    for c in cands:
        try:
            obs.append(run_impl(c))
        except Exception as e:
            obs.append({'crash': type(e).__name__})
    bad = {i for i, (c, o) in enumerate(zip(cands, obs)) if py_spec(c, o) not in (None, True)}
    terms = [to_coq(c, o) for c, o in zip(cands, obs)]
    try:
        res = vlib.run_coq_cases(os.path.join(ctx['workdir'], tag), CORR_IMPORTS, [CHECK_SPEC], terms, shard=SHARD)
        bad |= set(res[CHECK_SPEC])
    except RuntimeError:
        return [], obs
    return sorted(i for i in bad if classify(cands[i], obs[i]) not in known), obs


def _reductions(case):
    """one-step reductions of a case: fewer calls, a sub-formula in place of the formula, a constant in place of a
    sub-formula, fewer substitutions / vector items"""
    def sub_variants(e):
        out = []
        kids = [x for x in e[1:] if isinstance(x, list)]
        if e[0] in ('u', 'b', 'ibc') and not (e[0] == 'b' and e[1] in X.CMPS + ['and', 'or']) and e[1] != 'not':
            out.extend(kids)                                    # a child in place of the node
        if e[0] == 'ite':
            out.extend(e[2:4])                                  # (conditions are kept: they are not values)
        if e[0] == 'sum':
            out.append(e[4])
        if e[0] not in ('c', 'v', 'nan') and not X.fvv(e):
            out.append(['c', '1', 'i'])
        for j, x in enumerate(e):
            if isinstance(x, list) and not (e[0] == 'sum' and j in (2, 3)) and not (e[0] == 'ite' and j == 1):
                for y in sub_variants(x):
                    out.append(e[:j] + [y] + e[j + 1:])
        return out
    k = case['kind']
    out = []
    if k == 'eval':
        if len(case['calls']) > 1:
            out.extend(dict(case, calls=[c]) for c in case['calls'])
            out.extend(dict(case, calls=case['calls'][:j] + case['calls'][j + 1:]) for j in range(len(case['calls'])))
        for e2 in sub_variants(case['expr'])[:60]:
            need = X.fv(e2) | X.fvv(e2)
            if all(need <= set(c['scope']) for c in case['calls']):
                out.append(dict(case, expr=e2))
    elif k == 'session':
        if len(case['subs']) > 1:
            out.extend(dict(case, subs=case['subs'][:j] + case['subs'][j + 1:]) for j in range(len(case['subs'])))
    elif k == 'partial':
        for x in case['subs']:
            out.append(dict(case, subs={y: t for y, t in case['subs'].items() if y != x}))
        for e2 in sub_variants(case['expr'])[:60]:
            out.append(dict(case, expr=e2))
    elif k == 'build':
        for e2 in sub_variants(case['a'])[:40]:
            out.append(dict(case, a=e2))
    elif k == 'cmp':
        for f in ('a', 'b'):
            for e2 in sub_variants(case[f])[:30]:
                out.append(dict(case, **{f: e2}))
    elif k in ('vec', 'vecpartial') and not case.get('shape'):
        if len(case['exprs']) > 1:
            out.extend(dict(case, exprs=case['exprs'][:j] + case['exprs'][j + 1:]) for j in range(len(case['exprs'])))
        for j, e in enumerate(case['exprs']):
            for e2 in sub_variants(e)[:20]:
                out.append(dict(case, exprs=case['exprs'][:j] + [e2] + case['exprs'][j + 1:]))
    good = []
    for c in out:
        try:        # only well-scoped candidates (partial cases need values for what remains)
            if c['kind'] == 'partial':
                rem = (X.fv(c['expr']) - set(c['subs'])) | set().union(
                    *[X.fv(t['expr']) for t in c['subs'].values() if 'expr' in t] or [set()])
                if not rem <= set(c['scope']) | set(X.fvv(c['expr'])):
                    continue
            good.append(c)
        except Exception:
            pass
    return good


def shrink(case, obs, ctx):
    """greedy shrinking of a case the specification rejects: all one-step reductions of a round are run on the
    implementation and judged by check_spec inside Coq (one coqc batch per round); the first one that is still rejected
    for a reason that is not a listed finding is kept.  At most 6 rounds; only the first two violations of a run are
    shrunk (time)."""
    ctx['_shrunk'] = ctx.get('_shrunk', 0) + 1
    if ctx['_shrunk'] > 2:
        return case, obs
    for rnd in range(6):
        cands = _reductions(case)[:150]
        if not cands:
            break
        bad, cobs = _spec_fails(ctx, cands, 'shrink%d' % rnd)
        if not bad:
            break
        i = min(bad, key=lambda j: sum(X.size(e) for e in _exprs_of(cands[j])) * 100 + len(cands[j].get('calls', [])))
        case, obs = cands[i], cobs[i]
    return case, obs


MANIFEST = {
    'level_text': 'Proof (partial by nature).  Proved for all formulas / scopes, about the Coq model of what qupulse does '
                  'against the denotation of Spec.v: simultaneous substitution lemma (under the executable guard '
                  'capture_free = exactly the class of finding subst-capture; refuted without it); substituting numbers '
                  'first = evaluating at once, every split (no guard); round 6: CHAINS of any number of substitution steps '
                  '(evaluate_symbolic on the result of evaluate_symbolic ...) = evaluating the written formula at once in '
                  'the scope the steps denote (C12_subst_chain, every step under capture_free; number steps unguarded), '
                  'cases of kind chain are judged by that scope in check_spec; broadcasting evaluation => pointwise value '
                  '(C12_vector, converse not claimed); the Python-typed model of the generated code has the value of the '
                  'denotation in both modes and, under the static guard exact_guard (wider than finding exact-int-div: it '
                  'also excludes every Piecewise and int**negative), an exact type (refuted without it); closed-formula '
                  'comparison decider is sound; the operator builders are near-definitional (content only for //).  '
                  'TESTED ONLY, not proved: that sympy / lambdify / numpy evaluation equals the denotation (clauses scalar, '
                  'vector, array, exact mode: correspondence on generated formulas x scopes x access paths), the '
                  'serialisation round trip (no printer / parser model), soundness of the comparisons sympy decides beyond '
                  'closed formulas.  Not covered: "unknown otherwise" for comparisons (sympy decides more than the model); '
                  'chains on ExpressionVector are not generated.',
    'level_note': 'Trusted: Coq kernel, harness printers/generators, the sympy->AST reader that feeds the typed unit '
                  'cases. sympy/numpy/gmpy2 are the implementation under comparison. check_spec is defined in SpecCheck.v, '
                  'which imports the specification Spec.v only (round 5). Transcendental functions only under tolerance '
                  '(never deciding). The result TYPE is compared only where the typed model computes int or TimeType (its '
                  'float class claims nothing). Reserved names and Len/Broadcast are judged by a Python specification '
                  '(py_spec), not in Coq. Known findings numpy-int-overflow, int-div-through-float, float-15-digits, '
                  'piecewise-eager, dead-part-evaluated, lambda-name-capture, sum-limit-mentions-index (value for a bare '
                  'variable term) are class-wide predicates: a second defect '
                  'confined to one of these input classes would be filed under the finding.',
    'technique': 'Coq proofs over a Q-denotation of the formula language (+ a typed refinement for the exact-rational '
                 'mode) + exact correspondence check against sympy/numpy',
    'design_ref': 'DESIGN.md §5 C12, §4.2',
}
