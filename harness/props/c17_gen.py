"""C17 — ties of qupulse/program/linspace.py to the model by the fail-closed translator (translate/py2gallina_c17.py).
On every run the current source text is translated again:
  DepState.required_increment_from                                         -> coq/C17/Gen_linspace.v      (GenEq.v)
  the command dataclasses, LinSpaceVM.change_state / step,
  _TranslationState.set_voltage / _set_indexed_voltage / _add_hold_node     -> coq/C17/Gen_linspace_obj.v  (GenObjEq.v)
  ProgramEntry._transform_linspace_commands (hardware/awgs/base.py)         -> coq/C17/Gen_awg_base.v      (GenBaseEq.v)
  the node dataclasses, DepKey.from_voltages, dependencies(), new_loop, get_dependency_state,
  _entry_state_unchanged_since, _add_repetition_node, _add_iteration_node, add_node,
  to_increment_commands, LinSpaceVM.__init__/run, LinSpaceBuilder           -> coq/C17/Gen_linspace_tr.v   (GenTrEq.v)
  SimpleExpression operators and value (qupulse/program/__init__.py)        -> coq/C17/Gen_sexpr.v         (GenSExprEq.v)
The committed proofs GenEq.v / GenObjEq.v show the generated definitions equal to (a refinement of) the model; they stop
compiling when the source changes its behaviour, and the translator refuses source text outside its subset."""
import os
import sys

import vlib

GEN_FILE = os.path.join(vlib.COQ, 'C17', 'Gen_linspace.v')
GEN_OBJ_FILE = os.path.join(vlib.COQ, 'C17', 'Gen_linspace_obj.v')
GEN_BASE_FILE = os.path.join(vlib.COQ, 'C17', 'Gen_awg_base.v')
GEN_TR_FILE = os.path.join(vlib.COQ, 'C17', 'Gen_linspace_tr.v')
GEN_SE_FILE = os.path.join(vlib.COQ, 'C17', 'Gen_sexpr.v')
SOURCE_SE = 'qupulse/program/__init__.py'
SOURCE = 'qupulse/program/linspace.py'
SOURCE_BASE = 'qupulse/hardware/awgs/base.py'


def pregen(ctx):
    sys.path.insert(0, os.path.join(vlib.VERIF, 'translate'))
    import py2gallina_c17
    out = []
    name = 'translate:%s::DepState.required_increment_from' % SOURCE
    try:
        txt = py2gallina_c17.translate_method(os.path.join(vlib.REPO, SOURCE), 'DepState', 'required_increment_from')
        txt = txt.replace(vlib.REPO, '/repo')
        vlib.write_if_changed(GEN_FILE, txt + '\n')
        out.append({'name': name, 'ok': True, 'detail': 'translated'})
    except Exception as e:   # Unsupported, SyntaxError, ...
        out.append({'name': name, 'ok': False, 'detail': 'translator refused the current source: %s' % e})
    name = 'translate:%s::LinSpaceVM.step/change_state,_TranslationState.set_voltage/_set_indexed_voltage' % SOURCE
    try:
        txt = py2gallina_c17.translate_objects(os.path.join(vlib.REPO, SOURCE))
        txt = txt.replace(vlib.REPO, '/repo')
        vlib.write_if_changed(GEN_OBJ_FILE, txt + '\n')
        out.append({'name': name, 'ok': True, 'detail': 'translated'})
    except Exception as e:
        out.append({'name': name, 'ok': False, 'detail': 'translator refused the current source: %s' % e})
    name = ('translate:%s::DepKey.from_voltages,dependencies(),_TranslationState.add_node/_add_repetition_node/_add_iteration_node/'
            'new_loop/get_dependency_state/_entry_state_unchanged_since,to_increment_commands,LinSpaceVM.__init__' % SOURCE)
    try:
        txt = py2gallina_c17.translate_translator(os.path.join(vlib.REPO, SOURCE))
        txt = txt.replace(vlib.REPO, '/repo')
        vlib.write_if_changed(GEN_TR_FILE, txt + '\n')
        out.append({'name': name, 'ok': True, 'detail': 'translated'})
    except Exception as e:
        out.append({'name': name, 'ok': False, 'detail': 'translator refused the current source: %s' % e})
    name = 'translate:%s::SimpleExpression.__add__/__radd__/__sub__/__rsub__/__neg__/__mul__/__rmul__/__truediv__/value' % SOURCE_SE
    try:
        txt = py2gallina_c17.translate_simple_expression(os.path.join(vlib.REPO, SOURCE_SE))
        txt = txt.replace(vlib.REPO, '/repo')
        vlib.write_if_changed(GEN_SE_FILE, txt + '\n')
        out.append({'name': name, 'ok': True, 'detail': 'translated'})
    except Exception as e:
        out.append({'name': name, 'ok': False, 'detail': 'translator refused the current source: %s' % e})
    name = 'translate:%s::ProgramEntry._transform_linspace_commands' % SOURCE_BASE
    try:
        txt = py2gallina_c17.translate_transform(os.path.join(vlib.REPO, SOURCE_BASE))
        txt = txt.replace(vlib.REPO, '/repo')
        vlib.write_if_changed(GEN_BASE_FILE, txt + '\n')
        out.append({'name': name, 'ok': True, 'detail': 'translated'})
    except Exception as e:
        out.append({'name': name, 'ok': False, 'detail': 'translator refused the current source: %s' % e})
    return out
