"""C17 — tie of DepState.required_increment_from to the model by the fail-closed translator (translate/py2gallina_c17.py):
the method's current source text is translated to coq/C17/Gen_linspace.v on every run; coq/C17/GenEq.v (committed) proves
the generated definition equal to the model's required_increment_from."""
import os
import sys

import vlib

GEN_FILE = os.path.join(vlib.COQ, 'C17', 'Gen_linspace.v')
SOURCE = 'qupulse/program/linspace.py'


def pregen(ctx):
    sys.path.insert(0, os.path.join(vlib.VERIF, 'translate'))
    import py2gallina_c17
    name = 'translate:%s::DepState.required_increment_from' % SOURCE
    try:
        txt = py2gallina_c17.translate_method(os.path.join(vlib.REPO, SOURCE), 'DepState', 'required_increment_from')
        txt = txt.replace(vlib.REPO, '/repo')
        vlib.write_if_changed(GEN_FILE, txt + '\n')
        return [{'name': name, 'ok': True, 'detail': 'translated'}]
    except Exception as e:   # Unsupported, SyntaxError, ...
        return [{'name': name, 'ok': False, 'detail': 'translator refused the current source: %s' % e}]
