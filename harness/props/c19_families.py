"""C19 helper — deterministic case families added in round 4.

1. `dtype_family`: every integer dtype the callers of find_place_for_segments_in_memory use for each of the five arrays
   (and a few they do not), in all combinations, on layouts that sit exactly on / one point beside the two refusal
   thresholds, with small sizes and with sizes near the total capacity of a real instrument (16 M / 2^31 points).
   Blind class before: `new_segment_lengths` was always int64 (or a python list) in the place cases, although
   TaborProgram.get_sampled_segments() delivers np.uint64; an unsigned `required - available` can never be negative.
2. `tail_reuse_family`: histories in which a slot that is unreferenced AND lies behind the last referenced slot is re-used
   (by hash) by an upload that also appends: forced re-uploads, free without cleanup, refused uploads in between.
   Between the placement decision and cleanup()/_amend_segments the re-used slot is protected only by the reference
   count that upload() adds right after the decision.

Round 5:
3. `short_in_hole_family`: a SHORTER segment is written into a larger unreferenced hole (defined length < capacity of the
   slot) and a later upload appends on the refusal threshold: the append fits exactly / is one point short / is short by the
   slack of the hole (capacity - defined length) / by one more.  The memory in front of the append position is the sum of
   the slot CAPACITIES; whoever computes it from the defined lengths accepts the appends in between (seed C19-8, which the
   quick tier caught only as model != code on the lens family plus a search, not as a violated clause of a generated case).
"""
import itertools

# dtype codes: numpy dtype strings, 'list' = python list of ints (new-segment arrays only)
REF_DTS = ['u4', 'i8']                  # clear(): uint32; after _amend_segments (concatenate with ones(dtype=int)): int64
CAP_DTS = ['u4', 'i8']                  # driver: uint32; unit tests: int64
LEN_DTS = ['u8', 'u4', 'i8', 'list', 'i4', 'u2']   # TaborProgram: uint64; _amend_segments / feature: uint32; tests: int64 / lists
HASH_DTS = ['i8']                       # np.fromiter(..., dtype=np.int64) / np.ones(1, dtype=np.int64) * hash(...)


def _mk(hashes, refs, caps, total, nh, nl, dts, note=None):
    c = {'kind': 'place', 'hashes': list(hashes), 'refs': list(refs), 'caps': list(caps), 'total': int(total),
         'new_hashes': list(nh), 'new_lens': list(nl), 'dtype': 'mix', 'aslist': False, 'dts': dict(dts)}
    if note:
        c['note'] = note
    return c


def thresholds(hashes, refs, caps, nh, nl):
    """(smallest total that passes the first check, allocated points) of a layout"""
    reserved = sum(c for r, c in zip(refs, caps) if r > 0)
    unknown = sum(l + 16 for h, l in zip(nh, nl) if h not in hashes)
    return reserved + unknown, sum(caps)


def base_layouts(scale=1):
    """(hashes, refs, caps, new hashes, new lengths, smallest total for which a decision must come back or None)
    scale multiplies all sizes (multiples of 16 stay multiples of 16)"""
    s = scale
    out = []
    # fragmented, nearly full: the free interior slot is too small; the segment must go behind slot 2
    out.append(([1, 2, 3], [1, 0, 1], [400 * s, 208 * s, 300 * s], [9], [224 * s], 908 * s + 224 * s + 16))
    # the same with the interior slot re-used by hash (known segment, count 0) and a second unknown one
    out.append(([1, 2, 3], [1, 0, 1], [400 * s, 208 * s, 300 * s], [2, 9], [208 * s, 224 * s], 908 * s + 224 * s + 16))
    # free interior slot of exactly the length: no append at all; threshold = reserved + unknown
    out.append(([1, 2, 3], [1, 0, 1], [400 * s, 208 * s, 300 * s], [9], [208 * s], 700 * s + 208 * s + 16))
    # two segments: one fits the larger free slot, one must be appended
    out.append(([1, 2, 3, 4], [1, 0, 0, 2], [192 * s, 384 * s, 208 * s, 192 * s], [8, 9], [256 * s, 512 * s],
                976 * s + 512 * s + 16))
    # empty memory / only the idle slot
    out.append(([0], [1], [192], [9], [192 * s], 192 + 192 * s + 16))
    # unreferenced tail: everything behind slot 0 is free space, nothing fits by length -> append behind slot 0
    out.append(([0, 5, 6], [1, 0, 0], [192, 208 * s, 224 * s], [9], [400 * s], 192 + 400 * s + 16))
    # all segments known (no upload): never refused because of space, even when the memory is full
    out.append(([1, 2], [1, 0], [192 * s, 208 * s], [2, 1], [208 * s, 192 * s], None))
    return out


def dtype_family(thorough=False):
    cases = []
    if thorough:
        combos = list(itertools.product(HASH_DTS, REF_DTS, CAP_DTS, ['i8', 'list'], LEN_DTS))
        scales = [1, 256, 65536, 2 ** 22]
    else:
        # quick: all combinations of the three arrays whose dtype varies among the callers; python lists for both
        # new-segment arrays together
        combos = [c for c in itertools.product(HASH_DTS, REF_DTS, CAP_DTS, ['i8', 'list'], LEN_DTS)
                  if c[3] == 'i8' or c[4] == 'list']
        scales = [1, 65536]
    for scale in scales:
        for li, (h, r, c, nh, nl, need) in enumerate(base_layouts(scale)):
            first, alloc = thresholds(h, r, c, nh, nl)
            if need is None:
                totals = [first - 1, first, alloc] if thorough else [alloc]
            elif thorough:
                totals = sorted({first - 1, first, need - 16, need - 1, need, need + 1})
            else:
                totals = [need - 1, need]          # must be refused / must be decided
            for ci, (dh, dr, dc, dnh, dnl) in enumerate(combos):
                if max(nl) + 16 >= {'u2': 2 ** 16, 'i4': 2 ** 31}.get(dnl, 2 ** 62):
                    continue                       # the length itself does not fit the dtype
                if max(c) >= 2 ** 32 and dc == 'u4':
                    continue
                if not thorough and scale > 1 and (ci + li) % 2:
                    continue                       # quick: the large sizes visit every other (combination, layout) pair
                for t in totals:
                    if t < 0:
                        continue
                    cases.append(_mk(h, r, c, t, nh, nl, {'h': dh, 'r': dr, 'c': dc, 'nh': dnh, 'nl': dnl},
                                     note='dtype-family'))
    return cases


def rand_dts(rng):
    """dtype combination of a random place case: the driver's own combination most of the time"""
    if rng.random() < 0.5:
        return {'h': 'i8', 'r': rng.choice(REF_DTS), 'c': 'u4', 'nh': 'i8', 'nl': 'u8'}
    return {'h': 'i8', 'r': rng.choice(REF_DTS), 'c': rng.choice(CAP_DTS), 'nh': rng.choice(['i8', 'list']),
            'nl': rng.choice(LEN_DTS[:4])}


# ---------------------------------------------------------------------------------------------------------------------

IDLE = [0, 192]


def tail_reuse_family():
    """histories (for both drivers, all length dtypes) that leave a re-used slot unreferenced at the tail"""
    Z, S, T, X, Y, A, B, C = IDLE, [21, 208], [22, 320], [23, 256], [24, 192], [25, 400], [26, 224], [27, 208]
    out = []

    def H(ops, total=100000):
        out.append({'kind': 'hist', 'total': total, 'ops': ops, 'note': 'tail-reuse-family'})
    U = lambda name, segs, force=False: ['upload', name, [list(s) for s in segs], force]
    # forced re-upload: the old version is freed without cleanup, `S` sits in the last slot with count 0, is re-used by
    # hash, and two segments are appended (cleanup() runs before the append)
    H([U(1, [X, S]), U(1, [S, A, B], True)])
    H([U(1, [X, S]), U(1, [S, A, B], True), U(2, [S, X]), ['remove', 1], U(3, [A, C])])
    H([U(1, [X, S]), U(1, [A, S, B], True)])
    H([U(1, [X, S]), U(1, [A, B, S], True)])
    # two re-used slots at the tail, in either order
    H([U(1, [X, S, T]), U(1, [T, S, A], True)])
    H([U(1, [X, S, T]), U(1, [S, A], True)])            # S re-used, T (behind it) dropped, A appended where T was
    H([U(1, [X, S, T]), U(1, [T, A], True)])            # T re-used at the very end, S (before it) offered as free slot
    H([U(1, [X, S, T]), U(1, [T, C], True)])            # ... and taken: C has S's length
    # free without cleanup, then another name re-uses the tail
    H([U(1, [X, S]), ['free', 1], U(2, [S, A])])
    H([U(1, [S]), U(2, [T]), ['free', 2], ['free', 1], U(3, [T, A])])
    H([U(1, [S]), U(2, [T]), ['free', 2], ['free', 1], U(3, [T, C, A])])
    H([U(1, [S]), U(2, [T]), ['free', 1], ['free', 2], U(3, [S, A]), U(4, [T])])
    # the tail slot is re-used while a program in front of it stays
    H([U(1, [X]), U(2, [S]), ['free', 2], U(3, [S, A, B])])
    H([U(1, [X]), U(2, [Y, S]), U(2, [S, A], True), ['remove', 1], U(4, [B])])
    # the idle segment in the mix
    H([U(1, [Z, S]), U(1, [S, Z, A], True)])
    H([U(1, [Z, X, S]), U(1, [S, A, Z, B], True), ['remove', 1], U(2, [C])])
    # re-used tail + nothing appended (no cleanup inside upload): the tail behind the re-used slot stays defined
    H([U(1, [S, T]), U(1, [S], True), ['cleanup']])
    H([U(1, [S, T]), U(1, [S], True), U(2, [C])])
    # re-used slot in the INTERIOR, unreferenced tail not re-used: dropped, the append lands where it was
    H([U(1, [S, X]), U(1, [S, A], True)])
    H([U(1, [S, X, Y]), U(1, [S, A, B], True), U(2, [X, Y])])
    # tight memory: the append only fits because the unreferenced tail is reclaimed
    H([U(1, [X, S]), U(1, [S, A], True)], total=192 + 256 + 208 + 416)
    H([U(1, [X, S]), U(1, [S, A], True)], total=192 + 256 + 208 + 415)       # one point short: refused, program 1 gone
    H([U(1, [X, S]), U(1, [S, A], True), U(2, [S, X])], total=192 + 256 + 208 + 415)
    # state left behind by a refused upload the caller survives: forced re-upload refused -> old version stays freed
    H([U(1, [S, T]), U(1, [A, B, C, X], True), U(2, [T]), U(3, [S, Y])], total=192 + 224 + 336 + 300)
    H([U(1, [S, T]), U(2, [A, B, C, X]), U(1, [T, Y], True), ['cleanup'], U(3, [S])], total=192 + 224 + 336 + 300)
    # round 5: freed WITHOUT cleanup by free_program, then ANOTHER name appends (no force anywhere) on a total that only
    # suffices because the unreferenced tail is reclaimed before the append (hand mutation: cleanup only `if force`)
    H([U(1, [X, S]), ['free', 1], U(2, [A])], total=700)
    H([U(1, [X]), U(2, [S]), ['free', 2], U(3, [A])], total=864)
    H([U(1, [X]), U(2, [S]), ['free', 2], U(3, [A])], total=863)            # one point short: refused
    H([U(1, [X]), U(2, [S, T]), ['free', 2], U(3, [T, A])], total=192 + 256 + 208 + 320 + 416)   # T re-used at the tail, S stays a free interior slot, exact fit
    # three rounds of forced re-upload rotating one shared segment through the tail
    H([U(1, [X, S]), U(1, [S, A], True), U(1, [A, B], True), U(1, [B, S], True), U(2, [S, X, A])])
    return out


def lens_family():
    """histories in which freed slots are overwritten by SHORTER segments (capacity != defined length) and later uploads
    append 1 / 2 / 3 segments: `_amend_segments` redefines the lengths per new segment when fewer segments are appended
    than slots differ (`len(segments) < old_to_update`), else it downloads the whole length table (all slots := capacity)
    and then re-defines the differing slots.  Blind class before round 4: the lengths were not observed at all."""
    out = []

    def H(ops, total=100000):
        out.append({'kind': 'hist', 'total': total, 'ops': ops, 'note': 'lens-family'})
    U = lambda name, segs, force=False: ['upload', name, [list(s) for s in segs], force]
    base = [U(1, [[11, 256], [12, 400], [19, 320]]), U(2, [[13, 192]]), ['free', 1], U(3, [[14, 208]]), U(4, [[15, 224]])]
    H(base + [U(5, [[16, 1000]])])                                  # 1 new < 2 differing: per-segment definitions
    H(base + [U(5, [[16, 1000]]), U(6, [[17, 1008], [18, 1024]])])  # then 2 new = 2 differing: table download
    H(base + [U(5, [[17, 1008], [18, 1024], [20, 512]])])           # 3 new > 2 differing
    H(base + [U(5, [[21, 240]]), U(6, [[16, 1000]])])               # three differing slots, then one append
    H(base + [U(5, [[16, 1000]]), ['remove', 3], U(6, [[22, 272]]), U(7, [[23, 2000]])])   # a differing slot re-freed and re-written
    H(base + [['remove', 2], U(5, [[16, 1000]]), ['remove', 5], ['remove', 4], ['remove', 3], U(6, [[24, 192]])])
    H(base + [U(4, [[15, 224], [16, 1000]], True)])                 # forced re-upload re-using a shorter-defined slot + append
    H(base + [U(3, [[25, 400]], True), U(5, [[16, 1000]])])         # the slot gets a full-length segment again
    return out


def short_in_hole_family():
    """see module docstring, 3."""
    out = []

    def H(ops, total):
        out.append({'kind': 'hist', 'total': total, 'ops': ops, 'note': 'short-in-hole-family'})
    U = lambda name, segs, force=False: ['upload', name, [list(s) for s in segs], force]
    for c, l in ((320, 256), (400, 208), (384, 368)):            # hole capacity, shorter segment; slack 64 / 192 / 16
        A, B, C = [31, c], [32, 192], [33, l]
        used = 192 + c + 192                                     # idle slot, the hole, B
        for tail in ([[34, 336]], [[34, 192]], [[34, 208], [35, 224]]):
            need = sum(n + 16 for _, n in tail)
            for delta in (0, 1, c - l, c - l + 1):
                # delta = 0: the append fits exactly; delta >= 1: it must be refused
                H([U(1, [A]), U(2, [B]), ['remove', 1], U(3, [C]), U(4, tail)], used + need - delta)
        # the shorter segment arrives by a forced re-upload of the program that owned the hole
        for delta in (0, 1, c - l):
            H([U(1, [A]), U(2, [B]), U(1, [C], True), U(4, [[34, 336]])], used + 352 - delta)
        # two holes, both filled with shorter segments (slack adds up), then the append
        D, E = [36, c], [37, l - 16]
        for delta in (0, 1, 2 * (c - l) + 16):
            H([U(1, [A]), U(5, [D]), U(2, [B]), ['remove', 1], ['remove', 5], U(3, [C, E]), U(4, [[34, 336]])],
              192 + 2 * c + 192 + 352 - delta)
    return out
