"""C18 — Python evaluation of the routing specification on recorded observations (mirror of coq/C18/Spec.v +
Corr.check_spec) that additionally names the violated clause; used for py_spec / classify / shrink / search."""
from fractions import Fraction as F

WIRING_OPS = ('set_channel', 'rm_channel', 'set_measurement')


def norm_idx(n, idx):
    if 0 <= idx < n:
        return idx
    if -n <= idx < 0:
        return idx + n
    return None


def at_pos(dims, s, a, marker, i):
    if s[0] != a or bool(s[2]) != marker:
        return False
    n = dims[a][1] if marker else dims[a][0]
    return norm_idx(n, s[1]) == i


def uses_awg(cm, chans, a):
    return any(s[0] == a for c in chans for s in cm.get(c, []))


def uses_dac(masks, mm, meas_names, d):
    return any(masks[i][0] == d for n in meas_names for i in mm.get(n, []))


def slot_ok(dims, cm, chans, a, marker, i, v, vt):
    if v is None:
        return vt is None and not any(at_pos(dims, s, a, marker, i) for c in chans for s in cm.get(c, []))
    if v not in chans:
        return False
    return any(at_pos(dims, s, a, marker, i) and (marker or vt == s[3]) for s in cm.get(v, []))


def entry_ok(dims, cm, tag, chans, a, e):
    nc, nm = dims[a]
    if e['tag'] != tag or len(e['ch']) != nc or len(e['mk']) != nm or len(e['vt']) != nc:
        return False
    return all(slot_ok(dims, cm, chans, a, False, i, e['ch'][i], e['vt'][i]) for i in range(nc)) and \
        all(slot_ok(dims, cm, chans, a, True, i, e['mk'][i], None) for i in range(nm))


def wins_eq(a, b):
    return [[F(x) for x in a[0]], [F(x) for x in a[1]]] == [[F(x) for x in b[0]], [F(x) for x in b[1]]]


def dac_entry_ok(masks, mm, meas, d, wins):
    for mk, w in wins.items():
        if not any(wins_eq(mw, w) and any(masks[i][0] == d and masks[i][1] == mk for i in mm.get(n, []))
                   for n, mw in meas.items()):
            return False
    for n in meas:
        for i in mm.get(n, []):
            if masks[i][0] == d and masks[i][1] not in wins:
                return False
    return True


def state_eq(a, b):
    strip = lambda s: {k: v for k, v in s.items() if k not in ('err', 'hint')}
    return strip(a) == strip(b)


def reg_view(r):
    return (r['tag'], sorted(r['chans']), {k: [[F(x) for x in v[0]], [F(x) for x in v[1]]] for k, v in r['meas'].items()},
            r['cb'])


def exact_failures(case, ob):
    """list of (clause, device, name, why) — every way the observation ob violates the routing invariant"""
    dims, masks = case['awgs'], case['masks']
    cm, mm, regs = ob['chmap'], ob['mmap'], ob['regs']
    out = []
    for a, ast in enumerate(ob['awgs']):
        for n, e in ast['progs'].items():
            if n not in regs:
                out.append(('awg_stale', a, n, 'AWG %d holds program p%d which is not registered' % (a, n)))
            elif not uses_awg(cm, regs[n]['chans'], a):
                out.append(('awg_stale', a, n, 'AWG %d holds program p%d which uses none of its channels' % (a, n)))
            elif not entry_ok(dims, cm, regs[n]['tag'], regs[n]['chans'], a, e):
                out.append(('awg_entry', a, n, 'AWG %d holds p%d with tuples/program %r that the wiring does not give'
                            % (a, n, e)))
        for n, r in regs.items():
            if uses_awg(cm, r['chans'], a) and n not in ast['progs']:
                out.append(('awg_missing', a, n, 'AWG %d does not hold registered program p%d that uses its channels' % (a, n)))
        if ast['armed'] is not None and ast['armed'] not in ast['progs']:
            out.append(('awg_armed_stale', a, ast['armed'], 'AWG %d is armed with p%d which it does not hold' % (a, ast['armed'])))
    for d, dst in enumerate(ob['dacs']):
        for n, w in dst['wins'].items():
            if n not in regs:
                out.append(('dac_stale', d, n, 'DAC %d holds windows of p%d which is not registered' % (d, n)))
            elif not uses_dac(masks, mm, regs[n]['meas'], d):
                out.append(('dac_stale', d, n, 'DAC %d holds windows of p%d none of whose measurements is wired to it' % (d, n)))
            elif not dac_entry_ok(masks, mm, regs[n]['meas'], d, w):
                out.append(('dac_entry', d, n, 'DAC %d holds windows %r for p%d that are not the program\'s windows for '
                            'the wired masks' % (d, w, n)))
        for n, r in regs.items():
            if uses_dac(masks, mm, r['meas'], d) and n not in dst['wins']:
                out.append(('dac_missing', d, n, 'DAC %d has no windows of registered program p%d' % (d, n)))
        if dst['armed'] is not None and dst['armed'] not in dst['wins']:
            out.append(('dac_armed_stale', d, dst['armed'], 'DAC %d is armed with p%d whose windows it does not hold'
                        % (d, dst['armed'])))
    for n, r in regs.items():
        na, nd = len(ob['awgs']), len(ob['dacs'])
        want_a = [a for a in range(na) if uses_awg(cm, r['chans'], a)]
        want_d = [d for d in range(nd) if uses_dac(masks, mm, r['meas'], d)]
        if sorted(r['awgs']) != want_a:
            out.append(('record_awg', None, n, 'participation record of p%d is awgs=%r, the wiring says %r'
                        % (n, r['awgs'], want_a)))
        if sorted(r['dacs']) != want_d:
            out.append(('record_dac', None, n, 'participation record of p%d is dacs=%r, the wiring says %r'
                        % (n, r['dacs'], want_d)))
    return out


def post_failures(case, k, prev, ob):
    op = case['ops'][k]
    kind = op['op']
    out = []
    pv = {n: reg_view(r) for n, r in prev['regs'].items()}
    nv = {n: reg_view(r) for n, r in ob['regs'].items()}
    name = op.get('name')
    if kind == 'register':
        h = ob['hint']
        want = (op['prog']['tag'], sorted(h['chan_order']),
                {m[0]: [[F(x) for x in m[1]], [F(x) for x in m[2]]] for m in h['meas']}, op.get('cbtag', op['prog']['tag']))
        if nv.get(name) != want:
            out.append(('post_register', None, name, 'registered_programs[p%d] is not the program just registered' % name))
        pv.pop(name, None)
        nv.pop(name, None)
        if pv != nv:
            out.append(('regs_changed', None, name, 'register_program changed other registered programs'))
    elif kind == 'remove':
        pv.pop(name, None)
        if pv != nv:
            out.append(('regs_changed', None, name, 'remove_program: registered programs are not the old ones minus p%d' % name))
        for a, ast in enumerate(ob['awgs']):
            if name in ast['progs']:
                out.append(('post_gone', ('awg', a), name, 'removed program p%d is still on AWG %d' % (name, a)))
        for d, dst in enumerate(ob['dacs']):
            if name in dst['wins']:
                out.append(('post_gone', ('dac', d), name, 'removed program p%d still has windows on DAC %d' % (name, d)))
    elif kind == 'clear':
        if nv:
            out.append(('regs_changed', None, None, 'clear_programs left registered programs'))
        for a, ast in enumerate(ob['awgs']):
            for n in ast['progs']:
                out.append(('post_gone', ('awg', a), n, 'cleared program p%d is still on AWG %d' % (n, a)))
        for d, dst in enumerate(ob['dacs']):
            for n in dst['wins']:
                out.append(('post_gone', ('dac', d), n, 'cleared program p%d still has windows on DAC %d' % (n, d)))
    else:
        if pv != nv:
            out.append(('regs_changed', None, name, '%s changed the registered programs' % kind))
        if kind == 'update_params':
            r = ob['regs'].get(name)
            vl, pl = ob.get('vollog', []), prev.get('vollog', [])
            if r is None or len(vl) != len(pl) + 1 or vl[0][0] != name or vl[0][1] != op['ptag']:
                out.append(('post_update_log', None, name, 'update_parameters returned normally but the call log is %r' % (vl[:1],)))
            else:
                want = [a for a in range(len(ob['awgs'])) if uses_awg(ob['chmap'], r['chans'], a)]
                if vl[0][2] != want:
                    out.append(('post_update', None, name, 'update_parameters reached generators %r, the program uses %r'
                                % (vl[0][2], want)))
        elif len(ob.get('vollog', [])) != len(prev.get('vollog', [])):
            out.append(('post_update_log', None, name, '%s called set_volatile_parameters' % kind))
        if kind != 'run' and ob['cblog'] != prev['cblog']:
            out.append(('post_run', None, name, '%s invoked a run callback' % kind))
        if kind in ('arm', 'run'):
            r = ob['regs'].get(name)
            if r is None:
                out.append(('post_arm', None, name, 'arm_program returned normally for an unregistered program'))
            else:
                cm, mm = ob['chmap'], ob['mmap']
                known = {s[0] for v in cm.values() for s in v}
                for a, ast in enumerate(ob['awgs']):
                    if uses_awg(cm, r['chans'], a):
                        if ast['armed'] != name:
                            out.append(('post_arm', ('awg', a), name, 'participating AWG %d is not armed with p%d' % (a, name)))
                    elif a in known and ast['armed'] is not None:
                        out.append(('post_arm', ('awg', a), name, 'non-participating AWG %d is still armed' % a))
                for d, dst in enumerate(ob['dacs']):
                    if uses_dac(case['masks'], mm, r['meas'], d) and dst['armed'] != name:
                        out.append(('post_arm', ('dac', d), name, 'participating DAC %d is not armed with p%d' % (d, name)))
                want_log = ([r['cb']] if kind == 'run' else []) + prev['cblog']
                if ob['cblog'] != want_log:
                    out.append(('post_run', None, name, 'run callbacks invoked: %r, expected %r' % (ob['cblog'], want_log)))
    return out


def initial_obs(case):
    return {'err': None, 'chmap': {}, 'mmap': {}, 'regs': {},
            'awgs': [{'progs': {}, 'armed': None} for _ in case['awgs']],
            'dacs': [{'wins': {}, 'armed': None} for _ in range(case['ndacs'])], 'cblog': [], 'vollog': []}


class Status:
    """mirror of Spec.track_awg / track_dac: per side, the program names that are covered / lost (others are clean)"""

    def __init__(self):
        self.cov = {'awg': set(), 'dac': set()}
        self.lost = {'awg': set(), 'dac': set()}

    def kind(self, side, n):
        if n in self.lost[side]:
            return 'lost'
        if n in self.cov[side]:
            return 'covered'
        return 'clean'

    def step(self, case, op, prev, ob):
        """status after operation `op` that took the observed objects from prev to ob (ob['err'] may be set)"""
        kind = op['op']
        masks = case['masks']
        if kind in ('set_channel', 'rm_channel'):
            cid = op['id']
            old = {tuple(x) for x in prev['chmap'].get(cid, [])}
            new = {tuple(x) for x in ob['chmap'].get(cid, [])}
            if old != new:
                self.cov['awg'] |= {n for n, r in prev['regs'].items() if cid in r['chans']}
        elif kind == 'set_measurement':
            nm = op['name']
            old = {tuple(masks[i]) for i in prev['mmap'].get(nm, [])}
            new = {tuple(masks[i]) for i in ob['mmap'].get(nm, [])}
            if old != new:
                self.cov['dac'] |= {n for n, r in prev['regs'].items() if nm in r['meas']}
        elif kind == 'register':
            if ob['err'] is None:
                self.cov['awg'].discard(op['name'])
                self.cov['dac'].discard(op['name'])
        elif kind == 'remove':
            self.cov['awg'].discard(op['name'])
            self.cov['dac'].discard(op['name'])
        elif kind == 'clear':
            known_a = {s[0] for v in prev['chmap'].values() for s in v}
            known_d = {masks[i][0] for v in prev['mmap'].values() for i in v}
            for side, known, key in (('awg', known_a, 'awgs'), ('dac', known_d, 'dacs')):
                for n in self.cov[side]:
                    r = prev['regs'].get(n)
                    if r is None or not set(r[key]) <= known:
                        self.lost[side].add(n)
                self.cov[side] = set()


SIDE = {'awg_stale': 'awg', 'awg_missing': 'awg', 'awg_entry': 'awg', 'record_awg': 'awg',
        'dac_stale': 'dac', 'dac_missing': 'dac', 'dac_entry': 'dac', 'record_dac': 'dac'}


def excused(status, f):
    """Is failure f of the plain routing invariant permitted by the framed invariant (Spec.framed_inv_awg / _dac and
    the framed post-conditions proved in Coq)?  Then it is an instance of known finding C18-rewire-stale."""
    clause, dev, name = f['clause'], f['dev'], f['name']
    if clause in SIDE:                                   # exactness clauses: claimed for clean names only
        return status.kind(SIDE[clause], name) != 'clean'
    if clause == 'awg_armed_stale':                      # armed => held: claimed for every name that is not lost
        return status.kind('awg', name) == 'lost'
    if clause == 'dac_armed_stale':
        return status.kind('dac', name) == 'lost'
    if clause == 'post_gone':                            # removed / cleared name still on a device: only if lost
        return status.kind(dev[0], name) == 'lost'
    if clause == 'post_arm':                             # arm post-condition: claimed for clean names
        return status.kind(dev[0], name) != 'clean'
    if clause == 'post_update':
        return status.kind('awg', name) != 'clean'
    return False                                         # registry, callbacks, logs: never excused


def framed_failures(case, ob, status):
    """the clauses the framed invariant adds for covered names: registered, copies exactly on the recorded devices"""
    out = []
    for side, devs, held, key in (('awg', ob['awgs'], 'progs', 'awgs'), ('dac', ob['dacs'], 'wins', 'dacs')):
        for n in sorted(status.cov[side] - status.lost[side]):
            r = ob['regs'].get(n)
            if r is None:
                out.append(('covered_unregistered', (side, None), n, 'p%d is covered on the %s side but not registered' % (n, side)))
                continue
            holders = sorted(i for i, d in enumerate(devs) if n in d[held])
            if holders != sorted(r[key]):
                out.append(('covered_record', (side, None), n, 'p%d (wiring changed after registration) is held by %s %r '
                            'but its record says %r' % (n, side, holders, sorted(r[key]))))
    return out


def all_failures(case, obs):
    """[{step, clause, dev, name, why, excused}] for every step the specification speaks about"""
    prev = initial_obs(case)
    res = []
    status = Status()
    for k, ob in enumerate(obs['steps']):
        if ob['err'] is not None:
            if state_eq(prev, ob):
                status.step(case, case['ops'][k], prev, ob)
                prev = ob
                continue
            break
        status.step(case, case['ops'][k], prev, ob)
        for (clause, dev, name, why) in post_failures(case, k, prev, ob) + exact_failures(case, ob):
            f = {'step': k, 'clause': clause, 'dev': dev, 'name': name, 'why': why}
            f['excused'] = excused(status, f)
            if f['excused']:
                f['why'] += ' [name is %s: wiring of a name it uses was changed after registration]' % \
                    status.kind(SIDE.get(clause) or (dev[0] if dev else 'awg'), name)
            res.append(f)
        for (clause, dev, name, why) in framed_failures(case, ob, status):
            res.append({'step': k, 'clause': clause, 'dev': dev, 'name': name, 'why': why, 'excused': False})
        prev = ob
    return res


def evaluate(case, obs):
    """first failure; a failure that the framed invariant does not permit comes first if there is one"""
    fs = all_failures(case, obs)
    for f in fs:
        if not f['excused']:
            return f
    return fs[0] if fs else None


def classify(case, obs, first=None):
    """C18-rewire-stale iff every failure is one the framed invariant permits (and there is at least one)"""
    fs = all_failures(case, obs)
    if fs and all(f['excused'] for f in fs):
        return 'C18-rewire-stale'
    return None


def statuses(case, obs):
    """final Status (for histograms)"""
    prev = initial_obs(case)
    status = Status()
    for k, ob in enumerate(obs['steps']):
        if ob['err'] is not None and not state_eq(prev, ob):
            break
        status.step(case, case['ops'][k], prev, ob)
        prev = ob
    return status
