"""C19 helper — the numpy primitives the Gallina model relies on, run on numpy itself.

One case = one primitive applied to one small input, in one of the dtypes the Tabor driver uses (hashes int64,
reference counts uint32 / int64 (after np.concatenate with a python-int array), capacities uint32, segment lengths
uint32 / uint16 / int64, masks bool).  The observation is numpy's own result (as python ints / bools); Corr.prim_corr
compares it with the list model of coq/C19/Model.v + Driver.v, Corr.prim_spec with a specification that does not use the
model's algorithm (permutation + lexicographic order for the stable argsort, counting on the unsorted data for
searchsorted, ...).  A difference in numpy's behaviour is therefore reported on the primitive, not somewhere inside
find_place.
"""
import itertools

from vlib import gZ, gbool, glist

INT_DTYPES = ['int64', 'uint32', 'uint16', 'int32', 'uint64']


def _zl(xs):
    return glist(gZ, xs)


def _bl(xs):
    return glist(gbool, xs)


# ---------------------------------------------------------------------------------------------------------------------
# generation

def _mk(op, dtype='int64', **kw):
    d = {'kind': 'prim', 'op': op, 'dtype': dtype}
    d.update(kw)
    return d


def _all_lists(vals, nmax):
    for n in range(nmax + 1):
        for t in itertools.product(vals, repeat=n):
            yield list(t)


def _rand_list(rng, nmax, vals):
    return [rng.choice(vals) for _ in range(rng.randint(0, nmax))]


def gen(rng, thorough):
    cases = []
    nex = 6 if thorough else 4            # exhaustive length bound (3 key values)
    vals3 = [5, 7, 9]
    # ---- exhaustive: every array over three key values (all tie patterns), every mask
    for a in _all_lists(vals3, nex):
        cases.append(_mk('argsort', rng.choice(INT_DTYPES), a=a))
        cases.append(_mk('search', 'int64', data=a, xs=[4, 5, 6, 7, 8, 9, 10]))
        cases.append(_mk('findpos', 'int64', data=a, xs=[5, 7, 9, 3]))
    for m in _all_lists([False, True], nex + 1):
        cases.append(_mk('flatnonzero', 'bool', m=m))
        if m:
            cases.append(_mk('argmax', 'bool', m=m))
        a = [rng.choice(vals3) for _ in m]
        cases.append(_mk('mask', rng.choice(INT_DTYPES), m=m, a=a))
        cases.append(_mk('sortedpick', rng.choice(INT_DTYPES), m=m, a=a))
        cases.append(_mk('sum16', rng.choice(['uint32', 'uint16', 'int64']), m=m, a=[192 + 16 * x for x in a]))
        v = [100 + k for k in range(sum(m))]
        cases.append(_mk('assignmask', 'int64', w=[-1] * len(m), m=m, v=v))
    for r in _all_lists([0, 1, 2], nex):
        cases.append(_mk('firstfree', rng.choice(['uint32', 'int64']), r=r))
    n = 3
    for idx in _all_lists(list(range(n)), 3 if not thorough else 4):
        cases.append(_mk('incr', rng.choice(['uint32', 'int64']), idx=idx, a=[0, 1, 2]))
    for idx in _all_lists(list(range(-n - 1, n + 1)), 2 if not thorough else 3):
        cases.append(_mk('decrwrap', rng.choice(['uint32', 'int64']), idx=idx, a=[3, 4, 5]))
    # ---- the empty array in every dtype (np.argsort / searchsorted / argmax of nothing)
    for dt in INT_DTYPES:
        cases.append(_mk('argsort', dt, a=[]))
        cases.append(_mk('mask', dt, m=[], a=[]))
        cases.append(_mk('sortedpick', dt, m=[], a=[]))
        cases.append(_mk('sortedpick', dt, m=[False, False], a=[5, 5]))
        cases.append(_mk('take', dt, a=[1, 2, 3], idx=[]))
        cases.append(_mk('sum16', dt, m=[], a=[]))
        cases.append(_mk('sum16', dt, m=[False], a=[192]))
    cases.append(_mk('search', 'int64', data=[], xs=[1, 2]))
    cases.append(_mk('search', 'int64', data=[3, 1], xs=[]))
    cases.append(_mk('findpos', 'int64', data=[], xs=[1]))
    cases.append(_mk('firstfree', 'uint32', r=[]))
    cases.append(_mk('incr', 'uint32', idx=[], a=[1]))
    cases.append(_mk('decrwrap', 'uint32', idx=[], a=[1]))
    cases.append(_mk('assignmask', 'int64', w=[], m=[], v=[]))
    # ---- random, longer (beyond numpy's small-array insertion sort: > 16 elements), many ties, negative hashes
    n_rand = 150 if not thorough else 3000
    for _ in range(n_rand):
        dt = rng.choice(INT_DTYPES)
        lo = -50 if dt.startswith('int') else 0
        big = rng.random() < 0.3
        vals = list(range(lo, lo + rng.choice([3, 6, 40]))) + ([2 ** 31 - 1, 2 ** 16 - 1] if dt in ('int64', 'uint32', 'uint64') and rng.random() < 0.2 else [])
        if dt == 'uint16':
            vals = [v for v in vals if 0 <= v < 2 ** 16 - 16]
        a = _rand_list(rng, 40 if big else 9, vals)
        m = [rng.random() < 0.5 for _ in a]
        op = rng.choice(['argsort', 'sortedpick', 'mask', 'search', 'take', 'sum16', 'flatnonzero', 'argmax', 'firstfree',
                         'incr', 'decrwrap', 'assignmask', 'setat', 'findpos'])
        if op == 'argsort':
            cases.append(_mk(op, dt, a=a))
        elif op == 'sortedpick':
            cases.append(_mk(op, dt, m=m, a=a))
        elif op == 'mask':
            cases.append(_mk(op, dt, m=m, a=a))
        elif op in ('search', 'findpos'):
            if dt == 'uint64':
                dt = 'int64'
            xs = [rng.choice(a) if a and rng.random() < 0.6 else rng.choice(vals or [0]) + rng.choice([-1, 0, 1])
                  for _ in range(rng.randint(0, 6))]
            if not dt.startswith('int'):
                xs = [max(x, 0) for x in xs]
            cases.append(_mk(op, dt, data=a, xs=xs))
        elif op == 'take':
            idx = [rng.randrange(len(a)) for _ in range(rng.randint(0, 8))] if a else []
            cases.append(_mk(op, dt, a=a, idx=idx))
        elif op == 'sum16':
            cases.append(_mk(op, dt if dt != 'int32' else 'uint32', m=m, a=[abs(x) % 60000 for x in a]))
        elif op == 'flatnonzero':
            cases.append(_mk(op, 'bool', m=m))
        elif op == 'argmax':
            if m:
                cases.append(_mk(op, 'bool', m=m))
        elif op == 'firstfree':
            cases.append(_mk(op, rng.choice(['uint32', 'int64']), r=[rng.choice([0, 0, 1, 3]) for _ in a]))
        elif op == 'incr':
            b = [abs(x) % 5 for x in a] or [1]
            cases.append(_mk(op, rng.choice(['uint32', 'int64']), idx=[rng.randrange(len(b)) for _ in range(rng.randint(0, 6))], a=b))
        elif op == 'decrwrap':
            b = [1 + abs(x) % 5 for x in a] or [1]
            k = len(b)
            cases.append(_mk(op, rng.choice(['uint32', 'int64']),
                             idx=[rng.randint(-k - 1, k) for _ in range(rng.randint(0, 5))], a=b))
        elif op == 'assignmask':
            cases.append(_mk(op, 'int64', w=[-1 if rng.random() < 0.7 else x for x in range(len(m))], m=m,
                             v=[50 + k for k in range(sum(m))]))
        elif op == 'setat':
            if a:
                cases.append(_mk(op, dt, a=a, i=rng.randrange(len(a)), v=abs(rng.choice(a)) % 200))
    return cases


# ---------------------------------------------------------------------------------------------------------------------
# numpy

def run(case):
    import numpy as np
    op, dt = case['op'], case['dtype']

    def arr(xs, d=None):
        return np.asarray(xs, dtype=(d or dt)) if len(xs) else np.zeros(0, dtype=(d or dt))

    def ints(x):
        return [int(v) for v in np.asarray(x).tolist()]
    if op == 'argsort':
        return {'out': ints(np.argsort(arr(case['a']), kind='stable'))}
    if op == 'sortedpick':
        m, a = arr(case['m'], bool), arr(case['a'])
        return {'out': ints(np.flatnonzero(m)[np.argsort(a[m], kind='stable')[::-1]])}
    if op == 'flatnonzero':
        return {'out': ints(np.flatnonzero(arr(case['m'], bool)))}
    if op == 'mask':
        return {'out': ints(arr(case['a'])[arr(case['m'], bool)])}
    if op == 'take':
        return {'out': ints(arr(case['a'])[arr(case['idx'], 'int64')])}
    if op == 'search':
        data, xs = arr(case['data']), arr(case['xs'])
        sorter = np.argsort(data, kind='stable')
        return {'outl': ints(np.searchsorted(data, xs, side='left', sorter=sorter)),
                'outr': ints(np.searchsorted(data, xs, side='right', sorter=sorter))}
    if op == 'findpos':
        from qupulse.hardware.util import find_positions
        return {'out': ints(find_positions(arr(case['data']), arr(case['xs'])))}
    if op == 'argmax':
        m = arr(case['m'], bool)
        return {'out': int(np.argmax(m)), 'outrev': int(np.argmax(m[::-1]))}
    if op == 'incr':
        a = arr(case['a'])
        a[arr(case['idx'], 'int64')] += 1
        return {'out': ints(a)}
    if op == 'decrwrap':
        a = arr(case['a'], 'int64' if dt == 'int64' else dt)
        try:
            a[arr(case['idx'], 'int64')] -= 1
        except IndexError:
            return {'out': None}
        return {'out': ints(a)}
    if op == 'sum16':
        a, m = arr(case['a']), arr(case['m'], bool)
        return {'out': int(np.sum(a[m] + 16))}
    if op == 'assignmask':
        w = arr(case['w'], 'int64')
        w[arr(case['m'], bool)] = arr(case['v'], 'int64')
        return {'out': ints(w)}
    if op == 'firstfree':
        r = arr(case['r'])
        reserved = np.flatnonzero(r > 0)
        ff = reserved[-1] + 1 if len(reserved) else 0
        return {'out': int(ff), 'outslice': ints(r[:ff])}
    if op == 'setat':
        a = arr(case['a'])
        a[case['i']] = case['v']
        return {'out': ints(a)}
    raise ValueError(op)


def to_coq(case, obs):
    op = case['op']
    if op == 'argsort':
        return '(CPrim (PArgsort %s %s))' % (_zl(case['a']), _zl(obs['out']))
    if op == 'sortedpick':
        return '(CPrim (PSortedPick %s %s %s))' % (_bl(case['m']), _zl(case['a']), _zl(obs['out']))
    if op == 'flatnonzero':
        return '(CPrim (PFlatnonzero %s %s))' % (_bl(case['m']), _zl(obs['out']))
    if op == 'mask':
        return '(CPrim (PMask %s %s %s))' % (_bl(case['m']), _zl(case['a']), _zl(obs['out']))
    if op == 'take':
        return '(CPrim (PTake %s %s %s))' % (_zl(case['a']), _zl(case['idx']), _zl(obs['out']))
    if op == 'search':
        return '(CPrim (PSearch %s %s %s %s))' % (_zl(case['data']), _zl(case['xs']), _zl(obs['outl']), _zl(obs['outr']))
    if op == 'findpos':
        return '(CPrim (PFindPositions %s %s %s))' % (_zl(case['data']), _zl(case['xs']), _zl(obs['out']))
    if op == 'argmax':
        return '(CPrim (PArgmax %s %s %s))' % (_bl(case['m']), gZ(obs['out']), gZ(obs['outrev']))
    if op == 'incr':
        return '(CPrim (PIncr %s %s %s))' % (_zl(case['idx']), _zl(case['a']), _zl(obs['out']))
    if op == 'decrwrap':
        out = 'None' if obs['out'] is None else '(Some %s)' % _zl(obs['out'])
        return '(CPrim (PDecrWrap %s %s %s))' % (_zl(case['idx']), _zl(case['a']), out)
    if op == 'sum16':
        return '(CPrim (PSum16 %s %s %s))' % (_bl(case['m']), _zl(case['a']), gZ(obs['out']))
    if op == 'assignmask':
        return '(CPrim (PAssignMask %s %s %s %s))' % (_zl(case['w']), _bl(case['m']), _zl(case['v']), _zl(obs['out']))
    if op == 'firstfree':
        return '(CPrim (PFirstFree %s %s %s))' % (_zl(case['r']), gZ(obs['out']), _zl(obs['outslice']))
    if op == 'setat':
        return '(CPrim (PSetAt %s %s %s %s))' % (_zl(case['a']), gZ(case['i']), gZ(case['v']), _zl(obs['out']))
    raise ValueError(op)


def keys(case, obs):
    ks = ['prim', 'prim:%s' % case['op'], 'prim:dtype:%s' % case['dtype']]
    main = case.get('a', case.get('data', case.get('m', case.get('r', case.get('w', [])))))
    ks.append('prim:len:%s' % ('0' if not main else '1-4' if len(main) <= 4 else '5-16' if len(main) <= 16 else '>16'))
    if case['op'] in ('argsort', 'sortedpick', 'search', 'findpos') and len(set(main)) < len(main):
        ks.append('prim:ties')
    return ks
