"""C18 — the hardware setup routes every program to exactly the right devices.

A case = device configuration (2-3 DummyAWGs, 2 DummyDACs, a pool of MeasurementMask objects) + a history of public
HardwareSetup operations.  run_impl replays the history on the real objects and records, after every call, the wiring,
registered_programs, every AWG's uploaded programs/tuples/armed program, every DAC's windows/armed program and the
error kind if the call raised.  Coq steps the model along the same history (check_corr) and evaluates the routing
specification on the recorded observations (check_spec); `py_spec` is an independent Python evaluation of the same
specification that also names the violated clause (used by classify).
"""
import itertools
import os
import warnings
from fractions import Fraction as F

import vlib
from vlib import gZ, gN, gbool, gopt, glist

from props import c18_spec as S

PID = 'C18'
COQ_DIRS = ['common', 'C18']
TARGETS = ['C18/Props.vo', 'C18/Corr.vo', 'C18/CorrHeap.vo']
MODEL_TARGETS = ['C18/Corr.vo', 'C18/CorrHeap.vo']
PROPS_FILE = 'C18/Props.v'
PROPS_MODULE = 'QV.C18.Props'
CORR_IMPORTS = ['QV.C18.Model', 'QV.C18.Spec', 'QV.C18.Corr', 'QV.C18.Heap', 'QV.C18.CorrHeap']
# round 6: a case also carries the heap events (new Loop objects, attached windows, which object a registration was given);
# check_corr_h = Corr.check_corr && CorrHeap.check_heap (the heap model's _take_measurements predicts the registered windows)
CASE_TYPE = 'hcase'
CHECK_CORR = 'check_corr_h'
CHECK_SPEC = 'check_spec_h'
SHARD = 40
PRELUDE = ('Notation SC := Build_sch. Notation MK := Build_mask. Notation PG := Build_prog. Notation AE := Build_awg_entry.\n'
           'Notation AS := Build_awg_st. Notation DS := Build_dac_st. Notation RG := Build_reg. Notation OB := Build_obs.\n')
RULE = ('histories of set_channel / set_measurement / rm_channel / register_program (update, explicit measurements, '
        'non-callable callback) / remove_program / clear_programs / arm_program / run_program / update_parameters on a '
        'real HardwareSetup with 2-3 DummyAWGs (1-4 channels, 0-3 markers) and 1-2 DummyDACs; channel ids str, int '
        '(0 included) or mixed; wirings with several outputs per name and several names per output/mask, two mask '
        'objects for one (dac, mask); programs are real Loops (leaf or two-leaf sequence with repetition) over '
        'constant waveforms.  Every device method is wrapped: the state each device was told must equal its private '
        'attributes and public properties after every call.  Streams: all histories of length <= 2 (quick; + 20% of 3) / '
        '<= 4 complete (thorough) over a 10-op alphabet on 2 AWGs x 1 DAC, scenario histories (names spread over all devices, program operations only), guard-respecting histories (no re-wiring of used names, updates keep the device '
        'set), free histories (everything), malformed arguments, targeted defect shapes; thorough adds all histories of '
        'length <= 3 over a fixed alphabet after a fixed wiring.  Object identity (round 3): a pool of Loop objects reused '
        'across register_program calls (same object again under the same name with / without update, under two names, a '
        'structurally equal twin, explicit measurements on re-use, a raising call that already dropped the measurements), '
        'hardware channel objects reused across set_channel calls, wiring changes INSIDE participating generators (output '
        'moved, outputs of two ids swapped, other transformation, extra output / marker, one of two outputs dropped) '
        'between registration and re-registration: identity stream, targeted-identity, exhaustive-identity (all histories '
        '<= 2 + 8% of 3 in quick, <= 3 + 35% of 4 in thorough over an 11-letter alphabet with two pooled objects).  '
        'Round 4: targeted-multimask (one program reaching one acquisition device through more than one mask in four wiring '
        'shapes; re-registration with fewer masks on a device that keeps participating), targeted-malformed (index = size in '
        'both constructors, non-iterable arguments for new / wired names, non-channel element whose hash collides with a '
        'wired channel), same Loop object again after a call that raised AFTER taking its measurements (unknown '
        'measurement -> set_measurement -> retry; ProgramOverwriteException -> update=True), measurements attached to an '
        'object between registrations.  '
        'Round 5: targeted-ephemeral + ephemeral (Loop objects that die - removed / replaced by update / cleared / after a '
        'raising call - and NEW objects allocated at the address of a dead one: the setup keys its memory of taken '
        'measurements by id(); before, the harness kept every Loop alive), post-conditions for COVERED names made '
        'deterministic (update_parameters / arm / remove after the generator of a used id moved or was un-wired) and the '
        'acquisition-side twin "the only mask of a recorded device is moved away" (device leaves known_dacs while it holds '
        'the windows).  '
        'Round 6: every case carries its heap events (new Loop object with the windows it was built with, windows attached '
        'later, the object handed to each register_program); Coq replays them on Heap.v and compares what _take_measurements '
        'must return with the twin\'s windows and with the record of the real setup (check_corr_h = check_corr && check_heap).  '
        'Known finding vs VIOLATION is decided in coqc: known iff Corr.check_plain rejects AND Corr.check_framed accepts.  Non-trivial = at least one registration returned '
        'normally and one later operation touched devices; distinct = canonical JSON of the case.')
TRUSTED = [
    'Coq 8.16.1 kernel + vm_compute (no native_compute)',
    'harness: generators, observation of the dummy devices through their attributes (_programs, _armed, '
    '_measurement_windows, armed_program) cross-checked after every call against what the devices were told through '
    'the AWG/DAC interface and against AWG.programs / known_awgs / known_dacs; HardwareSetup.registered_channels(), '
    '._measurement_map, .registered_programs; DummyAWG.set_volatile_parameters replaced by a recorder',
    'classification of specification failures (known finding vs VIOLATION) is Corr.check_plain / check_framed evaluated by '
    'coqc (known iff plain rejects and framed accepts; a failure only the Python mirror sees is a VIOLATION); its '
    'status tracker otrack_awg / otrack_dac is proved equal to Spec.track_awg / track_dac on the model\'s views; the Python '
    'mirror in c18_spec.py only words messages, histograms and guides shrinking',
    'iteration order of Python sets / dicts inside register_program is not modelled: the channel order, measurement '
    'order and AWG upload order of each call are inputs of the model step; the harness picks an order that explains the '
    'recorded outcome (winner of several names wired to one output / mask), upload order is observed by wrapping upload',
    '"the program\'s own windows" = Loop.get_measurement_windows() (property C02) of a structurally equal twin object '
    'that is never handed to the setup (+ whatever the harness attached to both later); explicit `measurements=` if given.  '
    'In Model.v they are an INPUT of register_program (p_meas).  Round 6: Heap.v models the setup\'s per-object memory of what '
    'it took out of a Loop (_take_measurements, repair bc650d0) on a heap with object death and address reuse; '
    'C18_take_own_windows / C18_register_own_windows prove that p_meas is everything ever attached to the object, for all '
    'histories.  Trusted there: a Loop\'s attached windows are a dictionary name -> (begins, lengths) that grows by '
    'appending (root-level add_measurements on a leaf; the windows added are read off the twin in absolute terms), CPython '
    'never gives two live objects one id(), a weak reference to a dead object returns None; CorrHeap.check_heap compares the '
    'heap model\'s prediction with the twin and with the record the real setup holds after every registration that took '
    'the measurements out of the object (object deaths are not reported to Coq: the theorem makes the result independent of them)',
    'Spec.v / Corr.check_spec share with Model.v only data types, association-list helpers (lookup, has_key, keys, '
    'remove_key, get_set, memN, nodupN), known_awgs / known_dacs (= the devices occurring in the wiring maps), py_index '
    '(Python negative indexing) and the empty initial state; check_spec never calls a model operation (step, '
    'register_program, ...)',
    'Python semantics of dict/set/list indexing as mirrored in coq/C18/Model.v',
]
ASSUMPTIONS = [
    'devices are DummyAWG / DummyDAC (the real drivers are not importable offline); device methods do not raise '
    'except DummyAWG.upload (ProgramOverwriteException)',
    'a Loop object may be handed to several register_program calls (pool); "the program\'s own windows" are everything '
    'that was ever attached to that object - NOT what is left on it after the setup took the measurements out '
    '(round 4: the old reading made the loss of windows on re-registration of the same object invisible; repaired in '
    '/repo bc650d0)',
    'the plain routing invariant (check_plain) is evaluated on histories of calls that returned normally; calls that raised '
    'without any observable effect are skipped, after a call that raised with an effect check_plain is silent; the framed '
    'invariant (check_framed, proved for histories with raising calls) keeps being evaluated',
]

CH = 'ABCDEFGH'
ERRS = {'TypeError': 'ETypeError', 'KeyError': 'EKeyError', 'ValueError': 'EValueError', 'IndexError': 'EIndexError',
        'ProgramOverwriteException': 'EOverwrite'}


# ---------------------------------------------------------------------------------------------------------------------
# running the implementation

class _Ctx:
    pass


class _OrderAmbiguous(Exception):
    """the outcome of the next register_program depends on the iteration order inside one id's channel set"""


_ANY = object()      # shadow state: "the interface does not say"


class _Collide:
    """not a hardware channel, hashes like one (equality = identity)"""
    def __init__(self, h):
        self.h = h

    def __hash__(self):
        return self.h


def _mk_program(pd):
    from qupulse.program.loop import Loop
    from qupulse.program.waveforms import ConstantWaveform
    names = pd.get('_ids') or CH
    wf = ConstantWaveform.from_mapping(4, {names[c]: 0.5 for c in pd['chans']})
    ms = [('m%d' % n, b, l) for n, b, l in pd['meas']]
    if pd.get('shape', 'leaf') == 'leaf':
        return Loop(waveform=wf, measurements=ms or None, repetition_count=pd.get('rep', 1))
    half = len(ms) // 2
    return Loop(children=[Loop(waveform=wf, measurements=ms[:half] or None),
                          Loop(waveform=wf, measurements=ms[half:] or None, repetition_count=2)],
                repetition_count=pd.get('rep', 1))


def _wins(bl):
    b, l = bl
    return [[vlib.frac_json(x) for x in b], [vlib.frac_json(x) for x in l]]


def consistent_order(base, before):
    """stable topological order of `base` under the constraints {(x, y): x must come before y}; None if cyclic"""
    rest, out = list(base), []
    while rest:
        for x in rest:
            if not any((y, x) in before for y in rest if y != x):
                out.append(x)
                rest.remove(x)
                break
        else:
            return None
    return out


def resolve_hints(case, hint, st, name):
    """Which of several program channels wired to one output (several measurements wired to one mask) ends up in the
    uploaded tuple depends on set / dict iteration order inside register_program.  That order is not part of the
    property; the model takes it as an input, chosen here so that it explains the recorded outcome (if any order does)."""
    dims, masks = case['awgs'], case['masks']
    before = set()
    for a, ast in enumerate(st['awgs']):
        e = ast['progs'].get(name)
        if e is None:
            continue
        for marker, tup in ((False, e['ch']), (True, e['mk'])):
            for i, w in enumerate(tup):
                if w is None:
                    continue
                for c in hint['chan_order']:
                    if c != w and any(S.at_pos(dims, s, a, marker, i) for s in st['chmap'].get(c, [])):
                        before.add((c, w))       # the winner is written last
    order = consistent_order(hint['chan_order'], before)
    if order is not None:
        hint['chan_order'] = order
    before = set()
    own = {m[0]: m for m in hint['meas']}
    for d, dst in enumerate(st['dacs']):
        for mk, w in dst['wins'].get(name, {}).items():
            cands = [n for n in own if any(masks[i][0] == d and masks[i][1] == mk for i in st['mmap'].get(n, []))]
            winners = [n for n in cands if S.wins_eq(own[n][1:], w)]
            if len(winners) >= 1:
                for n in cands:
                    if n not in winners:
                        before.add((winners[0], n))   # the first measurement in dict order wins
    names = consistent_order([m[0] for m in hint['meas']], before)
    if names is not None:
        hint['meas'] = [own[n] for n in names]


def run_impl(case):
    try:
        with vlib.time_limit(20):
            with warnings.catch_warnings():
                warnings.simplefilter('ignore')
                return _run(case)
    except vlib.Timeout:
        return {'hang': True}
    except Exception as e:   # anything the harness did not foresee
        import traceback
        return {'crash': '%s: %s | %s' % (type(e).__name__, e, traceback.format_exc()[-400:])}


def _run(case):
    import numpy as np
    from qupulse.hardware.setup import HardwareSetup, PlaybackChannel, MarkerChannel, MeasurementMask
    from qupulse.hardware.awgs.dummy import DummyAWG
    from qupulse.hardware.dacs.dummy import DummyDAC

    IDS = list(case.get('ids') or CH)      # model channel id -> Python channel id (str or int, 0 included)
    awgs = [DummyAWG(num_channels=nc, num_markers=nm) for nc, nm in case['awgs']]
    dacs = [DummyDAC() for _ in range(case['ndacs'])]
    masks = [MeasurementMask(dacs[d], 'K%d' % k) for d, k in case['masks']]
    awg_ix = {id(a): i for i, a in enumerate(awgs)}
    dac_ix = {id(d): i for i, d in enumerate(dacs)}
    mask_ix = {id(m): i for i, m in enumerate(masks)}
    default_trafo = PlaybackChannel.__init__.__defaults__[0]
    trafos = {0: default_trafo}
    for k in range(1, 6):
        trafos[k] = (lambda kk: (lambda x: x * kk))(k)
    trafo_ix = {id(f): k for k, f in trafos.items()}
    progs = {}           # id(Loop) -> tag  (objects kept alive in `keep`)
    keep = []
    twins = {}           # id(Loop) -> structurally equal Loop that is never registered (keeps the measurements)
    pool = {}            # pool key -> Loop object that is handed to several register_program calls (object identity)
    chpool = {}          # (awg, index, marker, trafo) -> hardware channel object reused across calls (case['chpool'])
    cblog = []
    upload_log = []
    oid_of = {}          # id(Loop) -> identity of the object in the Coq heap model (round 6; never reused)
    n_objs = [0]
    dead_ids = []        # ids of `ephemeral` Loop objects (not kept alive by the harness: they die as soon as the setup
    reused = [0]         # and the devices drop them); `reuse`: the next object is allocated at such an address if possible

    vollog = []
    # Second observation path: what every device was TOLD through the public AWG / DAC interface (upload / remove /
    # clear / arm, register_measurement_windows / delete_program / clear / arm_program).  The shadow state derived from
    # these calls must agree with the dummies' private attributes and with the public AWG.programs / DAC.armed_program.
    sh_awg = [{'progs': {}, 'armed': None} for _ in awgs]
    sh_dac = [{'wins': {}, 'armed': None} for _ in dacs]

    def wrap_awg(i, a):
        o_upload, o_remove, o_clear, o_arm = a.upload, a.remove, a.clear, a.arm
        sh = sh_awg[i]

        def upload(name, program, channels, markers, voltage_transformation, force=False):
            upload_log.append(i)
            r = o_upload(name, program, channels, markers, voltage_transformation, force)   # may raise
            sh['progs'].pop(name, None)
            sh['progs'][name] = (program, channels, markers, voltage_transformation)
            return r

        def remove(name):
            r = o_remove(name)
            sh['progs'].pop(name, None)
            return r

        def clear():
            r = o_clear()
            sh['progs'].clear()
            sh['armed'] = None
            return r

        def arm(name):
            r = o_arm(name)
            sh['armed'] = name
            return r

        def set_volatile_parameters(program_name, parameters):
            if not (vollog and vollog[0][3]):
                raise RuntimeError('set_volatile_parameters outside update_parameters')
            if program_name != vollog[0][4] or parameters is not vollog[0][5]:
                raise RuntimeError('set_volatile_parameters got other arguments than update_parameters')
            vollog[0][2].append(i)
        a.upload, a.remove, a.clear, a.arm, a.set_volatile_parameters = upload, remove, clear, arm, set_volatile_parameters

    def wrap_dac(i, d):
        o_reg, o_del, o_clear, o_arm = d.register_measurement_windows, d.delete_program, d.clear, d.arm_program
        sh = sh_dac[i]

        def register_measurement_windows(program_name, windows):
            r = o_reg(program_name, windows)
            sh['wins'][program_name] = windows
            return r

        def delete_program(program_name):
            r = o_del(program_name)
            sh['wins'].pop(program_name, None)
            if sh['armed'] == program_name:
                # Round 5: whether the device is still armed after it was told to delete the armed program is what the
                # SPECIFICATION judges (armed => holds windows), not the harness: a device that stays armed (seed C18-8)
                # used to be reported as an observation mismatch (harness crash) instead of a property violation
                sh['armed'] = _ANY
            return r

        def clear():
            r = o_clear()
            sh['wins'].clear()
            sh['armed'] = None
            return r

        def arm_program(program_name):
            r = o_arm(program_name)
            sh['armed'] = program_name
            return r
        d.register_measurement_windows, d.delete_program, d.clear, d.arm_program = \
            register_measurement_windows, delete_program, clear, arm_program

    for i, a in enumerate(awgs):
        wrap_awg(i, a)
    for i, d in enumerate(dacs):
        wrap_dac(i, d)

    class ObservationMismatch(Exception):
        pass

    def check_public():
        for i, a in enumerate(awgs):
            if set(a.programs) != set(a._programs) or set(sh_awg[i]['progs']) != set(a._programs):
                raise ObservationMismatch('AWG %d: programs property %r, _programs %r, told %r'
                                          % (i, sorted(a.programs), sorted(a._programs), sorted(sh_awg[i]['progs'])))
            for n, t in a._programs.items():
                u = sh_awg[i]['progs'][n]
                if t[0] is not u[0] or tuple(t[1]) != tuple(u[1]) or tuple(t[2]) != tuple(u[2]) or \
                        len(t[3]) != len(u[3]) or any(x is not y for x, y in zip(t[3], u[3])):
                    raise ObservationMismatch('AWG %d holds %r for %s but was told %r' % (i, t, n, u))
            if a._armed != sh_awg[i]['armed']:
                raise ObservationMismatch('AWG %d: _armed %r, told %r' % (i, a._armed, sh_awg[i]['armed']))
        for i, d in enumerate(dacs):
            if d.armed_program != d._armed_program or (sh_dac[i]['armed'] is not _ANY and d.armed_program != sh_dac[i]['armed']):
                raise ObservationMismatch('DAC %d: armed_program %r, _armed_program %r, told %r'
                                          % (i, d.armed_program, d._armed_program, sh_dac[i]['armed']))
            # Which programs the device holds must be what it was told; WHAT it holds per program is the observation the
            # specification judges (a device may keep its own copy of the dict; one that merges instead of replacing -
            # seed C18-5 - is a property violation, not an observation mismatch)
            if set(d._measurement_windows) != set(sh_dac[i]['wins']):
                raise ObservationMismatch('DAC %d holds windows for %r but was told %r'
                                          % (i, sorted(d._measurement_windows), sorted(sh_dac[i]['wins'])))
        ka = {s.awg for chans in setup.registered_channels().values() for s in chans}
        if set(setup.known_awgs) != ka:
            raise ObservationMismatch('known_awgs is not the set of generators of registered_channels()')
        kd = {m.dac for ms in setup._measurement_map.values() for m in ms}
        if set(setup.known_dacs) != kd:
            raise ObservationMismatch('known_dacs is not the set of devices of the measurement map')
        if setup.registered_programs is not setup._registered_programs or \
                setup.registered_channels() is not setup._channel_map:
            raise ObservationMismatch('registered_programs / registered_channels() are not the private maps')

    def mk_cb(tag):
        def cb():
            cblog.append(tag)
        cb.tag = tag
        return cb

    setup = HardwareSetup()

    def mk_channel(c):
        if case.get('chpool'):
            key = tuple(c)
            if key not in chpool:
                chpool[key] = mk_channel_fresh(c)       # a raising constructor is not cached
            return chpool[key]
        return mk_channel_fresh(c)

    def mk_channel_fresh(c):
        a, idx, marker, tr = c
        if marker:
            return MarkerChannel(awgs[a], idx)
        if tr == 0:
            return PlaybackChannel(awgs[a], idx)
        return PlaybackChannel(awgs[a], idx, trafos[tr])

    def id_index(x):
        for i, y in enumerate(IDS):
            if type(x) is type(y) and x == y:
                return i
        raise ValueError('unknown channel id %r' % (x,))

    def chan_id(x):
        return None if x is None else id_index(x)

    def snapshot(err):
        cm = {}
        for cid, chans in setup.registered_channels().items():
            cm[id_index(cid)] = sorted([awg_ix[id(s.awg)], int(s.channel_on_awg), isinstance(s, MarkerChannel),
                                        0 if isinstance(s, MarkerChannel) else trafo_ix[id(s.voltage_transformation)]]
                                       for s in chans)
        mm = {int(n[1:]): sorted(mask_ix[id(m)] for m in ms) for n, ms in setup._measurement_map.items()}
        regs = {}
        for n, r in setup.registered_programs.items():
            first = next(r.program.get_depth_first_iterator())
            regs[int(n[1:])] = {'tag': progs[id(r.program)],
                                'chans': sorted(id_index(c) for c in first.waveform.defined_channels),
                                'meas': {int(k[1:]): _wins(v) for k, v in r.measurement_windows.items()},
                                'cb': r.run_callback.tag,
                                'awgs': sorted(awg_ix[id(a)] for a in r.awgs_to_upload_to),
                                'dacs': sorted(dac_ix[id(d)] for d in r.dacs_to_arm)}
        oa = []
        for a in awgs:
            pr = {}
            for n, (p, chs, mks, vts) in a._programs.items():
                pr[int(n[1:])] = {'tag': progs[id(p)], 'ch': [chan_id(x) for x in chs], 'mk': [chan_id(x) for x in mks],
                                  'vt': [None if f is None else trafo_ix[id(f)] for f in vts]}
            oa.append({'progs': pr, 'armed': None if a._armed is None else int(a._armed[1:])})
        od = []
        for d in dacs:
            od.append({'wins': {int(n[1:]): {int(k[1:]): _wins(v) for k, v in w.items()}
                                for n, w in d._measurement_windows.items()},
                       'armed': None if d.armed_program is None else int(d.armed_program[1:])})
        check_public()
        return {'err': err, 'chmap': cm, 'mmap': mm, 'regs': regs, 'awgs': oa, 'dacs': od, 'cblog': list(reversed(cblog)),
                'vollog': [[e[0], e[1], sorted(e[2])] for e in vollog]}

    steps = []
    for op in case['ops']:
        k = op['op']
        hint = None
        err = None
        try:
            if k == 'set_channel':
                a = op['arg']
                if a['k'] == 'single':
                    arg = mk_channel(a['ch'])
                elif a['k'] == 'many':
                    arg = [mk_channel(c) for c in a['chs']]
                    if a.get('junk') == 'hash':
                        # not a channel, but its hash collides with a hardware channel that is wired under another id
                        # (or with the first channel of this call): set operations then ask _SingleChannel.__eq__
                        other = [s for cid, chans in setup.registered_channels().items() if cid != IDS[op['id']] for s in chans]
                        arg.insert(len(arg) // 2, _Collide(hash(other[0] if other else arg[0])))
                    elif a.get('junk') == 'hashself':
                        arg.insert(len(arg) // 2, _Collide(hash(arg[0])))
                    elif a.get('junk'):
                        arg.insert(len(arg) // 2, 'not a channel')
                    if a.get('as_set'):
                        arg = set(arg)
                else:
                    arg = 7
                setup.set_channel(IDS[op['id']], arg, allow_multiple_registration=op['allow']) if op['allow'] else \
                    setup.set_channel(IDS[op['id']], arg)
            elif k == 'set_measurement':
                a = op['arg']
                if a['k'] == 'single':
                    arg = masks[a['mask']]
                elif a['k'] == 'many':
                    arg = [masks[i] for i in a['masks']]
                else:
                    arg = 7
                setup.set_measurement('m%d' % op['name'], arg, allow_multiple_registration=op['allow']) if op['allow'] \
                    else setup.set_measurement('m%d' % op['name'], arg)
            elif k == 'rm_channel':
                setup.rm_channel(IDS[op['id']])
            elif k == 'register':
                pd = op['prog']
                heap_ev = []
                if pd.get('obj') is not None and pd['obj'] in pool:
                    program = pool[pd['obj']]          # the very same Loop object again (register_program has taken
                    if progs[id(program)] != pd['tag']:   # the measurements out of it)
                        raise RuntimeError('generator: pooled program object with two tags')
                else:
                    program = None
                    if op.get('reuse') and dead_ids:
                        # Round 5: a NEW object at the address of a dead one (CPython hands a freed block out again):
                        # whatever the setup remembers about the dead object by id() must not leak into this one
                        # (no gc.collect(): Loop trees have no reference cycles - parents are weak references - so a dead
                        # object is freed at once; a full collection per call made the thorough tier quadratic)
                        junk = []
                        for _ in range(48):
                            cand = _mk_program(dict(pd, _ids=IDS))
                            if id(cand) in dead_ids and not any(id(cand) == id(x) for x in keep):
                                program = cand
                                reused[0] += 1
                                break
                            junk.append(cand)
                        del junk
                    if program is None:
                        program = _mk_program(dict(pd, _ids=IDS))
                    if op.get('ephemeral'):
                        dead_ids.append(id(program))
                    else:
                        keep.append(program)
                    progs[id(program)] = pd['tag']
                    # "the program's own windows" = everything that was ever attached to this object.  They are read off a
                    # twin that is never handed to the setup (the setup strips the object it is given).
                    twins[id(program)] = _mk_program(dict(pd, _ids=IDS))
                    n_objs[0] += 1
                    oid_of[id(program)] = n_objs[0]
                    heap_ev.append(['alloc', n_objs[0]])
                    for n, v in twins[id(program)].get_measurement_windows().items():
                        heap_ev.append(['attach', n_objs[0], int(n[1:])] + _wins(v))
                    if pd.get('obj') is not None:
                        pool[pd['obj']] = program
                if op.get('attach'):
                    # the user attaches further measurements to an object (possibly one the setup has stripped before)
                    if pd.get('shape', 'leaf') != 'leaf' or pd.get('rep', 1) != 1:
                        raise RuntimeError('generator: attach only for a leaf program played once (window order)')
                    before = {n: len(v[0]) for n, v in twins[id(program)].get_measurement_windows().items()}
                    for target in (program, twins[id(program)]):
                        target.add_measurements([('m%d' % n, b, l) for n, b, l in op['attach']])
                    # heap event = the windows that were added in absolute terms (Loop.add_measurements offsets them by the
                    # body duration): what the twin has now beyond what it had before
                    after = twins[id(program)].get_measurement_windows()
                    for n in dict.fromkeys('m%d' % a[0] for a in op['attach']):
                        k = before.get(n, 0)
                        heap_ev.append(['attach', oid_of[id(program)], int(n[1:])] + _wins((after[n][0][k:], after[n][1][k:])))
                first = next(program.get_depth_first_iterator())
                chan_order = [id_index(c) for c in first.waveform.defined_channels]
                kwargs = {}
                if op.get('explicit') is not None:
                    meas = {'m%d' % n: (np.array(b, dtype=float), np.array(l, dtype=float)) for n, b, l in op['explicit']}
                    kwargs['measurements'] = meas
                    own = [[n, _wins((b, l))[0], _wins((b, l))[1]] for n, b, l in op['explicit']]
                else:
                    own = [[int(n[1:])] + _wins(v) for n, v in twins[id(program)].get_measurement_windows().items()]
                if op.get('update'):
                    kwargs['update'] = True
                if op.get('cb', True):
                    kwargs['run_callback'] = mk_cb(op.get('cbtag', pd['tag']))
                elif op.get('cb') is False:
                    kwargs['run_callback'] = 'not callable'
                wired = []
                for c in chan_order:
                    slot_trafo = {}
                    for s in setup.registered_channels().get(IDS[c], ()):
                        ai = awg_ix.get(id(getattr(s, 'awg', None)))
                        if ai is not None and ai not in wired:
                            wired.append(ai)
                        if ai is not None:
                            # Round 5 (false alarm, seed 2): two members of ONE id's channel set that denote the same output
                            # (index j and j - n) with different transformations: which one ends up in the uploaded tuple
                            # depends on the iteration order of that Python set (hash of id(awg), i.e. on memory addresses).
                            # The model iterates in insertion order and has no input for this order; the specification
                            # accepts either.  The history is cut before such a call.
                            mk = isinstance(s, MarkerChannel)
                            pos = S.norm_idx(case['awgs'][ai][1 if mk else 0], int(s.channel_on_awg))
                            tr = None if mk else trafo_ix[id(s.voltage_transformation)]
                            if pos is not None and slot_trafo.setdefault((ai, mk, pos), tr) != tr:
                                raise _OrderAmbiguous()
                del upload_log[:]
                hint = {'chan_order': chan_order, 'meas': own, 'awg_order': None,
                        'heap': {'ev': heap_ev, 'who': None if op.get('explicit') is not None else oid_of[id(program)]}}
                try:
                    setup.register_program('p%d' % op['name'], program, **kwargs)
                finally:
                    order = []
                    for ai in upload_log:
                        if ai not in order:
                            order.append(ai)
                    hint['awg_order'] = order + [ai for ai in sorted(wired) if ai not in order]
            elif k == 'remove':
                setup.remove_program('p%d' % op['name'])
            elif k == 'clear':
                setup.clear_programs()
            elif k == 'arm':
                setup.arm_program('p%d' % op['name'])
            elif k == 'run':
                setup.run_program('p%d' % op['name'])
            elif k == 'update_params':
                params = {'x': float(op['ptag'])}
                entry = [op['name'], op['ptag'], [], True, 'p%d' % op['name'], params]
                vollog.insert(0, entry)
                try:
                    setup.update_parameters('p%d' % op['name'], params)
                except BaseException:
                    vollog.pop(0)          # the model logs nothing for a call that raised
                    raise
                finally:
                    entry[3] = False
            else:
                raise RuntimeError('unknown op %r' % k)
        except _OrderAmbiguous:
            return {'steps': steps, 'truncated': True}
        except (TypeError, KeyError, ValueError, IndexError) as e:
            err = type(e).__name__
        except Exception as e:
            if type(e).__name__ == 'ProgramOverwriteException':
                err = 'ProgramOverwriteException'
            else:
                raise
        program = first = None     # an ephemeral object must not be kept alive by these locals
        st = snapshot(err)
        if hint is not None:
            if err is None:
                resolve_hints(case, hint, st, op['name'])
            st['hint'] = hint
        steps.append(st)
    out = {'steps': steps}
    if any(o.get('reuse') for o in case['ops']):
        out['reused'] = reused[0]
    return out


# ---------------------------------------------------------------------------------------------------------------------
# Gallina printing

def g_sch(c):
    return '(SC %s %s %s %s)' % (gN(c[0]), gZ(c[1]), gbool(c[2]), gN(c[3]))


def g_mask(case, i):
    d, k = case['masks'][i]
    return '(MK %s %s %s)' % (gN(d), gN(k), gN(i))


def g_q(s):
    f = F(s)
    return '(%d # %d)' % (f.numerator, f.denominator)


def g_wins(w):
    return '(%s, %s)' % (glist(g_q, w[0]), glist(g_q, w[1]))


def g_on(x):
    return 'None' if x is None else '(Some %s)' % gN(x)


def g_alist(pv, d):
    return glist(lambda kv: '(%s, %s)' % (gN(kv[0]), pv(kv[1])), sorted((int(k), v) for k, v in d.items()))


def g_reg(r):
    return '(RG %s %s %s %s %s %s)' % (gN(r['tag']), glist(gN, r['chans']), g_alist(g_wins, r['meas']), gN(r['cb']),
                                       glist(gN, r['awgs']), glist(gN, r['dacs']))


def g_entry(e):
    return '(AE %s %s %s %s)' % (gN(e['tag']), glist(g_on, e['ch']), glist(g_on, e['mk']), glist(g_on, e['vt']))


def g_obs(case, st):
    err = 'None' if st['err'] is None else '(Some %s)' % ERRS[st['err']]
    cm = g_alist(lambda chs: glist(g_sch, chs), st['chmap'])
    mm = g_alist(lambda ms: glist(lambda i: g_mask(case, i), ms), st['mmap'])
    regs = g_alist(g_reg, st['regs'])
    oa = glist(lambda a: '(AS %s %s)' % (g_alist(g_entry, a['progs']), g_on(a['armed'])), st['awgs'])
    od = glist(lambda d: '(DS %s %s)' % (g_alist(lambda w: g_alist(g_wins, w), d['wins']), g_on(d['armed'])), st['dacs'])
    vl = glist(lambda e: '(%s, %s, %s)' % (gN(e[0]), gN(e[1]), glist(gN, e[2])), st.get('vollog', []))
    return '(OB %s %s %s %s %s %s %s %s)' % (err, cm, mm, regs, oa, od, glist(gN, st['cblog']), vl)


def g_op(case, op, st):
    k = op['op']
    if k == 'set_channel':
        a = op['arg']
        if a['k'] == 'single':
            arg = '(ChSingle %s)' % g_sch(a['ch'])
        elif a['k'] == 'many':
            arg = '(ChMany %s %s)' % (glist(g_sch, a['chs']), gbool(a.get('junk', False)))
        else:
            arg = 'ChNotIterable'
        return '(OSetChannel %s %s %s)' % (gN(op['id']), arg, gbool(op['allow']))
    if k == 'set_measurement':
        a = op['arg']
        if a['k'] == 'single':
            arg = '(MSingle %s)' % g_mask(case, a['mask'])
        elif a['k'] == 'many':
            arg = '(MMany %s)' % glist(lambda i: g_mask(case, i), a['masks'])
        else:
            arg = 'MNotIterable'
        return '(OSetMeasurement %s %s %s)' % (gN(op['name']), arg, gbool(op['allow']))
    if k == 'rm_channel':
        return '(ORmChannel %s)' % gN(op['id'])
    if k == 'register':
        h = st['hint']
        meas = glist(lambda m: '(%s, %s)' % (gN(m[0]), g_wins(m[1:])), h['meas'])
        p = '(PG %s %s %s)' % (gN(op['prog']['tag']), glist(gN, h['chan_order']), meas)
        cb = '(Some %s)' % gN(op.get('cbtag', op['prog']['tag'])) if op.get('cb', True) else 'None'
        return '(ORegister %s %s %s %s %s)' % (gN(op['name']), p, cb, gbool(op.get('update', False)),
                                               glist(gN, h['awg_order']))
    if k == 'remove':
        return '(ORemove %s)' % gN(op['name'])
    if k == 'clear':
        return 'OClear'
    if k == 'arm':
        return '(OArm %s)' % gN(op['name'])
    if k == 'run':
        return '(ORun %s)' % gN(op['name'])
    if k == 'update_params':
        return '(OUpdateParams %s %s)' % (gN(op['name']), gN(op['ptag']))
    raise ValueError(k)


def g_hop(e):
    if e[0] == 'alloc':
        return '(HAlloc %s %s)' % (gN(e[1]), gN(e[1]))
    return '(HAttach %s (%s, %s))' % (gN(e[1]), gN(e[2]), g_wins(e[3:]))


def to_coq(case, obs):
    """hcase: the plain case + per call the heap events before it and the object handed to register_program"""
    if 'crash' in obs or 'hang' in obs:
        return '(HCase CCrash [])'
    ev = []
    for st in obs['steps']:
        h = (st.get('hint') or {}).get('heap')
        if h is None:
            ev.append('([], None)')
        else:
            ev.append('(%s, %s)' % (glist(g_hop, h['ev']), g_on(h['who'])))
    return '(HCase %s %s)' % (to_coq_plain(case, obs), glist(lambda x: x, ev))


def to_coq_plain(case, obs):
    if 'crash' in obs or 'hang' in obs:
        return 'CCrash'
    steps = glist(lambda os_: '(%s, %s)' % (g_op(case, os_[0], os_[1]), g_obs(case, os_[1])),
                  list(zip(case['ops'], obs['steps'])))
    return '(CHist %s %s %s)' % (glist(lambda d: '(%s, %s)' % (gZ(d[0]), gZ(d[1])), case['awgs']),
                                 vlib.gnat(case['ndacs']), steps)


# ---------------------------------------------------------------------------------------------------------------------
# generators

def rnd_config(rng):
    na = rng.choice([2, 2, 3])
    awgs = [[rng.randint(1, 4), rng.randint(0, 3)] for _ in range(na)]
    masks = [[rng.randint(0, 1), rng.randint(0, 2)] for _ in range(rng.randint(3, 6))]
    if rng.random() < 0.5:
        masks.append(list(rng.choice(masks)))      # a second object for the same (dac, mask name)
    return awgs, masks


def rnd_sch(rng, awgs, valid=True):
    a = rng.randrange(len(awgs))
    nc, nm = awgs[a]
    marker = nm > 0 and rng.random() < 0.3
    n = nm if marker else nc
    r = rng.random()
    if valid or r < 0.6:
        idx = rng.randrange(n)
    elif r < 0.75:
        idx = n                      # constructor raises
    elif r < 0.9:
        idx = -rng.randint(1, n)     # accepted by the constructor, counted from the end by list indexing
    else:
        idx = -n - 1                 # accepted by the constructor, IndexError in register_program
    tr = 0 if marker else rng.choice([0, 0, 1, 2, 3])
    return [a, idx, bool(marker), tr]


class Tracker:
    """rough book-keeping of what the history has set up so far (assumes calls succeed) to keep histories mostly valid"""

    def __init__(self, rng, awgs, masks, clean):
        self.rng, self.awgs, self.masks, self.clean = rng, awgs, masks, clean
        self.chans = {}       # id -> list of sch
        self.meas = {}        # name -> list of mask idx
        self.regs = {}        # name -> (chans, meas names)
        self.tag = 0
        self.ops = []

    def used_outputs(self):
        return {(s[0], s[1], s[2]) for v in self.chans.values() for s in v}

    def used_masks(self):
        return {i for v in self.meas.values() for i in v}

    def used_chan_ids(self):
        return {c for ch, _ in self.regs.values() for c in ch}

    def used_meas(self):
        return {m for _, ms in self.regs.values() for m in ms}

    def op_set_channel(self, malformed=False):
        rng = self.rng
        cid = rng.randrange(5)
        if self.clean and cid in self.used_chan_ids():
            free = [c for c in range(6) if c not in self.used_chan_ids()]
            cid = rng.choice(free) if free else None
            if cid is None:
                return
        allow = rng.random() < (0.15 if self.clean else 0.4)
        n = rng.choice([1, 1, 2, 2, 3])
        chs = []
        for _ in range(n):
            s = rnd_sch(rng, self.awgs, valid=not malformed)
            if not allow and rng.random() < 0.85:
                for _ in range(6):
                    if (s[0], s[1], s[2]) not in self.used_outputs() or cid in self.chans and s in self.chans[cid]:
                        break
                    s = rnd_sch(rng, self.awgs, valid=not malformed)
            chs.append(s)
        r = rng.random()
        if malformed and r < 0.2:
            arg = {'k': 'noniter'}
        elif r < 0.25 and n == 1:
            arg = {'k': 'single', 'ch': chs[0]}
        else:
            arg = {'k': 'many', 'chs': chs}
            if malformed and rng.random() < 0.3:
                arg['junk'] = True
            if rng.random() < 0.3:
                arg['as_set'] = True
            if rng.random() < 0.1:
                arg['chs'] = []
        self.ops.append({'op': 'set_channel', 'id': cid, 'arg': arg, 'allow': allow})
        if arg['k'] != 'noniter':
            self.chans[cid] = chs if arg['k'] == 'many' else self.chans.get(cid, []) + chs

    def op_set_measurement(self, malformed=False):
        rng = self.rng
        name = rng.randrange(4)
        if self.clean and name in self.used_meas():
            free = [m for m in range(5) if m not in self.used_meas()]
            if not free:
                return
            name = rng.choice(free)
        allow = rng.random() < (0.15 if self.clean else 0.4)
        n = rng.choice([1, 1, 2, 3])
        ms = []
        for _ in range(n):
            i = rng.randrange(len(self.masks))
            if not allow and rng.random() < 0.85:
                for _ in range(6):
                    if i not in self.used_masks():
                        break
                    i = rng.randrange(len(self.masks))
            ms.append(i)
        r = rng.random()
        if malformed and r < 0.3:
            arg = {'k': 'noniter'}
        elif r < 0.3 and n == 1:
            arg = {'k': 'single', 'mask': ms[0]}
        else:
            arg = {'k': 'many', 'masks': ms}
            if rng.random() < 0.07:
                arg['masks'] = []
        self.ops.append({'op': 'set_measurement', 'name': name, 'arg': arg, 'allow': allow})
        if arg['k'] != 'noniter':
            self.meas[name] = ms if arg['k'] == 'many' else self.meas.get(name, []) + ms

    def op_rm_channel(self):
        rng = self.rng
        cands = [c for c in self.chans if not (self.clean and c in self.used_chan_ids())]
        if cands and rng.random() < 0.85:
            cid = rng.choice(cands)
            self.chans.pop(cid)
        elif self.clean:
            return
        else:
            cid = rng.randrange(6)
            self.chans.pop(cid, None)
        self.ops.append({'op': 'rm_channel', 'id': cid})

    def rnd_prog(self, chans=None, meas_names=None, malformed=False):
        rng = self.rng
        self.tag += 1
        known = sorted(self.chans)
        if chans is None:
            if known and not (malformed and rng.random() < 0.3):
                chans = rng.sample(known, rng.randint(1, min(3, len(known))))
            else:
                chans = [rng.randrange(6)]
        if meas_names is None:
            km = sorted(self.meas)
            if malformed and rng.random() < 0.3:
                meas_names = [rng.randrange(5)]
            elif km and rng.random() < 0.8:
                meas_names = rng.sample(km, rng.randint(1, min(3, len(km))))
            else:
                meas_names = []
        meas = []
        for n in meas_names:
            for _ in range(rng.choice([1, 1, 2])):
                meas.append([n, rng.choice([0, 1, 2, 0.5, 3]), rng.choice([1, 2, 0.25, 1.5])])
        rng.shuffle(meas)
        return {'tag': self.tag, 'chans': sorted(chans), 'meas': meas, 'shape': rng.choice(['leaf', 'leaf', 'seq']),
                'rep': rng.choice([1, 1, 2])}

    def op_register(self, malformed=False, name=None, update=None, prog=None):
        rng = self.rng
        if name is None:
            if self.regs and rng.random() < 0.45:
                name = rng.choice(sorted(self.regs))
            else:
                name = rng.randrange(4)
        exists = name in self.regs
        if update is None:
            update = rng.random() < (0.75 if exists else 0.2)
        if prog is None:
            if self.clean and exists and update:
                ch, ms = self.regs[name]
                prog = self.rnd_prog(chans=list(ch), meas_names=list(ms))    # same devices
            else:
                prog = self.rnd_prog(malformed=malformed)
        op = {'op': 'register', 'name': name, 'prog': prog, 'update': bool(update)}
        if malformed and rng.random() < 0.15:
            op['cb'] = False
        if rng.random() < 0.25:
            names = sorted({m[0] for m in prog['meas']})
            if self.clean and exists and update:
                pass
            elif sorted(self.meas) and rng.random() < 0.5:
                names = rng.sample(sorted(self.meas), rng.randint(0, min(2, len(self.meas))))
            op['explicit'] = [[n, [rng.choice([0, 1, 2, 5])] * rng.choice([1, 2]), [rng.choice([1, 2])] * 1] for n in names]
            for e in op['explicit']:
                e[2] = e[2] * len(e[1])
        self.ops.append(op)
        if op.get('cb', True) and (update or not exists):
            ms = {e[0] for e in op['explicit']} if op.get('explicit') is not None else {m[0] for m in prog['meas']}
            if set(prog['chans']) <= set(self.chans) and ms <= set(self.meas):
                self.regs[name] = (tuple(prog['chans']), tuple(sorted(ms)))

    def op_named(self, kind):
        rng = self.rng
        if self.regs and rng.random() < 0.85:
            name = rng.choice(sorted(self.regs))
        else:
            name = rng.randrange(5)
        self.ops.append({'op': kind, 'name': name})
        if kind == 'remove':
            self.regs.pop(name, None)

    def op_clear(self):
        self.ops.append({'op': 'clear'})
        self.regs = {}

    def op_update(self):
        rng = self.rng
        if self.regs and rng.random() < 0.85:
            name = rng.choice(sorted(self.regs))
        else:
            name = rng.randrange(5)
        self.tag += 1
        self.ops.append({'op': 'update_params', 'name': name, 'ptag': self.tag})


ID_VARIANTS = [None, None, ['A', 0, 'C', 1, 'E', 2, 'G', 3], [0, 1, 2, 3, 4, 5, 6, 7], [3, 'B', 0, 'D', 'E', 'F', 'G', 'H']]


def with_ids(rng, case):
    """channel identifiers are str or int (ChannelID); integer 0 is falsy"""
    ids = rng.choice(ID_VARIANTS)
    if ids is not None:
        case['ids'] = list(ids)
    return case


def rnd_history(rng, n_ops, clean, malformed_rate=0.0):
    awgs, masks = rnd_config(rng)
    t = Tracker(rng, awgs, masks, clean)
    for _ in range(rng.randint(2, 4)):
        t.op_set_channel()
    for _ in range(rng.randint(1, 3)):
        t.op_set_measurement()
    guard = 0
    while len(t.ops) < n_ops and guard < 200:
        guard += 1
        mal = rng.random() < malformed_rate
        r = rng.random()
        if r < 0.08:
            t.op_set_channel(mal)
        elif r < 0.14:
            t.op_set_measurement(mal)
        elif r < 0.18:
            t.op_rm_channel()
        elif r < 0.55:
            t.op_register(mal)
        elif r < 0.68:
            t.op_named('remove')
        elif r < 0.74:
            t.op_clear()
        elif r < 0.87:
            t.op_named('arm')
        elif r < 0.94:
            t.op_named('run')
        else:
            t.op_update()
    return with_ids(rng, {'kind': 'hist', 'stream': 'clean' if clean else ('malformed' if malformed_rate else 'free'),
                          'awgs': awgs, 'ndacs': 2, 'masks': masks, 'ops': t.ops})


def scenario_history(rng):
    """fixed-shape wiring that spreads names over all devices, then only program operations (no re-wiring):
    several programs on different device subsets, re-registration onto other subsets, arm / run / remove / clear"""
    awgs = [[2, 1], [rng.randint(1, 3), rng.randint(0, 2)], [2, 0]]
    masks = [[0, 0], [1, 0], [0, 1], [1, 1]]
    t = Tracker(rng, awgs, masks, clean=False)
    wiring = [
        (0, [[0, 0, False, 0]]), (1, [[1, 0, False, 1]]), (2, [[2, 1, False, 2], [0, 0, True, 0]]),
        (3, [[1, awgs[1][0] - 1, False, 0] if awgs[1][0] > 1 else [0, 1, False, 0], [2, 0, False, 3]]),
    ]
    for cid, chs in wiring:
        t.ops.append({'op': 'set_channel', 'id': cid, 'arg': {'k': 'many', 'chs': chs}, 'allow': False})
        t.chans[cid] = chs
    for name, ms in [(0, [0]), (1, [1]), (2, [2, 3])]:
        t.ops.append({'op': 'set_measurement', 'name': name, 'arg': {'k': 'many', 'masks': ms}, 'allow': False})
        t.meas[name] = ms
    n = rng.randint(6, 12)
    while len(t.ops) < 7 + n:
        r = rng.random()
        if r < 0.45 or not t.regs:
            t.op_register()
        elif r < 0.70:
            t.op_named('arm')
        elif r < 0.78:
            t.op_named('run')
        elif r < 0.84:
            t.op_update()
        elif r < 0.96:
            t.op_named('remove')
        else:
            t.op_clear()
    return with_ids(rng, {'kind': 'hist', 'stream': 'scenario', 'awgs': awgs, 'ndacs': 2, 'masks': masks, 'ops': t.ops})


def targeted(rng):
    """shapes of the defects read in the code: update that moves a program, re-wiring under a registered program,
    removal/clear of an armed program, overwrite failing half-way"""
    out = []
    base = {'kind': 'hist', 'stream': 'targeted', 'awgs': [[2, 1], [2, 1]], 'ndacs': 2,
            'masks': [[0, 0], [1, 1], [0, 1], [0, 0]]}
    w = [{'op': 'set_channel', 'id': 0, 'arg': {'k': 'many', 'chs': [[0, 0, False, 0]]}, 'allow': False},
         {'op': 'set_channel', 'id': 1, 'arg': {'k': 'many', 'chs': [[1, 1, False, 1], [1, 0, True, 0]]}, 'allow': False},
         {'op': 'set_measurement', 'name': 0, 'arg': {'k': 'many', 'masks': [0]}, 'allow': False},
         {'op': 'set_measurement', 'name': 1, 'arg': {'k': 'many', 'masks': [1]}, 'allow': False}]
    pA = {'tag': 1, 'chans': [0], 'meas': [[0, 0, 1]], 'shape': 'leaf'}
    pB = {'tag': 2, 'chans': [1], 'meas': [[1, 1, 2]], 'shape': 'leaf'}
    pAB = {'tag': 3, 'chans': [0, 1], 'meas': [[0, 0, 1], [1, 1, 1]], 'shape': 'seq'}
    reg = lambda n, p, u=False: {'op': 'register', 'name': n, 'prog': p, 'update': u}
    hs = [
        [reg(0, pA), reg(0, pB, True), {'op': 'arm', 'name': 0}, {'op': 'remove', 'name': 0}],
        [reg(0, pAB), reg(0, pA, True), {'op': 'remove', 'name': 0}],
        [reg(0, pA), {'op': 'rm_channel', 'id': 0}, {'op': 'clear'}],
        [reg(0, pA), {'op': 'set_channel', 'id': 0, 'arg': {'k': 'many', 'chs': [[1, 0, False, 0]]}, 'allow': False},
         {'op': 'arm', 'name': 0}],
        [reg(0, pA), {'op': 'set_measurement', 'name': 0, 'arg': {'k': 'many', 'masks': [2]}, 'allow': False},
         {'op': 'arm', 'name': 0}],
        [reg(0, pA), {'op': 'arm', 'name': 0}, {'op': 'remove', 'name': 0}],
        [reg(0, pA), {'op': 'run', 'name': 0}, {'op': 'clear'}],
        [reg(0, pA), reg(1, pB), {'op': 'arm', 'name': 0}, {'op': 'arm', 'name': 1}, {'op': 'remove', 'name': 1}],
        [reg(0, pA), reg(0, pAB), {'op': 'remove', 'name': 0}],          # overwrite fails (possibly half-way)
        [reg(0, pB), reg(0, pAB), reg(0, pAB, True), {'op': 'run', 'name': 0}],
        [reg(0, pAB), reg(1, pA), {'op': 'arm', 'name': 1}, {'op': 'remove', 'name': 0}, {'op': 'arm', 'name': 1}],
        # update_parameters reaches exactly the participating generators
        [reg(0, pA), reg(1, pAB), {'op': 'update_params', 'name': 0, 'ptag': 7}, {'op': 'update_params', 'name': 1, 'ptag': 8},
         {'op': 'update_params', 'name': 2, 'ptag': 9}, reg(1, pB, True), {'op': 'update_params', 'name': 1, 'ptag': 10}],
        # the documented workflow: re-wire a used channel, then re-register with update=True (name is clean again)
        [reg(0, pA), {'op': 'rm_channel', 'id': 0},
         {'op': 'set_channel', 'id': 0, 'arg': {'k': 'many', 'chs': [[1, 0, False, 3]]}, 'allow': False},
         reg(0, pA, True), {'op': 'arm', 'name': 0}, {'op': 'update_params', 'name': 0, 'ptag': 3}, {'op': 'remove', 'name': 0}],
        # re-wiring, then remove: everything is gone; re-wiring, un-wiring the generator, then clear: a copy is lost
        [reg(0, pA), {'op': 'set_channel', 'id': 0, 'arg': {'k': 'many', 'chs': [[1, 0, False, 0]]}, 'allow': False},
         {'op': 'remove', 'name': 0}, reg(0, pA), {'op': 'arm', 'name': 0}],
        [reg(0, pA), {'op': 'rm_channel', 'id': 0}, {'op': 'clear'},
         {'op': 'set_channel', 'id': 0, 'arg': {'k': 'many', 'chs': [[0, 0, False, 0]]}, 'allow': False}, reg(0, pA), reg(1, pB)],
        # a second mask object for the same (dac, mask name) is not a re-wiring; another device is
        [reg(0, pA), {'op': 'set_measurement', 'name': 0, 'arg': {'k': 'many', 'masks': [3]}, 'allow': True},
         {'op': 'arm', 'name': 0}, {'op': 'remove', 'name': 0}],
        [reg(0, pA), {'op': 'set_measurement', 'name': 0, 'arg': {'k': 'many', 'masks': [2]}, 'allow': False},
         reg(0, pA, True), {'op': 'arm', 'name': 0}],
        # the same channel set given again (other order, set instead of list) is not a re-wiring
        [reg(1, pB), {'op': 'set_channel', 'id': 1, 'arg': {'k': 'many', 'chs': [[1, 0, True, 0], [1, 1, False, 1]], 'as_set': True},
                      'allow': True}, {'op': 'arm', 'name': 1}, {'op': 'clear'}],
        # Round 5 (audit of the known-finding class): post-conditions for a COVERED name were only reached through sampled /
        # random histories.  update_parameters / arm / remove after the generator of a used id was moved or un-wired ...
        [reg(0, pA), {'op': 'set_channel', 'id': 0, 'arg': {'k': 'many', 'chs': [[1, 0, False, 0]]}, 'allow': False},
         {'op': 'update_params', 'name': 0, 'ptag': 5}, {'op': 'remove', 'name': 0}],
        [reg(0, pA), {'op': 'rm_channel', 'id': 0}, {'op': 'update_params', 'name': 0, 'ptag': 5}, {'op': 'arm', 'name': 0},
         {'op': 'remove', 'name': 0}],
        [reg(0, pAB), {'op': 'set_channel', 'id': 1, 'arg': {'k': 'many', 'chs': [[0, 1, False, 0]]}, 'allow': False},
         {'op': 'update_params', 'name': 0, 'ptag': 6}, {'op': 'arm', 'name': 0}, reg(0, pAB, True),
         {'op': 'update_params', 'name': 0, 'ptag': 7}],
        # ... and the acquisition-side twin of "generator no longer wired": the only mask of a recorded device is moved
        # away, so the device drops out of known_dacs while it still holds the windows (arm must still arm it, remove /
        # update re-registration must still delete there; clear_programs skips it: lost)
        [reg(1, pB), {'op': 'set_measurement', 'name': 1, 'arg': {'k': 'many', 'masks': [2]}, 'allow': False},
         {'op': 'arm', 'name': 1}, {'op': 'remove', 'name': 1}],
        [reg(1, pB), {'op': 'set_measurement', 'name': 1, 'arg': {'k': 'many', 'masks': [2]}, 'allow': False},
         reg(1, pB, True), {'op': 'arm', 'name': 1}],
        [reg(1, pB), {'op': 'arm', 'name': 1}, {'op': 'set_measurement', 'name': 1, 'arg': {'k': 'many', 'masks': []}, 'allow': False},
         {'op': 'run', 'name': 1}, {'op': 'clear'}, reg(0, pA), {'op': 'arm', 'name': 0}],
        [reg(0, pAB), {'op': 'set_measurement', 'name': 1, 'arg': {'k': 'many', 'masks': [2]}, 'allow': False},
         {'op': 'arm', 'name': 0}, reg(1, pA), {'op': 'arm', 'name': 1}, {'op': 'remove', 'name': 0}],
    ]
    for h in hs:
        for ids in (None, [0, 1, 2, 3, 4, 5, 6, 7]):
            c = dict(base)
            if ids is not None:
                c['ids'] = ids
            c['ops'] = [dict(o) for o in w] + [dict(o) for o in h]
            out.append(c)
    return out


ALPHABET_WIRING = [
    {'op': 'set_channel', 'id': 0, 'arg': {'k': 'many', 'chs': [[0, 0, False, 0]]}, 'allow': False},
    {'op': 'set_channel', 'id': 1, 'arg': {'k': 'many', 'chs': [[1, 0, False, 2], [0, 0, True, 0]]}, 'allow': False},
    {'op': 'set_measurement', 'name': 0, 'arg': {'k': 'many', 'masks': [0]}, 'allow': False},
    {'op': 'set_measurement', 'name': 1, 'arg': {'k': 'many', 'masks': [1, 2]}, 'allow': False},
]


def exhaustive(max_len):
    pA = {'chans': [0], 'meas': [[0, 0, 1]], 'shape': 'leaf'}
    pB = {'chans': [1], 'meas': [[1, 1, 2]], 'shape': 'leaf'}
    pAB = {'chans': [0, 1], 'meas': [[0, 0, 1], [1, 2, 1]], 'shape': 'leaf'}
    alpha = [
        {'op': 'register', 'name': 0, 'prog': pA, 'update': False},
        {'op': 'register', 'name': 0, 'prog': pB, 'update': True},
        {'op': 'register', 'name': 0, 'prog': pAB, 'update': True},
        {'op': 'register', 'name': 1, 'prog': pAB, 'update': False},
        {'op': 'register', 'name': 1, 'prog': pA, 'update': True},
        {'op': 'remove', 'name': 0}, {'op': 'remove', 'name': 1}, {'op': 'clear'},
        {'op': 'arm', 'name': 0}, {'op': 'arm', 'name': 1}, {'op': 'run', 'name': 1},
        {'op': 'rm_channel', 'id': 1},
        {'op': 'set_channel', 'id': 1, 'arg': {'k': 'many', 'chs': [[0, 1, False, 0]]}, 'allow': False},
        {'op': 'set_measurement', 'name': 1, 'arg': {'k': 'single', 'mask': 0}, 'allow': True},
    ]
    out = []
    for n in range(1, max_len + 1):
        for combo in itertools.product(range(len(alpha)), repeat=n):
            ops = [dict(o) for o in ALPHABET_WIRING]
            for t, i in enumerate(combo):
                o = dict(alpha[i])
                if o['op'] == 'register':
                    o['prog'] = dict(o['prog'], tag=t + 1)
                ops.append(o)
            out.append({'kind': 'hist', 'stream': 'exhaustive', 'awgs': [[2, 1], [1, 0]], 'ndacs': 2,
                        'masks': [[0, 0], [1, 0], [0, 1]], 'ops': ops})
    return out


SMALL_WIRING = [
    {'op': 'set_channel', 'id': 0, 'arg': {'k': 'many', 'chs': [[0, 0, False, 0]]}, 'allow': False},
    {'op': 'set_channel', 'id': 1, 'arg': {'k': 'many', 'chs': [[1, 0, False, 1]]}, 'allow': False},
    {'op': 'set_measurement', 'name': 0, 'arg': {'k': 'many', 'masks': [0]}, 'allow': False},
]


def exhaustive_small(max_len, min_len=1):
    """ALL histories of min_len..max_len operations over a 10-letter alphabet on 2 one-channel generators x 1 acquisition
    device (after a fixed wiring): registration / update that moves the program / removal / clear / arm /
    update_parameters and the three kinds of re-wiring (channel moved to the other generator, channel removed,
    measurement moved to another mask)"""
    pA = {'chans': [0], 'meas': [[0, 0, 1]], 'shape': 'leaf'}
    pB = {'chans': [1], 'meas': [], 'shape': 'leaf'}
    pAB = {'chans': [0, 1], 'meas': [[0, 1, 2]], 'shape': 'leaf'}
    alpha = [
        {'op': 'register', 'name': 0, 'prog': pA, 'update': False},
        {'op': 'register', 'name': 0, 'prog': pB, 'update': True},
        {'op': 'register', 'name': 0, 'prog': pAB, 'update': True},
        {'op': 'remove', 'name': 0}, {'op': 'clear'}, {'op': 'arm', 'name': 0},
        {'op': 'update_params', 'name': 0, 'ptag': 1},
        {'op': 'set_channel', 'id': 0, 'arg': {'k': 'many', 'chs': [[1, 0, False, 0]]}, 'allow': True},
        {'op': 'rm_channel', 'id': 0},
        {'op': 'set_measurement', 'name': 0, 'arg': {'k': 'many', 'masks': [1]}, 'allow': False},
    ]
    out = []
    for n in range(min_len, max_len + 1):
        for combo in itertools.product(range(len(alpha)), repeat=n):
            ops = [dict(o) for o in SMALL_WIRING]
            for t, i in enumerate(combo):
                o = dict(alpha[i])
                if o['op'] == 'register':
                    o['prog'] = dict(o['prog'], tag=t + 1)
                if o['op'] == 'update_params':
                    o['ptag'] = t + 1
                ops.append(o)
            out.append({'kind': 'hist', 'stream': 'exhaustive-small', 'awgs': [[1, 0], [1, 0]], 'ndacs': 1,
                        'masks': [[0, 0], [0, 1]], 'ops': ops})
    return out


# ---------------------------------------------------------------------------------------------------------------------
# Round 3: object identity.  A small pool of Loop objects is reused across register_program calls (the same object again
# under the same name, under two names, a structurally equal but distinct twin), hardware channel objects are reused
# (case['chpool']), and the wiring of a used channel id is changed *inside* the generators that keep participating
# (other output position, another voltage transformation, an extra output or marker) between registration and
# re-registration, so that the device set stays the same and only the uploaded tuples have to change.

def inside_rewirings(awgs, chs, rng=None):
    """all (or, with rng, one random) new wirings of a channel id that keep its set of generators:
    one output moved to another index of the same generator, another transformation, an extra output / marker on a
    generator it already uses, one of two outputs of a generator dropped"""
    out = []
    gens = sorted({s[0] for s in chs})
    for k, s in enumerate(chs):
        a, idx, marker, tr = s
        n = awgs[a][1] if marker else awgs[a][0]
        for j in range(n):
            if j != idx and j != idx + n:
                out.append(('move', chs[:k] + [[a, j, marker, tr]] + chs[k + 1:]))
        if not marker:
            for t in (0, 1, 2):
                if t != tr:
                    out.append(('trafo', chs[:k] + [[a, idx, False, t]] + chs[k + 1:]))
        if sum(1 for x in chs if x[0] == a) > 1:
            out.append(('dropone', chs[:k] + chs[k + 1:]))
    for a in gens:
        have = {(x[1], x[2]) for x in chs if x[0] == a}
        for j in range(awgs[a][1]):
            if (j, True) not in have:
                out.append(('addmarker', chs + [[a, j, True, 0]]))
        for j in range(awgs[a][0]):
            if (j, False) not in have:
                out.append(('addout', chs + [[a, j, False, 1]]))
    if rng is not None:
        return [rng.choice(out)] if out else []
    return out


def set_ch(cid, chs, allow=False, as_set=False):
    arg = {'k': 'many', 'chs': [list(c) for c in chs]}
    if as_set:
        arg['as_set'] = True
    return {'op': 'set_channel', 'id': cid, 'arg': arg, 'allow': allow}


def identity_history(rng):
    """register pooled program objects, change the wiring inside participating generators, register the SAME object
    again (update / no update / other name / twin object / explicit measurements), arm, remove, clear"""
    na = rng.choice([2, 2, 3])
    awgs = [[rng.randint(2, 4), rng.randint(1, 3)] for _ in range(na)]
    awgs[0][0] = rng.randint(3, 4)
    if rng.random() < 0.3:
        awgs[-1] = [1, 0]
        awgs[0][0] = 4
    masks = [[0, 0], [1, 0], [0, 1], [1, 1], [0, 0]]
    t = Tracker(rng, awgs, masks, clean=False)
    # wiring: four ids; 0 and 1 share generator 0 (so that outputs can be swapped), 1 and 2 span two generators
    taken = set()

    def alloc(a, tr=0):
        for b in [a] + [x for x in range(na) if x != a]:
            for j in range(awgs[b][0]):
                if (b, j) not in taken:
                    taken.add((b, j))
                    return [b, j, False, tr]
        raise RuntimeError('no free output')
    wiring = {0: [alloc(0)], 1: [alloc(0, rng.choice([0, 1])), alloc(na - 1)], 2: [alloc(1, 2), [0, 0, True, 0]], 3: [alloc(1)]}
    for cid, chs in wiring.items():
        t.ops.append(set_ch(cid, chs, as_set=rng.random() < 0.3))
        t.chans[cid] = [list(c) for c in chs]
    for name, ms in [(0, [0]), (1, [1]), (2, [2, 3])]:
        t.ops.append({'op': 'set_measurement', 'name': name, 'arg': {'k': 'many', 'masks': ms}, 'allow': False})
        t.meas[name] = ms
    # the pool: 2-3 program objects + a twin (same description, another object) of the first
    descs = []
    for k in range(rng.randint(2, 3)):
        chans = sorted(rng.sample(range(4), rng.randint(1, 3)))
        meas = [[n, rng.choice([0, 1, 2]), rng.choice([1, 2])] for n in rng.sample(range(3), rng.randint(0, 2))]
        descs.append({'tag': 100 + k, 'obj': k, 'chans': chans, 'meas': meas, 'shape': rng.choice(['leaf', 'leaf', 'seq']),
                      'rep': rng.choice([1, 2])})
    descs.append(dict(descs[0], tag=100 + len(descs), obj=len(descs)))
    cbn = [0]

    def reg(name, d, update):
        cbn[0] += 1
        op = {'op': 'register', 'name': name, 'prog': dict(d), 'update': update, 'cbtag': 200 + cbn[0]}
        if d.get('shape') == 'leaf' and d.get('rep', 1) == 1 and rng.random() < 0.12:
            op['attach'] = [[rng.choice(sorted(t.meas)), rng.choice([0, 1, 2]), rng.choice([1, 2])] for _ in range(rng.randint(1, 2))]
        if rng.random() < 0.15:
            names = rng.sample(sorted(t.meas), rng.randint(0, 2))
            op['explicit'] = [[n, [rng.choice([0, 1, 2])] * k, [rng.choice([1, 2])] * k]
                              for n in names for k in [rng.choice([0, 1, 1, 2])]]
        t.ops.append(op)
        t.regs[name] = (tuple(d['chans']), tuple(m[0] for m in d['meas']))

    def rewire():
        used = sorted(t.used_chan_ids() & set(t.chans)) or sorted(t.chans)
        r = rng.random()
        both = [c for c in (0, 1) if c in t.chans and any(s[0] == 0 and not s[2] for s in t.chans[c])]
        if r < 0.2 and len(both) == 2:
            # swap the outputs of ids 0 and 1 on generator 0 (rm_channel first, as in the project's notebook, or allow)
            i0 = next(k for k, s in enumerate(t.chans[0]) if s[0] == 0 and not s[2])
            i1 = next(k for k, s in enumerate(t.chans[1]) if s[0] == 0 and not s[2])
            n0, n1 = [list(s) for s in t.chans[0]], [list(s) for s in t.chans[1]]
            n0[i0][1], n1[i1][1] = t.chans[1][i1][1], t.chans[0][i0][1]
            if rng.random() < 0.5:
                t.ops.append({'op': 'rm_channel', 'id': 1})
                t.ops.append(set_ch(0, n0))
                t.ops.append(set_ch(1, n1))
            else:
                t.ops.append(set_ch(0, n0, allow=True))
                t.ops.append(set_ch(1, n1, allow=True))
            t.chans[0], t.chans[1] = n0, n1
            return
        cid = rng.choice(used)
        cand = inside_rewirings(awgs, t.chans[cid], rng)
        if not cand:
            return
        kind, new = cand[0]
        removed = rng.random() < 0.25
        if removed:
            t.ops.append({'op': 'rm_channel', 'id': cid})
        t.ops.append(set_ch(cid, new, allow=removed or rng.random() < 0.8, as_set=rng.random() < 0.3))
        t.chans[cid] = new

    n = rng.randint(5, 11)
    base = len(t.ops)
    reg(rng.randrange(2), rng.choice(descs), False)
    while len(t.ops) < base + n:
        r = rng.random()
        if r < 0.30:
            rewire()
            if t.regs and rng.random() < 0.75:
                # re-register a registered name; mostly with the very object it was registered with
                name = rng.choice(sorted(t.regs))
                same = [d for d in descs if tuple(d['chans']) == t.regs[name][0]]
                d = rng.choice(same) if same and rng.random() < 0.85 else rng.choice(descs)
                reg(name, d, rng.random() < 0.9)
        elif r < 0.50:
            name = rng.choice(sorted(t.regs)) if t.regs and rng.random() < 0.6 else rng.randrange(3)
            reg(name, rng.choice(descs), rng.random() < (0.8 if name in t.regs else 0.2))
        elif r < 0.62:
            t.op_named('arm')
        elif r < 0.68:
            t.op_named('run')
        elif r < 0.74:
            t.op_update()
        elif r < 0.86:
            t.op_named('remove')
        elif r < 0.90:
            t.op_clear()
        else:
            rewire()
    c = {'kind': 'hist', 'stream': 'identity', 'awgs': awgs, 'ndacs': 2, 'masks': masks, 'ops': t.ops}
    if rng.random() < 0.6:
        c['chpool'] = True
    return with_ids(rng, c)


def targeted_identity():
    """fixed shapes: same Loop object registered again after the wiring changed inside its generators"""
    awgs = [[3, 2], [1, 0]]
    base = {'kind': 'hist', 'stream': 'targeted-identity', 'awgs': awgs, 'ndacs': 2, 'masks': [[0, 0], [1, 0], [0, 0]]}
    w = [set_ch(0, [[0, 0, False, 0]]), set_ch(1, [[0, 1, False, 0], [1, 0, False, 0]]),
         {'op': 'set_measurement', 'name': 0, 'arg': {'k': 'many', 'masks': [0]}, 'allow': False},
         {'op': 'set_measurement', 'name': 1, 'arg': {'k': 'many', 'masks': [1]}, 'allow': False}]
    P = {'tag': 100, 'obj': 0, 'chans': [0, 1], 'meas': [[0, 0, 1], [1, 1, 1]], 'shape': 'leaf'}
    P2 = dict(P, tag=101, obj=1)                       # structurally equal, distinct object
    PA = {'tag': 102, 'obj': 2, 'chans': [0], 'meas': [[0, 0, 1]], 'shape': 'seq'}
    PQ = dict(P, tag=103, obj=3, meas=[[0, 0, 1], [3, 1, 1]])     # uses a measurement name that is not wired yet
    n = [0]

    def reg(name, d, u=False, **kw):
        n[0] += 1
        return dict({'op': 'register', 'name': name, 'prog': dict(d), 'update': u, 'cbtag': 200 + n[0]}, **kw)
    arm, rem = (lambda k: {'op': 'arm', 'name': k}), (lambda k: {'op': 'remove', 'name': k})
    swap = [{'op': 'rm_channel', 'id': 1}, set_ch(0, [[0, 1, False, 2], [0, 1, True, 0]]),
            set_ch(1, [[0, 0, False, 0], [1, 0, False, 0]])]
    hs = [
        # the sync workflow with an unchanged program object: outputs swapped + transformation + marker
        [reg(0, P)] + swap + [reg(0, P, True), arm(0), rem(0)],
        [reg(0, P)] + swap + [reg(0, P2, True), arm(0)],
        # one change at a time
        [reg(0, P), set_ch(0, [[0, 2, False, 0]]), reg(0, P, True)],
        [reg(0, P), set_ch(0, [[0, 0, False, 3]], allow=True), reg(0, P, True)],
        [reg(0, P), set_ch(0, [[0, 0, False, 0], [0, 0, True, 0]], allow=True), reg(0, P, True), arm(0)],
        [reg(0, P), set_ch(0, [[0, 0, False, 0], [0, 2, False, 1]], allow=True), reg(0, P, True)],
        [reg(0, P), set_ch(1, [[0, -1, False, 0], [1, 0, False, 1]]), reg(0, P, True)],
        [reg(0, PA), set_ch(0, [[0, 1, True, 0], [0, 2, False, 0]]), reg(0, PA, True), {'op': 'run', 'name': 0}],
        # no wiring change: same object again (measurements were dropped by the first call), with / without update,
        # with explicit measurements, under a second name, after removal, after clear
        [reg(0, P), reg(0, P, True), arm(0)],
        [reg(0, P), reg(0, P), rem(0)],
        [reg(0, P), reg(0, P, True, explicit=[[0, [0], [1]], [1, [1], [1]]]), arm(0)],
        [reg(0, P), reg(1, P), arm(1), rem(0), arm(1)],
        [reg(0, P), reg(1, P2), set_ch(0, [[0, 2, False, 0]]), reg(0, P, True), reg(1, P, True), rem(1)],
        [reg(0, P), rem(0), set_ch(0, [[0, 2, False, 1]]), reg(0, P)],
        [reg(0, P), {'op': 'clear'}, set_ch(0, [[0, 2, False, 1]]), reg(0, P), reg(0, P2, True), reg(0, P, True)],
        # a call that raises after it dropped the program's measurements (unknown measurement name), then again
        [{'op': 'register', 'name': 0, 'prog': dict(P, meas=[[0, 0, 1], [3, 1, 1]]), 'update': False}, reg(0, dict(P, meas=[[0, 0, 1], [3, 1, 1]]))],
        # the program moves inside AND the wiring of an id it no longer uses changes
        [reg(0, P), set_ch(1, [[0, 2, False, 0]]), reg(0, PA, True), set_ch(0, [[0, 0, False, 1]], allow=True), reg(0, PA, True)],
        # Round 4: "state left behind after a failed call the caller survives" = the Loop object without its measurements.
        # The caller does what the exception asks for and registers the SAME object again.
        [reg(0, PQ), {'op': 'set_measurement', 'name': 3, 'arg': {'k': 'many', 'masks': [2]}, 'allow': False}, reg(0, PQ), arm(0)],
        [reg(0, PA), reg(0, P), reg(0, P, True), arm(0), rem(0)],                       # ProgramOverwriteException, then update
        [{'op': 'rm_channel', 'id': 1}, reg(0, P), set_ch(1, [[0, 1, False, 0]]), reg(0, P), arm(0)],   # unknown channel
        [reg(0, P, cb=False), reg(0, P), arm(0)],                                        # callback not callable
        [reg(0, P), reg(0, P, True), reg(0, P, True), rem(0), reg(1, P), arm(1)],
        # measurements attached to an object the setup already stripped / never saw
        [reg(0, P), reg(0, P, True, attach=[[0, 2, 1]]), arm(0)],
        [reg(0, P, attach=[[1, 0, 2]]), reg(0, P, True)],
        [reg(0, P), reg(1, P, attach=[[0, 2, 1], [1, 3, 1]]), reg(0, P, True), rem(1)],
        [reg(0, P, explicit=[[0, [0], [1]]]), reg(0, P, True), reg(0, P, True, explicit=[])],   # explicit first: nothing taken yet
    ]
    out = []
    for h in hs:
        for ids, chp in ((None, False), ([0, 1, 2, 3, 4, 5, 6, 7], True)):
            c = dict(base)
            if ids is not None:
                c['ids'] = ids
            if chp:
                c['chpool'] = True
            c['ops'] = [dict(o) for o in w] + [dict(o) for o in h]
            out.append(c)
    return out


def targeted_malformed():
    """Round 4 (coverage audit): raising configuration calls that the random streams reach only by luck: marker / output
    index = size (constructor raises), non-iterable arguments of set_measurement / set_channel for new and existing
    names, a non-channel element whose HASH collides with a wired channel (set intersection then calls
    _SingleChannel.__eq__ with a non-channel) - each followed by calls that show the state is as before"""
    base = {'kind': 'hist', 'stream': 'targeted-malformed', 'awgs': [[2, 1], [1, 0]], 'ndacs': 1, 'masks': [[0, 0], [0, 1]]}
    sm = lambda name, arg, allow=False: {'op': 'set_measurement', 'name': name, 'arg': arg, 'allow': allow}
    P = {'tag': 1, 'chans': [0, 1], 'meas': [[0, 0, 1]], 'shape': 'leaf'}
    reg = {'op': 'register', 'name': 0, 'prog': P, 'update': False}
    junk = lambda cid, chs, kind, allow=False, as_set=False: dict(set_ch(cid, chs, allow, as_set), arg=dict(
        set_ch(cid, chs, allow, as_set)['arg'], junk=kind))
    tail = [set_ch(1, [[1, 0, False, 0]]), sm(0, {'k': 'many', 'masks': [0]}), reg, {'op': 'arm', 'name': 0},
            {'op': 'remove', 'name': 0}]
    hs = [
        [set_ch(0, [[0, 0, False, 0]]),
         {'op': 'set_channel', 'id': 1, 'arg': {'k': 'single', 'ch': [0, 1, True, 0]}, 'allow': False},      # marker index = num_markers
         set_ch(1, [[1, 0, False, 0], [0, 1, True, 0]]), set_ch(1, [[0, 2, False, 0]]),                       # output index = num_channels
         set_ch(0, [[0, 0, True, 0], [1, 0, True, 0]], allow=True),                                           # generator without markers
         sm(1, {'k': 'noniter'}), sm(0, {'k': 'many', 'masks': [1]}), sm(0, {'k': 'noniter'}), sm(0, {'k': 'noniter'}, True),
         {'op': 'set_channel', 'id': 0, 'arg': {'k': 'noniter'}, 'allow': False},
         {'op': 'set_channel', 'id': 2, 'arg': {'k': 'noniter'}, 'allow': True}] + tail,
        [set_ch(0, [[0, 0, False, 0]]), junk(1, [[1, 0, False, 0]], 'hash'), junk(1, [[1, 0, False, 0]], 'hash', allow=True),
         junk(1, [[1, 0, False, 0], [0, 1, False, 0]], 'hashself', as_set=True), junk(1, [[0, 0, False, 0]], 'hash'),
         junk(0, [[0, 0, False, 0]], 'hashself', allow=True, as_set=True), junk(0, [[0, 1, False, 0]], True)] + tail,
    ]
    out = []
    for h in hs:
        for ids, chp in ((None, False), ([0, 1, 2, 3, 4, 5, 6, 7], True)):
            c = dict(base, ops=[dict(o) for o in h])
            if ids is not None:
                c['ids'] = ids
            if chp:
                c['chpool'] = True
            out.append(c)
    return out


def targeted_multimask():
    """Round 4 (seeds C18-5 / C18-6, caught before only through the exhaustive stream's wiring): one program reaches the
    same acquisition device through MORE THAN ONE mask (two names on one card / one name with two masks on one card / a
    name fanned out over two cards next to another mask on one of them / three masks on a card), and a re-registration
    with FEWER masks on a card that keeps participating (by another program, by explicit measurements, by the same object
    with explicit measurements)."""
    masks = [[0, 0], [0, 1], [1, 0], [1, 1], [0, 2]]
    base = {'kind': 'hist', 'stream': 'targeted-multimask', 'awgs': [[2, 1], [1, 0]], 'ndacs': 2, 'masks': masks}
    chw = [set_ch(0, [[0, 0, False, 0]]), set_ch(1, [[1, 0, False, 0]])]
    sm = lambda name, ms: {'op': 'set_measurement', 'name': name, 'arg': {'k': 'many', 'masks': ms}, 'allow': False}
    wirings = [
        [sm(0, [0]), sm(1, [1]), sm(2, [2])],                     # two names on card 0
        [sm(0, [0, 1]), sm(1, [2]), sm(2, [3])],                  # one name, two masks on card 0
        [sm(0, [0, 2]), sm(1, [1]), sm(2, [3])],                  # name 0 on both cards, name 1 next to it on card 0
        [sm(0, [0]), sm(1, [1]), sm(2, [4, 3])],                  # three masks on card 0, name 2 also on card 1
    ]
    W = [[0, 0, 1], [1, 1, 2], [2, 2, 1]]                         # distinguishable windows per name
    prog = lambda tag, names, chans=(0,), obj=None, shape='leaf': dict(
        {'tag': tag, 'chans': list(chans), 'meas': [W[k] for k in names], 'shape': shape}, **({} if obj is None else {'obj': obj}))
    P01, P0, P1, P012, PN = prog(1, [0, 1]), prog(2, [0]), prog(3, [1]), prog(4, [0, 1, 2], (0, 1), shape='seq'), prog(5, [])
    P10, O01 = prog(6, [1, 0]), prog(7, [0, 1], obj=0)
    reg = lambda n, p, u=False, **kw: dict({'op': 'register', 'name': n, 'prog': dict(p), 'update': u}, **kw)
    arm, rem = (lambda k: {'op': 'arm', 'name': k}), (lambda k: {'op': 'remove', 'name': k})
    hs = [
        [reg(0, P01), arm(0)],
        [reg(0, P10), reg(1, P012), arm(1)],
        [reg(0, P01), reg(0, P0, True), arm(0)],
        [reg(0, P01), reg(0, P1, True), arm(0), rem(0)],
        [reg(0, P0), reg(0, P01, True), reg(0, P1, True)],
        [reg(0, P01), reg(1, P1), reg(0, P0, True), arm(1), rem(1)],
        [reg(0, P012), reg(0, P1, True), arm(0)],
        [reg(0, P012), reg(0, P01, True), reg(0, PN, True)],
        [reg(0, P01), reg(0, P01, True, explicit=[[1, [1], [2]]]), arm(0)],
        [reg(0, O01), reg(0, O01, True, explicit=[[0, [0], [1]]]), reg(0, O01, True), arm(0)],
        [reg(0, P012, explicit=[[0, [0, 4], [1, 1]], [1, [], []], [2, [2], [1]]]), reg(0, P012, True, explicit=[[2, [2], [1]]])],
    ]
    out = []
    for w in wirings:
        for h in hs:
            for ids in (None, [0, 1, 2, 3, 4, 5, 6, 7]):
                c = dict(base)
                if ids is not None:
                    c['ids'] = ids
                c['ops'] = [dict(o) for o in chw + w] + [dict(o) for o in h]
                out.append(c)
    return out


def targeted_ephemeral():
    """Round 5: program objects that DIE (nobody but the setup and the devices referenced them) and new objects that are
    allocated at the address of a dead one.  register_program remembers per Loop object (keyed by id()) which
    measurements it took out of it (repair bc650d0); all earlier streams kept every Loop alive for the whole history, so
    "a new program inherits the windows of a dead one whose id() it got" could not occur.  Ways to die: remove_program,
    replaced by update=True, clear_programs, a registration that raised after the measurements were taken."""
    base = {'kind': 'hist', 'stream': 'targeted-ephemeral', 'awgs': [[2, 1], [1, 0]], 'ndacs': 2,
            'masks': [[0, 0], [1, 0], [0, 1]]}
    sm = lambda name, ms: {'op': 'set_measurement', 'name': name, 'arg': {'k': 'many', 'masks': ms}, 'allow': False}
    w = [set_ch(0, [[0, 0, False, 0]]), set_ch(1, [[1, 0, False, 0]]), sm(0, [0]), sm(1, [1])]
    P = {'chans': [0], 'meas': [[0, 0, 1]], 'shape': 'leaf'}
    P2 = {'chans': [0], 'meas': [[0, 2, 1]], 'shape': 'leaf'}
    Q = {'chans': [0], 'meas': [], 'shape': 'leaf'}
    R = {'chans': [0, 1], 'meas': [[1, 1, 2]], 'shape': 'leaf'}
    PX = {'chans': [0], 'meas': [[0, 0, 1], [3, 1, 1]], 'shape': 'leaf'}     # measurement name 3 is not wired
    S2 = {'chans': [0], 'meas': [[0, 0, 1], [1, 4, 1]], 'shape': 'seq', 'rep': 2}
    n = [0]

    def reg(name, d, u=False, eph=True, reuse=False, **kw):
        n[0] += 1
        return dict({'op': 'register', 'name': name, 'prog': dict(d, tag=300 + n[0]), 'update': u, 'ephemeral': eph,
                     'reuse': reuse}, **kw)
    arm, rem = (lambda k: {'op': 'arm', 'name': k}), (lambda k: {'op': 'remove', 'name': k})
    hs = [
        [reg(0, P), rem(0), reg(1, Q, reuse=True), arm(1)],                            # dies by remove_program
        [reg(0, P), rem(0), reg(0, P2, reuse=True), arm(0)],                           # same name, other windows
        [reg(0, P), reg(0, Q, True), reg(1, R, reuse=True), arm(1)],                   # dies by update=True
        [reg(0, S2), {'op': 'clear'}, reg(0, R, reuse=True), arm(0), rem(0)],          # dies by clear_programs
        [reg(0, PX), reg(0, Q, reuse=True), arm(0)],                                   # dies after KeyError (taken before)
        [reg(0, P, eph=False), reg(0, S2), reg(1, Q, reuse=True), arm(1)],             # dies after ProgramOverwriteException
        [reg(0, P), rem(0), reg(1, Q, reuse=True), rem(1), reg(0, R, reuse=True), arm(0)],
        [reg(0, P), reg(0, P2, True, reuse=True), reg(0, Q, True, reuse=True), reg(0, P, True, reuse=True), arm(0)],
        [reg(0, P, explicit=[[1, [3], [1]]]), rem(0), reg(0, Q, reuse=True), arm(0)],  # explicit: nothing remembered
    ]
    out = []
    for h in hs:
        for ids in (None, [0, 1, 2, 3, 4, 5, 6, 7]):
            c = dict(base, ops=[dict(o) for o in w] + [dict(o) for o in h])
            if ids is not None:
                c['ids'] = ids
            out.append(c)
    return out


def ephemeral_history(rng):
    """a free random history in which no program object is kept alive by the harness and every new object is allocated
    at the address of a dead one when the allocator allows it"""
    c = rnd_history(rng, rng.randint(8, 16), clean=False)
    c['stream'] = 'ephemeral'
    for o in c['ops']:
        if o['op'] == 'register':
            o['ephemeral'] = True
            o['reuse'] = True
    return c


IDENT_WIRING = [
    set_ch(0, [[0, 0, False, 0]]),
    set_ch(1, [[0, 1, False, 0], [1, 0, False, 0]]),
    {'op': 'set_measurement', 'name': 0, 'arg': {'k': 'many', 'masks': [0]}, 'allow': False},
]


def exhaustive_identity(max_len, min_len=1):
    """ALL histories of min_len..max_len operations over an 11-letter alphabet whose registrations draw from a pool of
    two Loop objects (P and its structurally equal twin P') on a 2-output + 1-marker generator and a 1-output one;
    the wiring letters keep the set of generators of every id and only change position / transformation / marker"""
    P = {'tag': 100, 'obj': 0, 'chans': [0, 1], 'meas': [[0, 0, 1]], 'shape': 'leaf'}
    P2 = dict(P, tag=101, obj=1)
    alpha = [
        {'op': 'register', 'name': 0, 'prog': P, 'update': False},
        {'op': 'register', 'name': 0, 'prog': P, 'update': True},
        {'op': 'register', 'name': 0, 'prog': P2, 'update': True},
        {'op': 'register', 'name': 1, 'prog': P, 'update': True},
        {'op': 'remove', 'name': 0}, {'op': 'clear'}, {'op': 'arm', 'name': 0},
        set_ch(0, [[0, 0, False, 2]], allow=True),                          # another transformation
        set_ch(0, [[0, 1, False, 0]], allow=True),                          # other position (shared with id 1)
        set_ch(0, [[0, 0, False, 0], [0, 0, True, 0]], allow=True),         # extra marker
        set_ch(1, [[0, 0, False, 1], [1, 0, False, 0]], allow=True),        # id 1 takes the position of id 0
    ]
    out = []
    for n in range(min_len, max_len + 1):
        for combo in itertools.product(range(len(alpha)), repeat=n):
            ops = [dict(o) for o in IDENT_WIRING]
            for t, i in enumerate(combo):
                o = dict(alpha[i])
                if o['op'] == 'register':
                    o['prog'] = dict(o['prog'])
                    o['cbtag'] = 200 + t
                ops.append(o)
            out.append({'kind': 'hist', 'stream': 'exhaustive-identity', 'awgs': [[2, 1], [1, 0]], 'ndacs': 1,
                        'masks': [[0, 0], [0, 1]], 'ops': ops, 'chpool': True})
    return out


def gen_cases(rng, tier, ctx):
    cases = targeted(rng) + targeted_identity() + targeted_multimask() + targeted_malformed() + targeted_ephemeral()
    n = {'quick': 1, 'thorough': 12}[tier]
    for _ in range(130 * n):
        cases.append(identity_history(rng))
    for _ in range(120 * n):
        cases.append(scenario_history(rng))
    for _ in range(150 * n):
        cases.append(rnd_history(rng, rng.randint(6, 15), clean=True))
    for _ in range(110 * n):
        cases.append(rnd_history(rng, rng.randint(6, 15), clean=False))
    for _ in range(60 * n):
        cases.append(rnd_history(rng, rng.randint(5, 12), clean=False, malformed_rate=0.45))
    if tier == 'quick':
        ex = exhaustive(2) + exhaustive_small(2) + [c for c in exhaustive_small(3, 3) if rng.random() < 0.2]
        ex += exhaustive_identity(2) + [c for c in exhaustive_identity(3, 3) if rng.random() < 0.08]
    else:
        cases.extend(exhaustive_small(4))          # complete: 11 110 histories
        cases.extend(exhaustive_identity(3))       # complete: 1 463 histories
        cases.extend(c for c in exhaustive_identity(4, 4) if rng.random() < 0.35)
        ex = exhaustive(3)
        ex += [c for c in exhaustive(4)[len(ex):] if rng.random() < 0.25]      # length-4 histories, sampled 1:4
        for _ in range(600):
            cases.append(rnd_history(rng, rng.randint(16, 28), clean=rng.random() < 0.6))
    cases.extend(ex)
    for _ in range(40 * n):                        # round 5 (appended last: the earlier streams draw the same numbers as before)
        cases.append(ephemeral_history(rng))
    return cases


# ---------------------------------------------------------------------------------------------------------------------
# evidence helpers / oracle

def nontrivial(case, obs):
    if 'steps' not in obs:
        return False
    seen_reg = False
    for op, st in zip(case['ops'], obs['steps']):
        if seen_reg and op['op'] in ('register', 'remove', 'clear', 'arm', 'run', 'set_channel', 'rm_channel', 'update_params'):
            return True
        if op['op'] == 'register' and st['err'] is None:
            seen_reg = True
    return False


def histogram_keys(case, obs):
    keys = ['stream:' + case.get('stream', '?'), 'len:%d' % (len(case['ops']) // 4 * 4)]
    if 'steps' not in obs:
        return keys + ['obs:crash']
    for op, st in zip(case['ops'], obs['steps']):
        k = op['op']
        if k == 'register' and op.get('update'):
            k = 'register(update)'
        keys.append('op:%s:%s' % (k, st['err'] or 'ok'))
    verdict = S.evaluate(case, obs)
    keys.append('spec:' + ('ok' if verdict is None else verdict['clause']))
    if case.get('ids'):
        keys.append('ids:int' if all(isinstance(x, int) for x in case['ids']) else 'ids:mixed')
    if obs.get('truncated'):
        keys.append('obs:cut-before-set-order-dependent-call')
    if 'reused' in obs:
        keys.append('idreuse:%s' % ('hit' if obs['reused'] else 'miss'))
    stt = S.statuses(case, obs)
    for side in ('awg', 'dac'):
        if stt.lost[side]:
            keys.append('status:%s-lost' % side)
        if stt.cov[side] - stt.lost[side]:
            keys.append('status:%s-covered-at-end' % side)
    return keys


# Classification of a specification failure is done by Coq: a case that fails the plain routing invariant is an instance
# of known finding C18-rewire-stale iff Corr.check_framed (the invariant that is PROVED for every history, evaluated on
# the observations) accepts it.  py_spec remembers the failing cases; the first classify() call evaluates check_framed on
# all of them in one coqc batch.  The Python mirror in c18_spec.py only words the message and guides shrinking.
_PENDING = {}
_FRAMED = {}


def _coq_eval(pairs):
    """[(plain, framed)]: do Corr.check_plain / Corr.check_framed accept (case, obs)?  fail-closed: (True, False) = "not an
    instance of the known finding" for all when coqc fails"""
    import tempfile
    if not pairs:
        return []
    wd = tempfile.mkdtemp(prefix='c18_framed_', dir=vlib.BUILD)
    try:
        terms = [to_coq_plain(c, o) for c, o in pairs]
        res = vlib.run_coq_cases(wd, CORR_IMPORTS, ['check_framed', 'check_plain'], terms, shard=SHARD, prelude=PRELUDE)
        bad_f, bad_p = set(res['check_framed']), set(res['check_plain'])
        return [(i not in bad_p, i not in bad_f) for i in range(len(pairs))]
    except RuntimeError:
        return [(True, False)] * len(pairs)
    finally:
        vlib.rmtree(wd)


def _coq_framed(pairs):
    """[bool]: does Corr.check_framed accept (case, obs)?  fail-closed: False for all when coqc fails"""
    return [f for _, f in _coq_eval(pairs)]


def framed_accepts(case, obs):
    """known finding C18-rewire-stale <=> coqc's check_plain REJECTS the observation and coqc's check_framed ACCEPTS it.
    (Round 5: a failure that only the Python mirror sees - check_plain and check_framed both accept - used to be filed
    under the known finding as well; now it is a VIOLATION: mirror and Coq specification disagree.)"""
    k = vlib.canonical_hash(case)
    if k not in _FRAMED:
        _PENDING.setdefault(k, (case, obs))
        items = list(_PENDING.items())
        _PENDING.clear()
        for (kk, _), (plain, framed) in zip(items, _coq_eval([v for _, v in items])):
            _FRAMED[kk] = framed and not plain
    return _FRAMED[k]


def py_spec(case, obs):
    if 'steps' not in obs:
        return None     # CCrash fails in Coq
    v = S.evaluate(case, obs)
    if v is None:
        return True
    _PENDING.setdefault(vlib.canonical_hash(case), (case, obs))
    return 'step %d (%s): %s' % (v['step'], case['ops'][v['step']]['op'], v['why'])


def classify(case, obs):
    if 'steps' not in obs:
        return None
    return 'C18-rewire-stale' if framed_accepts(case, obs) else None


def shrink(case, obs, ctx):
    """drop operations while the specification still fails with the same clause and the case is not a known class
    (guided by the Python mirror; the result is kept only if Coq's check_framed rejects it as well)"""
    v = S.evaluate(case, obs)
    if v is None:
        return case, obs
    best, best_obs = case, obs
    ops = list(case['ops'][:v['step'] + 1])
    i = len(ops) - 2
    while i >= 0:
        trial = dict(best, ops=ops[:i] + ops[i + 1:])
        o = run_impl(trial)
        if 'steps' in o:
            v2 = S.evaluate(trial, o)
            if v2 is not None and v2['clause'] == v['clause'] and S.classify(trial, o, v2) == S.classify(case, obs, v):
                ops = trial['ops'][:v2['step'] + 1]
                best, best_obs = dict(trial, ops=ops), {'steps': o['steps'][:len(ops)]}
                i = min(i, len(ops) - 1)
        i -= 1
    if best is not case and _coq_framed([(best, best_obs)]) != [False]:
        return case, obs
    return best, best_obs


def search_failing(ctx, broken):
    """specification oracle against the implementation on targeted + exhaustive + random histories"""
    import random
    rng = random.Random(12345)
    pool = targeted(rng) + targeted_identity() + targeted_multimask() + targeted_malformed() + targeted_ephemeral() + exhaustive(2) + exhaustive_small(3) + exhaustive_identity(2) + \
        [scenario_history(rng) for _ in range(300)] + [identity_history(rng) for _ in range(300)] + \
        [ephemeral_history(rng) for _ in range(100)] + \
        [rnd_history(rng, rng.randint(6, 15), clean=True) for _ in range(400)] + \
        [rnd_history(rng, rng.randint(6, 15), clean=False) for _ in range(200)]
    suspects = []
    for c in pool:
        o = run_impl(c)
        if 'steps' not in o:
            return c, o, 'implementation crashed: %s' % o.get('crash', 'hang')
        v = S.evaluate(c, o)
        if v is not None:
            if S.classify(c, o, v) is None:
                suspects.insert(0, (c, o))
            else:
                suspects.append((c, o))
    for k in range(0, len(suspects), 400):
        chunk = suspects[k:k + 400]
        for (c, o), ok in zip(chunk, _coq_framed(chunk)):
            if not ok:
                c2, o2 = shrink(c, o, ctx)
                return c2, o2, py_spec(c2, o2)
    return None


MANIFEST = {
    'level_text': 'Proof (Coq, unbounded histories incl. raising calls, NO guard) for an executable model of HardwareSetup + '
                  'DummyAWG/DummyDAC: after every history the routing invariant holds framed by an executable status of '
                  'each program name per side (clean / covered / lost): for clean names every AWG holds exactly the '
                  'registered programs that use it with every channel id / voltage transformation at the wired output, '
                  'every DAC exactly the wired masks with the program\'s own windows, participation records exact; for '
                  'covered names (wiring of a used name changed after registration) the copies sit exactly on the recorded '
                  'devices, and remove_program / register_program(update) / clear_programs with all recorded devices wired '
                  'make the name clean again; armed => held for every name that is not lost.  Round 4: status per (name, '
                  'device) through every history on BOTH sides: a name that is not lost keeps all routing clauses at every '
                  'generator / acquisition device on which none of its names was re-wired since its last registration, even '
                  'when it is covered because of a re-wiring elsewhere.  Post-conditions for arm, remove, clear and '
                  'update_parameters after any history, for clean and covered names.  The observation-level framed check that '
                  'separates the known finding from a VIOLATION is a Coq function; round 4: it is proved AS A WHOLE (status '
                  'tracker, invariant clauses, post-condition clauses, call logs) to accept the model\'s own trace of every '
                  'history of well-formed operations on a bench containing every recorded device.  Under the round-1 guard all '
                  'names stay clean (guarded theorems kept).  The plain invariant without framing is refuted by a 3-call '
                  'witness (known finding C18-rewire-stale).  Model tied to the code by a step-by-step correspondence check on '
                  'the real objects after every call, with program objects and channel objects reused across calls; a '
                  'program\'s own windows are read off a twin object that is never handed to the setup (they are an input of '
                  'the model: that the setup registers the OBJECT\'s own windows - its per-object memory of taken measurements - '
                  'was tested only until round 5).  Round 6: Heap.v models that memory (_take_measurements: id()-keyed table, weak '
                  'reference + identity test) on a heap with object death and address reuse; for every history of '
                  'allocations, attachments, takes and deaths it returns everything ever attached to the very object '
                  '(C18_take_own_windows), and in the machine combined with the routing model every registration that '
                  'reaches it is Model.register_program on the object\'s own windows and records them '
                  '(C18_register_own_windows); CorrHeap.check_heap judges the real setup\'s records against this model in coqc.  Round 5: under the guard arm_program leaves EVERY generator (wired or not) armed with the '
                  'name iff the program uses it (C18_arm_awg_exact); without the guard "disarms all other generators" is proved '
                  'for wired generators only (un-wired ones keep their state: part of the known finding).',
    'level_note': 'Trusted: Coq kernel, harness, DummyAWG/DummyDAC as stand-ins for real drivers (set_volatile_parameters '
                  'replaced by a recorder; devices never raise RuntimeError, so the warning branches of remove_program are '
                  'not exercised), set/dict iteration order inside register_program is an input of the model chosen to '
                  'explain the observed outcome, Loop.get_measurement_windows of a never-registered twin as the program\'s '
                  'own windows.  check_framed evaluates the per-(name, device) status too (trackers proved equal to the '
                  'specification\'s, clauses proved to accept the model); the Python mirror does not.  Three defects of the '
                  'unchanged code were repaired (825add7, a019130 in round 1; bc650d0 in round 4: register_program forgot '
                  'the windows it takes out of a Loop, so registering the same object again silently registered none); '
                  'C18-rewire-stale is a listed known finding (refusing to re-wire a used name would break the documented '
                  're-wire + update workflow).',
    'technique': 'Coq invariant proof over operation histories + correspondence check on HardwareSetup with dummy devices',
    'design_ref': 'DESIGN.md §5 C18',
}
