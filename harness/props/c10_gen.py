"""C10 — generator of real pulse-template forests (JSON-able descriptions) and their construction."""
import warnings

DURS = [4, 'd', 'd*2', 8]
MID = {4: 2, 'd': 'd/2', 'd*2': 'd', 8: 'd'}
# other expressions for the same duration under both probe assignments of c10.PROBES (d = 4 / 8, a + c = 4 / 8, b*2 = 4 / 8)
DUR_ALIAS = {'d': ['a + c', 'b*2'], 'd*2': ['b*4', '2*a + 2*c']}
UNSORTED_POOLS = [['B', 'A'], ['Y', 'X'], ['b9', 'b10'], ['b10', 'b9', 'B'], ['b', 'B'], ['C', 'A', 'B'], ['a', 'B', 'c']]
VALS = [0, 1, -1, 0.5, 2.25, 0.30000000000000004, 0.3333333333333333, 'a', 'v', 'v*2', 'a+b', 'w/4', 'x', 'y', 'a*x', 'b-c', '1/3', 'Max(a, b)', 3]
CONSTRAINTS = ['a < b', 'b <= c', 'd > 0', 'n >= 0', 'a + b == c', 'v*2 >= w', 'c > a']
INTERP = ['hold', 'linear', 'jump', 'default']
COUNTS = [2, 'n', 1, 0, 'n*2', 3, 'k']
RANGES = [3, ['a', 'c'], [0, 'n', 1], ['c', 'a', -1], [0, 'k', 2], 'n', [2]]
BACKENDS = ['dict', 'fs', 'zip']


def _kw(n, *names):
    out = {}
    for k in names:
        v = n.get(k)
        if v:
            out[k] = [tuple(m) for m in v] if k == 'measurements' else list(v)
    return out


def _ch(c):
    return c


def _x(n):
    """explicit keyword arguments, passed verbatim ("declared as empty": [], {}, None, 0, False, set())"""
    out = {}
    for k, v in (n.get('xkw') or {}).items():
        if isinstance(v, dict) and '#set' in v:
            v = set(v['#set'])
        elif isinstance(v, dict) and '#dict' in v:
            v = {a: b for a, b in v['#dict']}
        elif k == 'measurements' and isinstance(v, list):
            v = [tuple(m) for m in v]
        out[k] = v
    return out


def _kwx(n, *names):
    out = _kw(n, *names)
    out.update(_x(n))
    return out


def build_node(n, objs):
    from qupulse.pulses import (TablePT, PointPT, FunctionPT, ConstantPT, SequencePT, RepetitionPT, ForLoopPT,
                                MappingPT, AtomicMultiChannelPT, ParallelChannelPT, ArithmeticPT,
                                ArithmeticAtomicPT, TimeReversalPT)
    from qupulse.pulses.abstract_pulse_template import AbstractPulseTemplate
    k, ident = n['k'], n.get('id')

    def ch(i):
        if isinstance(i, dict) and 'tuple' in i:        # (template, mapping, ...) member: MappingPT.from_tuple in the constructor
            return tuple([objs[i['tuple'][0]]] + [{a: b for a, b in m} for m in i['tuple'][1:]])
        return objs[i]
    if k == 'Table':
        return TablePT({c: [tuple(e) for e in es] for c, es in n['entries']}, identifier=ident,
                       **_kwx(n, 'parameter_constraints', 'measurements'))
    if k == 'Point':
        return PointPT([tuple(tuple(x) if isinstance(x, list) else x for x in e) for e in n['points']], list(n['chans']),
                       identifier=ident, **_kwx(n, 'parameter_constraints', 'measurements'))
    if k == 'Function':
        return FunctionPT(n['ex'], n['dur'], channel=n['ch'], identifier=ident,
                          **_kwx(n, 'parameter_constraints', 'measurements'))
    if k == 'Constant':
        kw = _kwx(n, 'measurements')
        if n.get('name') is not None:
            kw['name'] = n['name']
        return ConstantPT(n['dur'], {c: v for c, v in n['amps']}, identifier=ident, **kw)
    if k == 'Sequence':
        return SequencePT(*[ch(i) for i in n['subs']], identifier=ident, **_kwx(n, 'parameter_constraints', 'measurements'))
    if k == 'Repetition':
        return RepetitionPT(ch(n['body']), n['count'], identifier=ident, **_kwx(n, 'parameter_constraints', 'measurements'))
    if k == 'ForLoop':
        r = n['rng']
        return ForLoopPT(ch(n['body']), n['idx'], tuple(r) if isinstance(r, list) and n.get('rng_as') != 'list' else r, identifier=ident,
                         **_kwx(n, 'parameter_constraints', 'measurements'))
    if k == 'Mapping':
        kw = {}
        if n.get('pmap') is not None:
            kw['parameter_mapping'] = {a: b for a, b in n['pmap']}
        if n.get('mmap') is not None:
            kw['measurement_mapping'] = {a: b for a, b in n['mmap']}
        if n.get('cmap') is not None:
            kw['channel_mapping'] = {a: b for a, b in n['cmap']}
        if n.get('strict'):     # the class default of allow_partial_parameter_mapping
            return MappingPT(ch(n['tmpl']), identifier=ident, **{**kw, **_kwx(n, 'parameter_constraints')})
        return MappingPT(ch(n['tmpl']), identifier=ident, allow_partial_parameter_mapping=True,
                         **{**kw, **_kwx(n, 'parameter_constraints')})
    if k == 'AtomicMulti':
        kw = _kwx(n, 'parameter_constraints', 'measurements')
        if n.get('dur') is not None and 'duration' not in kw:
            kw['duration'] = n['dur']
        return AtomicMultiChannelPT(*[ch(i) for i in n['subs']], identifier=ident, **kw)
    if k == 'Parallel':
        if n.get('then_over') is not None:      # derived: an anonymous ParallelChannelPT rebuilt by with_parallel_channels
            first = ParallelChannelPT(ch(n['tmpl']), {c: v for c, v in n['over']})
            return first.with_parallel_channels({c: v for c, v in n['then_over']})
        return ParallelChannelPT(ch(n['tmpl']), {c: v for c, v in n['over']}, identifier=ident)
    if k == 'Arithmetic':
        def operand(o):
            if isinstance(o, dict) and 'pt' in o:
                return ch(o['pt'])
            if isinstance(o, dict):
                return {c: v for c, v in o['map']}
            return o
        return ArithmeticPT(operand(n['lhs']), n['op'], operand(n['rhs']), identifier=ident)
    if k == 'ArithmeticAtomic':
        return ArithmeticAtomicPT(ch(n['lhs']), n['op'], ch(n['rhs']), identifier=ident, silent_atomic=True,
                                  **_kwx(n, 'measurements'))
    if k == 'TimeReversal':
        return TimeReversalPT(ch(n['inner']), identifier=ident)
    if k == 'Abstract':
        kw = {}
        for key in ('defined_channels', 'parameter_names', 'measurement_names'):
            if n.get(key) is not None:
                kw[key] = set(n[key])
        if n.get('integral') is not None:
            kw['integral'] = {c: v for c, v in n['integral']}
        if n.get('duration') is not None:
            kw['duration'] = n['duration']
        kw.update(_x(n))
        return AbstractPulseTemplate(ident, **kw)
    raise ValueError(k)


def denp(x):
    """{'#np': [dtype, value]} -> numpy scalar, {'#range': [a, b, c]} -> Python range, {'#prange': [...]} -> ParametrizedRange
    (JSON-able spellings of constructor arguments that are not JSON values)"""
    if isinstance(x, dict):
        if set(x) == {'#np'}:
            import numpy
            return getattr(numpy, x['#np'][0])(x['#np'][1])
        if set(x) == {'#expr'}:
            from qupulse.expressions import ExpressionScalar
            return ExpressionScalar(x['#expr'])
        if set(x) == {'#sym'}:          # a sympy object (relation handed over as sympy.Ne(...), not as text)
            from qupulse.utils.sympy import sympify
            return sympify(x['#sym'])
        if set(x) == {'#pc'}:
            from qupulse.pulses.parameters import ParameterConstraint
            return ParameterConstraint(x['#pc'])
        if set(x) == {'#range'}:
            return range(*x['#range'])
        if set(x) == {'#prange'}:
            from qupulse.pulses.range import ParametrizedRange
            return ParametrizedRange(*x['#prange'])
        return {k: denp(v) for k, v in x.items()}
    if isinstance(x, list):
        return [denp(e) for e in x]
    return x


def build(nodes):
    objs = []
    with warnings.catch_warnings():
        warnings.simplefilter('ignore')
        for n in nodes:
            objs.append(build_node(denp(n), objs))
    return objs


class Gen:
    def __init__(self, rng, int_mode=False, p_named=0.4, abstract=False, numeric=False, unsorted=False):
        self.rng = rng
        self.unsorted = unsorted    # members of compositions in non-sorted order, with different duration expressions
        self.nodes = []
        self.objs = []
        self.meta = []          # per node: (channels tuple, atomic bool, dur spec or None)
        self.p_named = p_named
        self.int_mode = int_mode
        self.abstract = abstract
        self.numeric = numeric      # parameter-free leaves: numbers only (templates without any parameter)
        self.counter = 0
        self.flags = set()

    # -- helpers
    def fresh_id(self):
        self.counter += 1
        if self.unsorted:       # identifiers that sort differently from creation / position order, mixed case
            return '%s%d' % ('zYxW'[self.counter % 4], 50 - self.counter)
        return 'n%d' % self.counter

    def maybe_id(self, force=False):
        if force or self.rng.random() < self.p_named:
            return self.fresh_id()
        return None

    def add(self, node, chans, atomic, dur):
        with warnings.catch_warnings():
            warnings.simplefilter('ignore')
            obj = build_node(denp(node), self.objs)
        self.nodes.append(node)
        self.objs.append(obj)
        self.meta.append((tuple(chans), atomic, dur))
        return len(self.nodes) - 1

    def val(self, need=None, t_ok=False):
        r = self.rng
        if need and r.random() < 0.7:
            return r.choice(['%s' % need, '%s*v' % need, '%s+a' % need, '%s/2' % need])
        if self.numeric:
            return r.choice([0, 1, -1, 0.5, 2.25, 3])
        if t_ok and r.random() < 0.3:
            return r.choice(['t*a', 'sin(t)', 't/4 + v'])
        return r.choice(VALS)

    def extras(self, dur, meas=True, cons=True):
        r = self.rng
        out = {}
        if self.numeric:
            if meas and r.random() < 0.6:
                out['measurements'] = r.choice([[['m', 0, 1]], [['k', 1, 1]], [['m', 0, 1], ['k', 2, 1]]])
            return out
        if meas and r.random() < 0.3:
            out['measurements'] = r.choice([[['m', 0, dur]], [['k', MID[dur], 1]], [['m', 0, 1], ['k', 'v', 'x']],
                                            [['m', 0.5, 'd/4']]])
        if cons and r.random() < 0.25:
            out['parameter_constraints'] = r.sample(CONSTRAINTS, r.choice([1, 1, 2]))
        return out

    def dur(self):
        return self.rng.choice([4, 8]) if self.numeric else self.rng.choice(DURS)

    def pooled(self, chans, atomic=None, dur=None):
        cands = [i for i, (c, a, d) in enumerate(self.meta)
                 if self.nodes[i].get('id') is not None and set(c) == set(chans)
                 and (atomic is None or (a and (dur is None or d == dur)))]
        if cands and self.rng.random() < 0.25:
            return self.rng.choice(cands)
        return None

    # -- atomic templates on exactly the channels `chans` with duration spec `dur`
    def atomic(self, chans, dur, depth, need=None, force_id=False, alias=None):
        """alias: another expression for the same duration (equal under the probe assignments only), used by leaf kinds"""
        r = self.rng
        if need is None and not force_id and alias is None:
            p = self.pooled(chans, atomic=True, dur=dur)
            if p is not None:
                self.flags.add('shared')
                return p
        kinds = ['Table', 'Table', 'Point', 'Constant', 'Constant']
        if len(chans) == 1:
            kinds += ['Function', 'Function']
        if depth > 0:
            if len(chans) >= 2:
                kinds += ['AtomicMulti', 'AtomicMulti', 'ParAtomic']
                if self.unsorted:
                    kinds += ['AtomicMulti'] * 6
            kinds += ['ArithmeticAtomic', 'MapAtomic', 'ArithAtomic', 'RevAtomic']
        k = r.choice(kinds)
        ident = self.maybe_id(force_id)
        mid = MID[dur]
        end = dur
        if alias is not None and k in ('Table', 'Point', 'Function', 'Constant'):
            end = alias
            self.flags.add('dur_alias')
        if k == 'Table':
            entries = []
            for j, c in enumerate(chans):
                es = [[0, self.val(need if j == 0 else None)]]
                if not self.numeric and need is None and r.random() < 0.06:
                    es[0][1] = r.choice(['t', 't*a', 'v + t'])      # an ordinary parameter that is called like the time variable
                    self.flags.add('param_t')
                if r.random() < 0.5:
                    es.append([mid, self.val(), r.choice(INTERP)])
                es.append([end, self.val(), r.choice(INTERP)] if r.random() < 0.8 else [end, self.val()])
                entries.append([c, es])
            return self.add(dict(k='Table', id=ident, entries=entries, **self.extras(dur)), chans, True, dur)
        if k == 'Point':
            vec = len(chans) > 1 and r.random() < 0.5
            mk = (lambda nd=None: [self.val(nd) for _ in chans]) if vec else (lambda nd=None: self.val(nd))
            pts = [[0, mk(need) if not vec else [self.val(need)] + [self.val() for _ in chans[1:]]]]
            if r.random() < 0.5:
                pts.append([mid, mk(), r.choice(INTERP)])
            pts.append([end, mk(), r.choice(INTERP)])
            return self.add(dict(k='Point', id=ident, points=pts, chans=list(chans), **self.extras(dur)), chans, True, dur)
        if k == 'Function':
            ex = self.val(need, t_ok=True)
            return self.add(dict(k='Function', id=ident, ex=ex, dur=end, ch=chans[0], **self.extras(dur)), chans, True, dur)
        if k == 'Constant':
            amps = [[c, self.val(need if j == 0 else None)] for j, c in enumerate(chans)]
            name = r.choice([None, None, 'my_const'])
            return self.add(dict(k='Constant', id=ident, dur=end, amps=amps, name=name, **self.extras(dur, cons=False)),
                            chans, True, dur)
        if k == 'AtomicMulti':
            cut = r.randint(1, len(chans) - 1)
            a = self.atomic(chans[:cut], dur, depth - 1, need)
            alias_b = r.choice(DUR_ALIAS[dur]) if self.unsorted and dur in DUR_ALIAS and r.random() < 0.7 else None
            b = self.atomic(chans[cut:], dur, depth - 1, alias=alias_b)
            d = r.choice([None, None, dur, 'u'])
            if d is not None:
                self.flags.add('amc_duration')
            subs = [a, b]
            if self.unsorted and r.random() < 0.6:       # the member on the later channels first
                subs = [b, a]
                self.flags.add('amc_swapped')
            return self.add(dict(k='AtomicMulti', id=ident, subs=subs, dur=d, **self.extras(dur)), chans, True, dur)
        if k == 'ParAtomic':
            o = r.choice(chans)
            inner = self.atomic([c for c in chans if c != o], dur, depth - 1, need)
            return self.add(dict(k='Parallel', id=ident, tmpl=inner, over=[[o, self.val(t_ok=True)]]), chans, True, dur)
        if k == 'ArithmeticAtomic':
            a = self.atomic(chans, dur, depth - 1, need)
            sub_ch = chans if r.random() < 0.6 or len(chans) < 2 else chans[:1]
            b = self.atomic(sub_ch, dur, depth - 1)
            return self.add(dict(k='ArithmeticAtomic', id=ident, lhs=a, rhs=b, op=r.choice(['+', '-']),
                                 **self.extras(dur, cons=False)), chans, True, dur)
        if k == 'MapAtomic':
            return self.mapping(chans, depth, dur=dur, need=need, ident=ident)
        if k == 'ArithAtomic':
            inner = self.atomic(chans, dur, depth - 1, need)
            return self.arith(inner, chans, ident, True, dur)
        if k == 'RevAtomic':
            inner = self.atomic(chans, dur, depth - 1, need)
            return self.add(dict(k='TimeReversal', id=ident, inner=inner), chans, True, dur)
        raise ValueError(k)

    def arith(self, inner, chans, ident, atomic, dur):
        r = self.rng
        if r.random() < 0.4:
            sub = [c for c in chans if r.random() < 0.6] or [chans[0]]
            sc = {'map': [[c, self.val()] for c in sub]}
        else:
            sc = self.val(t_ok=atomic and r.random() < 0.3)
        if r.random() < 0.6:
            node = dict(k='Arithmetic', id=ident, lhs={'pt': inner}, op=r.choice(['+', '-', '*', '/']), rhs=sc)
        else:
            node = dict(k='Arithmetic', id=ident, lhs=sc, op=r.choice(['+', '-', '*']), rhs={'pt': inner})
        return self.add(node, chans, atomic, dur)

    def mapping(self, chans, depth, dur=None, need=None, ident=None):
        """MappingPT whose outer channels are `chans`; inner channels may be renamed / dropped"""
        r = self.rng
        inner_ch = list(chans)
        cmap = []
        mode = r.choice(['same', 'rename', 'drop', 'partial', 'swap'])
        extra = 'Z' if not self.int_mode else r.choice(['Z', 9])
        if mode == 'swap' and len(chans) >= 2:      # {A: B, B: A}
            cmap = [[chans[0], chans[1]], [chans[1], chans[0]]]
            self.flags.add('swap')
        elif mode == 'rename':
            j = r.randrange(len(chans))
            inner_ch[j] = extra
            cmap.append([extra, chans[j]])
        elif mode == 'drop':
            inner_ch.append(extra)
            cmap.append([extra, None])
        elif mode == 'partial':
            cmap.append([chans[0], chans[0]])
        if dur is not None:
            inner = self.atomic(inner_ch, dur, depth - 1, need)
        else:
            inner = self.tree(inner_ch, depth - 1)
        obj = self.objs[inner]
        node = dict(k='Mapping', id=ident, tmpl=inner)
        if cmap or r.random() < 0.2:
            node['cmap'] = cmap
        params = sorted(p for p in obj.parameter_names)
        if params and r.random() < 0.6:
            chosen = r.sample(params, min(len(params), r.choice([1, 1, 2])))
            pm = []
            ordinary = [p for p in chosen if p != need and p not in ('d', 'u', 'n', 'k', 'i', 't')]
            swap = ordinary[:2] if len(ordinary) >= 2 and r.random() < 0.3 else []
            for p in chosen:
                if p in swap:       # {a: b, b: a}
                    pm.append([p, swap[1 - swap.index(p)]])
                elif p == need:     # identity, or the name rebound to an expression of itself
                    pm.append([p, r.choice([p, p, p, p + ' + 1', p + '*2'])])
                elif p not in ('d', 'u', 'n', 'k', 'i') and r.random() < 0.2:
                    pm.append([p, r.choice([p + '*2', p + ' + a', '2*' + p + ' - w'])])
                elif p in ('d', 'u'):
                    pm.append([p, r.choice(['d', 'u/2', 'd*1'])])
                elif p in ('n', 'k', 'i'):
                    pm.append([p, r.choice([p, 'n', 'n + 1', 2])])
                else:
                    pm.append([p, r.choice(['a', 'a+b', 'v*2', 0.5, p + '_ext', 'w', 3])])
            node['pmap'] = pm
        mnames = sorted(obj.measurement_names)
        if len(mnames) >= 2 and r.random() < 0.3:
            node['mmap'] = [[mnames[0], mnames[1]], [mnames[1], mnames[0]]]
            self.flags.add('swap')
        elif mnames and r.random() < (0.9 if self.numeric else 0.5):
            node['mmap'] = [[mnames[0], r.choice(['q', 'm', 'k2'])]]
        if r.random() < 0.15:
            node['parameter_constraints'] = [r.choice(CONSTRAINTS)]
        try:
            return self.add(node, chans, dur is not None, dur)
        except Exception:   # noqa   (e.g. two channels mapped to one target): fall back to the plain inner mapping
            node = dict(k='Mapping', id=ident, tmpl=inner, cmap=cmap)
            return self.add(node, chans, dur is not None, dur)

    # -- arbitrary templates on exactly `chans`
    def tree(self, chans, depth, force_id=False):
        r = self.rng
        chans = list(chans)
        if not force_id:
            p = self.pooled(chans)
            if p is not None:
                self.flags.add('shared')
                return p
        if depth <= 0:
            return self.atomic(chans, self.dur(), 0, force_id=force_id)
        kinds = ['atomic', 'atomic', 'Sequence', 'Sequence', 'Repetition', 'ForLoop', 'Mapping', 'Parallel',
                 'Arithmetic', 'TimeReversal']
        if self.abstract:
            kinds += ['Abstract', 'Abstract']
        if self.unsorted and len(chans) >= 2:
            kinds += ['atomic'] * 3
        k = r.choice(kinds)
        ident = self.maybe_id(force_id)
        if k == 'atomic':
            return self.atomic(chans, self.dur(), depth, force_id=force_id)
        if k == 'Sequence':
            subs = [self.tree(chans, depth - 1) for _ in range(r.choice([1, 2, 2, 3]))]
            return self.add(dict(k='Sequence', id=ident, subs=subs, **self.extras('d')), chans, False, None)
        if k == 'Repetition':
            body = self.tree(chans, depth - 1)
            return self.add(dict(k='Repetition', id=ident, body=body, count=r.choice(COUNTS), **self.extras('d')),
                            chans, False, None)
        if k == 'ForLoop':
            body = self.atomic(chans, self.dur(), depth - 1, need='i')
            if r.random() < 0.4:
                other = self.tree(chans, depth - 1)
                body = self.add(dict(k='Sequence', id=self.maybe_id(), subs=[body, other]), chans, False, None)
            return self.add(dict(k='ForLoop', id=ident, body=body, idx='i', rng=r.choice(RANGES), **self.extras('d')),
                            chans, False, None)
        if k == 'Mapping':
            return self.mapping(chans, depth, ident=ident)
        if k == 'Parallel':
            if len(chans) >= 2 and r.random() < 0.6:
                o = r.choice(chans)
                inner = self.tree([c for c in chans if c != o], depth - 1)
            else:
                o = r.choice(chans)
                inner = self.tree(chans, depth - 1)
            return self.add(dict(k='Parallel', id=ident, tmpl=inner, over=[[o, self.val()]]), chans, False, None)
        if k == 'Arithmetic':
            inner = self.tree(chans, depth - 1)
            return self.arith(inner, chans, ident, False, None)
        if k == 'TimeReversal':
            inner = self.tree(chans, depth - 1)
            return self.add(dict(k='TimeReversal', id=ident, inner=inner), chans, False, None)
        if k == 'Abstract':
            node = dict(k='Abstract', id=ident or self.fresh_id(), defined_channels=list(chans))
            if r.random() < 0.6:
                node['parameter_names'] = r.sample(['a', 'b', 'd', 'n'], 2)
            if r.random() < 0.4:
                node['measurement_names'] = ['m']
            if r.random() < 0.5:
                node['integral'] = [[c, self.val()] for c in chans]
                self.flags.add('abstract_integral')
            if r.random() < 0.6:
                node['duration'] = r.choice(['d', 4, 'a+b'])
            return self.add(node, chans, False, None)
        raise ValueError(k)


def gen_store_case(rng, idx, tier):
    int_mode = rng.random() < 0.14
    abstract = rng.random() < 0.08
    numeric = rng.random() < 0.12
    unsorted = not int_mode and rng.random() < 0.25
    g = Gen(rng, int_mode=int_mode, p_named=rng.choice([0.15, 0.4, 0.4, 0.7]), abstract=abstract, numeric=numeric,
            unsorted=unsorted)
    if numeric:
        g.flags.add('numeric')
    if int_mode:
        pool = rng.choice([[0, 1], [0, 'A'], [1], [2, 0, 1]])
        g.flags.add('int_key')
    elif unsorted:
        pool = rng.choice(UNSORTED_POOLS)
        g.flags.add('unsorted')
    else:
        pool = rng.choice([['A'], ['A', 'B'], ['A', 'B'], ['A', 'B', 'C'], ['out']])
    depth = rng.choice([1, 2, 2, 3]) if tier == 'quick' else rng.choice([1, 2, 3, 3, 4])
    roots = [g.tree(pool, depth, force_id=True)]
    if rng.random() < 0.35:
        roots.append(g.tree(pool, rng.choice([1, 2]), force_id=True))
    named = [i for i, n in enumerate(g.nodes) if n.get('id') is not None and i not in roots]
    if named and rng.random() < 0.35:
        roots.append(rng.choice(named))
    # identifier clash between distinct objects (rare stream)
    if rng.random() < 0.06 and len(named) >= 1:
        victim = rng.choice(named)
        others = [i for i, n in enumerate(g.nodes) if i != victim and i not in roots and n.get('id') != g.nodes[victim]['id']]
        if others:
            o = rng.choice(others)
            g.nodes[o]['id'] = g.nodes[victim]['id']
            g.flags.add('dup_id')
    order = list(range(len(roots)))
    rng.shuffle(order)
    ops = [[1 if rng.random() < 0.1 else 0, k] for k in order]
    if rng.random() < 0.2:
        ops.append([1 if rng.random() < 0.2 else 0, rng.choice(order)])
    if any(w == 1 for w, _ in ops):
        g.flags.add('two_storages')
    if rng.random() < 0.25:
        g.flags.add('query_first')
    return {'kind': 'store', 'nodes': g.nodes, 'roots': roots, 'ops': ops, 'backend': BACKENDS[idx % 3],
            'flags': sorted(g.flags)}


def _mutate_doc(x, rng, tag_of, applied):
    """spell a valid document differently: omit optional arguments that have their default value, use the short forms
    the constructors accept"""
    if isinstance(x, list):
        return [_mutate_doc(e, rng, tag_of, applied) for e in x]
    if not isinstance(x, dict):
        return x
    out = {}
    tag = tag_of.get(x.get('#type'), x.get('#type'))
    for k, v in x.items():
        if k == '#type':
            out[k] = tag
            continue
        if k in ('measurements', 'parameter_constraints') and v == [] and rng.random() < 0.7:
            applied.add('drop_empty' if rng.random() < 0.7 else 'null_list')
            if 'null_list' in applied and rng.random() < 0.5:
                out[k] = None
            continue
        if tag == 'Constant' and k == 'name' and v == 'constant_pulse' and rng.random() < 0.7:
            applied.add('drop_name')
            continue
        if tag == 'Function' and k == 'channel' and v == 'default' and rng.random() < 0.7:
            applied.add('drop_channel')
            continue
        if tag == 'ForLoop' and k == 'loop_range' and isinstance(v, list) and len(v) == 3 and v[2] == 1 and rng.random() < 0.8:
            applied.add('range_short')
            if v[0] == 0:
                out[k] = rng.choice([[v[1]], v[1], [0, v[1]]])
            else:
                out[k] = [v[0], v[1]]
            continue
        if k == 'entries' and isinstance(v, dict):
            out[k] = {c: [_mut_entry(e, rng, applied) for e in es] for c, es in v.items()}
            continue
        if k == 'time_point_tuple_list' and isinstance(v, list):
            out[k] = [_mut_entry(e, rng, applied) for e in v]
            continue
        out[k] = _mutate_doc(v, rng, tag_of, applied)
    return out


def _mut_entry(e, rng, applied):
    if isinstance(e, list) and len(e) == 3 and e[2] == 'hold':
        r = rng.random()
        if r < 0.4:
            applied.add('short_entry')
            return e[:2]
        if r < 0.7:
            applied.add('interp_default')
            return [e[0], e[1], 'default']
    return e


def gen_doc_case(rng, store_case):
    """documents produced by the implementation for a clean store case, re-spelled"""
    import json
    from qupulse.serialization import PulseStorage, DictBackend
    from props import c10
    tag_of = c10._tag_of_type()
    objs = build(store_case['nodes'])
    root = objs[store_case['roots'][0]]
    b = DictBackend()
    with warnings.catch_warnings():
        warnings.simplefilter('ignore')
        PulseStorage(b)[root.identifier] = root
    applied = set()
    docs = {k: _mutate_doc(json.loads(b[k]), rng, tag_of, applied) for k in sorted(b)}
    return {'kind': 'doc', 'docs': docs, 'load': root.identifier, 'mut': '+'.join(sorted(applied)) or 'none'}


SHAPES = [
    # shared leaf below two different parents
    [dict(k='Constant', dur='d', amps=[['A', 'a']], measurements=[['m', 0, 'd']]),
     dict(k='Repetition', body=0, count='n'), dict(k='TimeReversal', inner=0), dict(k='Sequence', subs=[1, 2, 0])],
    # mapping over a table inside a loop
    [dict(k='Table', entries=[['A', [[0, 'i'], ['d', 'v', 'linear']]]]),
     dict(k='Mapping', tmpl=0, pmap=[['v', 'w*2']], cmap=[['A', 'B']]),
     dict(k='ForLoop', body=1, idx='i', rng=[0, 'n', 1]), dict(k='Arithmetic', lhs={'pt': 2}, op='*', rhs='a')],
    # atomic composition
    [dict(k='Function', ex='a*t', dur=4, ch='A'), dict(k='Point', points=[[0, 'v'], [4, 1, 'linear']], chans=['B']),
     dict(k='AtomicMulti', subs=[0, 1], dur=4), dict(k='Parallel', tmpl=2, over=[['C', 'x']])],
]


def exhaustive_cases(tier):
    """every subset of identifiers on fixed 4-node shapes (root always named); thorough: all backends and both the
    root-only and the children-first store histories"""
    import copy
    out = []
    n = 0
    for si, shape in enumerate(SHAPES):
        for mask in range(8):
            nodes = copy.deepcopy(shape)
            for j in range(3):
                nodes[j]['id'] = ('e%d' % j) if mask >> j & 1 else None
            nodes[3]['id'] = 'root'
            named = [j for j in range(3) if mask >> j & 1]
            histories = [([3], [[0, 0]])]
            if tier != 'quick' and named:
                histories.append(([3] + named, [[0, k + 1] for k in range(len(named))] + [[0, 0]]))
            for roots, ops in histories:
                for b in (BACKENDS if tier != 'quick' else [BACKENDS[n % 3]]):
                    n += 1
                    out.append({'kind': 'store', 'nodes': copy.deepcopy(nodes), 'roots': roots, 'ops': ops, 'backend': b,
                                'flags': ['exhaustive']})
    return out


# ---------------------------------------------------------------------------------------------------------------------
# "declared as empty" vs "not declared": every optional constructor argument of every class with each empty value
_LEAF = dict(k='Table', entries=[['A', [[0, 'a'], [4, 'v', 'linear']]]], measurements=[['m', 0, 'd']])
_LEAF_I = dict(k='Table', entries=[['A', [[0, 'i'], [4, 'v', 'linear']]]])
_LEAF_B = dict(k='Constant', dur=4, amps=[['B', 'x']])
_LEAF_A2 = dict(k='Constant', dur=4, amps=[['A', 'w']], measurements=[['k', 0, 1]])
_PCM = [('parameter_constraints', []), ('parameter_constraints', None), ('measurements', []), ('measurements', None)]
_S = lambda *l: {'#set': list(l)}
_D = lambda *l: {'#dict': [list(e) for e in l]}


def _empty_variants():
    """(label, nodes) with the subject as last node; label = class:field=value"""
    out = []

    def add(label, *nodes):
        out.append((label, [dict(n) for n in nodes]))

    def xk(base, pairs, *pre):
        for f, v in pairs:
            add('%s:%s=%r' % (base['k'], f, v), *pre, dict(base, xkw={f: v}))
        add('%s:all-empty' % base['k'], *pre, dict(base, xkw={f: v for f, v in pairs if v is not None}))
        add('%s:all-None' % base['k'], *pre, dict(base, xkw={f: v for f, v in pairs if v is None}))
    xk(dict(k='Table', entries=[['A', [[0, 0], [4, 0, 'hold']]]]), _PCM)
    xk(dict(k='Point', points=[[0, 0], [4, 0, 'hold']], chans=['A']), _PCM)
    xk(dict(k='Function', ex=0, dur=4, ch='A'), _PCM)
    add('Function:channel=default', dict(k='Function', ex='a', dur='d', ch='default'))
    xk(dict(k='Constant', dur=4, amps=[['A', 0]]), [('name', None), ('measurements', []), ('measurements', None)])
    add('Constant:amp=0.0', dict(k='Constant', dur=4, amps=[['A', 0.0], ['B', 0]]))
    xk(dict(k='Sequence', subs=[0]), _PCM, _LEAF)
    xk(dict(k='Repetition', body=0, count=0), _PCM, _LEAF)
    add('Repetition:count=0.0', _LEAF, dict(k='Repetition', body=0, count=0.0))
    xk(dict(k='ForLoop', body=0, idx='i', rng=0), _PCM, _LEAF_I)
    for r in ([0], [0, 0], [0, 0, 1], ['n'], [0, 'n']):
        add('ForLoop:rng=%r' % (r,), _LEAF_I, dict(k='ForLoop', body=0, idx='i', rng=r))
    mp = [('parameter_mapping', _D()), ('parameter_mapping', None), ('measurement_mapping', _D()),
          ('measurement_mapping', None), ('channel_mapping', _D()), ('channel_mapping', None),
          ('parameter_constraints', []), ('parameter_constraints', None)]
    xk(dict(k='Mapping', tmpl=0), mp, _LEAF)
    add('Mapping:pmap-value=0', _LEAF, dict(k='Mapping', tmpl=0, pmap=[['a', 0], ['v', 0.0]]))
    add('Mapping:pmap-identity', _LEAF, dict(k='Mapping', tmpl=0, pmap=[['a', 'a']], mmap=[['m', 'm']], cmap=[['A', 'A']]))
    xk(dict(k='AtomicMulti', subs=[0, 1]), _PCM + [('duration', None), ('duration', False), ('duration', 0)], _LEAF, _LEAF_B)
    add('Parallel:over={}', _LEAF, dict(k='Parallel', tmpl=0, over=[]))
    add('Parallel:over-value=0', _LEAF, dict(k='Parallel', tmpl=0, over=[['B', 0], ['C', 0.0]]))
    for sc in (0, 0.0, {'map': []}, {'map': [['A', 0]]}):
        add('Arithmetic:scalar=%r' % (sc,), _LEAF, dict(k='Arithmetic', lhs={'pt': 0}, op='+', rhs=sc))
        add('Arithmetic:lhs-scalar=%r' % (sc,), _LEAF, dict(k='Arithmetic', lhs=sc, op='*', rhs={'pt': 0}))
    xk(dict(k='ArithmeticAtomic', lhs=0, rhs=1, op='+'), [('measurements', []), ('measurements', None)], _LEAF, _LEAF_A2)
    add('TimeReversal', _LEAF, dict(k='TimeReversal', inner=0))
    # AbstractPT: the cross product {not declared, declared empty, declared non-empty} of the three set properties
    vals = {'defined_channels': [None, _S(), _S('A')], 'parameter_names': [None, _S(), _S('a', 'd')],
            'measurement_names': [None, _S(), _S('m')]}
    for c in vals['defined_channels']:
        for pn in vals['parameter_names']:
            for mn in vals['measurement_names']:
                xkw = {k: v for k, v in (('defined_channels', c), ('parameter_names', pn), ('measurement_names', mn))
                       if v is not None}
                add('Abstract:%s' % ','.join('%s=%s' % (k[0], len(v['#set'])) for k, v in sorted(xkw.items())) or 'none',
                    dict(k='Abstract', xkw=xkw))
    for f, v in (('integral', _D()), ('integral', None), ('duration', 0), ('duration', None), ('duration', 0.0),
                 ('duration', False), ('duration', ''), ('duration', 'd'), ('integral', _D(['A', 0]))):
        add('Abstract:%s=%r' % (f, v), dict(k='Abstract', xkw={f: v}))
        add('Abstract:A,%s=%r' % (f, v), dict(k='Abstract', xkw={'defined_channels': _S('A'), f: v}))
    return out


def empties_cases(tier):
    """the subject stored (a) as a root of its own, (b) as a named child of a SequencePT together with an ordinary
    sibling (the parent's interface is the union over the children: a property lost by a child shows in the parent)"""
    import copy
    out = []
    variants = _empty_variants()
    for vi, (label, nodes) in enumerate(variants):
        for mode in ('root', 'child'):
            if tier == 'quick' and mode == 'child' and not label.startswith('Abstract') and vi % 3:
                continue
            ns = copy.deepcopy(nodes)
            for j, n in enumerate(ns[:-1]):
                n.setdefault('id', None)
            ns[-1]['id'] = 'subj'
            roots = [len(ns) - 1]
            if mode == 'child':
                ns.append(dict(_LEAF, id=None))
                ns.append(dict(k='Sequence', id='top', subs=[len(ns) - 2, len(ns) - 1]))
                roots = [len(ns) - 1]
            try:
                build(ns)
            except Exception:   # noqa  the constructor rejects this combination
                continue
            out.append({'kind': 'store', 'nodes': ns, 'roots': roots, 'ops': [[0, 0]], 'backend': BACKENDS[len(out) % 3],
                        'flags': ['empties', 'empty:' + label.split(':')[0]], 'label': label + '/' + mode})
    return out


# ---------------------------------------------------------------------------------------------------------------------
# histories on ONE PulseStorage: overwrite of the same / another object, deletion, re-store, link_to / unlink between stores
def _named_desc(nodes, root):
    """node indices of named proper descendants of root, with the number of named nodes strictly between"""
    from props import c10
    out = []

    def walk(i, between):
        for c in c10._node_children(nodes[i]):
            if nodes[c].get('id') is not None:
                out.append((c, between))
                walk(c, between + 1)
            else:
                walk(c, between)
    walk(root, 0)
    return out


def _subtree(nodes, root):
    from props import c10
    seen, todo = set(), [root]
    while todo:
        i = todo.pop()
        if i not in seen:
            seen.add(i)
            todo.extend(c10._node_children(nodes[i]))
    return seen


HIST_FAMILIES = ['over_same', 'del_child_over', 'del_child_store', 'del_root_restore', 'del_all_restore', 'replace_after_del',
                 'over_other', 'store_other', 'link_over', 'link_store', 'link_first', 'link_plain', 'unlink_over',
                 'child_first_del', 'random', 'random', 'random']


def gen_hist_case(rng, idx, tier, family=None):
    fam = family or HIST_FAMILIES[idx % len(HIST_FAMILIES)]
    int_mode = rng.random() < 0.05
    g = Gen(rng, int_mode=int_mode, p_named=rng.choice([0.5, 0.7, 0.9]), abstract=rng.random() < 0.1,
            numeric=rng.random() < 0.15)
    pool = rng.choice([[0, 1], [1]]) if int_mode else rng.choice([['A'], ['A', 'B'], ['A', 'B'], ['out']])
    flags = {'hist', 'hist:' + fam}
    if int_mode:
        flags.add('int_key')
    depth = rng.choice([1, 2, 2, 3])
    hops = []
    if fam.startswith('link') or fam == 'unlink_over':
        chans = list(pool)
        node = dict(k='Abstract', id=g.fresh_id())
        decl = rng.choice(['all', 'some', 'none', 'empty'])
        if decl in ('all', 'some'):
            node['defined_channels'] = chans
        if decl == 'all':
            node['xkw'] = {'measurement_names': {'#set': []}}
            if rng.random() < 0.5:
                node['parameter_names'] = ['a', 'd']
        if decl == 'empty':
            node['xkw'] = {'parameter_names': {'#set': []}, 'measurement_names': {'#set': []}}
        a = g.add(node, chans, False, None)
        t = g.tree(pool, depth, force_id=rng.random() < 0.4)
        while g.nodes[t]['k'] == 'Abstract':
            t = g.tree(pool, depth)
        if a in _subtree(g.nodes, t):
            raise ValueError('the target contains the placeholder')
        roots = [a]
        ser = fam != 'link_plain'
        if fam == 'link_over':
            hops = [['store', 0], ['link', 0, t, ser], ['over', 0]]
        elif fam == 'link_store':
            hops = [['store', 0], ['link', 0, t, ser], ['store', 0]]
        elif fam == 'link_first':
            hops = [['link', 0, t, ser], [rng.choice(['store', 'over']), 0]]
        elif fam == 'link_plain':
            hops = [['store', 0], ['link', 0, t, False], ['over', 0]]
        else:
            hops = [['store', 0], ['link', 0, t, True], ['over', 0], ['unlink', 0], [rng.choice(['over', 'store']), 0]]
        if rng.random() < 0.3:
            hops.append(['over', 0])
    else:
        r = g.tree(pool, depth, force_id=True)
        roots = [r]
        desc = _named_desc(g.nodes, r)
        ident = lambda i: g.nodes[i]['id']
        if fam == 'over_same':
            hops = [['store', 0], ['over', 0]] + ([['over', 0]] if rng.random() < 0.3 else [])
        elif fam in ('del_child_over', 'del_child_store'):
            if not desc:
                c = g.atomic(pool, g.dur(), 0, force_id=True)
                r = g.add(dict(k='Sequence', id=g.fresh_id(), subs=[r, c, c]), pool, False, None)
                roots = [r]
                desc = _named_desc(g.nodes, r)
            c, between = rng.choice(desc)
            if between:
                flags.add('del_below_cached')
            hops = [['store', 0], ['del', ident(c)], ['over' if fam == 'del_child_over' else 'store', 0]]
            if rng.random() < 0.3:
                hops.append(['over', 0])
        elif fam == 'del_root_restore':
            hops = [['store', 0], ['del', ident(r)], [rng.choice(['store', 'over']), 0]]
        elif fam == 'del_all_restore':
            ids = []
            for c, _ in desc:
                if ident(c) not in ids:
                    ids.append(ident(c))
            rng.shuffle(ids)
            hops = [['store', 0]] + [['del', i] for i in ids + [ident(r)]] + [['store', 0]]
            if rng.random() < 0.4:      # delete something twice / something that never existed
                hops.insert(2, ['del', rng.choice(ids + [ident(r), 'nope'])])
        elif fam in ('replace_after_del', 'over_other', 'store_other'):
            r2 = g.tree(pool, rng.choice([1, 2]), force_id=True)
            if r2 == r or any(g.nodes[i].get('id') == ident(r) for i in _subtree(g.nodes, r2)):
                raise ValueError('the replacement contains the replaced object')
            g.nodes[r2]['id'] = ident(r)
            roots = [r, r2]
            flags.add('same_id_other_object')
            if fam == 'replace_after_del':
                hops = [['store', 0], ['del', ident(r)], [rng.choice(['store', 'over']), 1]]
            elif fam == 'over_other':
                hops = [['store', 0], ['over', 1]] + ([['over', 0]] if rng.random() < 0.3 else [])
                if rng.random() < 0.6:      # the replacement is then used below a new parent: it must be the cached object now
                    which = 0 if len(hops) == 3 else 1
                    par = g.add(dict(k='Sequence', id=g.fresh_id(), subs=[roots[which], roots[which]]), pool, False, None)
                    roots.append(par)
                    hops.append([rng.choice(['store', 'over']), 2])
            else:
                hops = [['store', 0], ['store', 1]]
        elif fam == 'child_first_del':
            if not desc:
                c = g.atomic(pool, g.dur(), 0, force_id=True)
                r = g.add(dict(k='Repetition', id=g.fresh_id(), body=c, count='n'), pool, False, None)
                desc = _named_desc(g.nodes, r)
            c, _ = rng.choice(desc)
            roots = [r, c]
            hops = [['store', 1], ['store', 0], ['del', ident(c)], [rng.choice(['store', 'over']), rng.choice([0, 1])]]
            if rng.random() < 0.5:
                hops.append([rng.choice(['store', 'over']), 0])
        else:   # random
            roots = [r]
            if rng.random() < 0.5:
                roots.append(g.tree(pool, rng.choice([1, 2]), force_id=True))
            for c, _ in desc[:]:
                if rng.random() < 0.4 and c not in roots:
                    roots.append(c)
            ids = sorted({g.nodes[i]['id'] for i in range(len(g.nodes)) if g.nodes[i].get('id') is not None})
            for _ in range(rng.randint(3, 8)):
                x = rng.random()
                if x < 0.35:
                    hops.append(['store', rng.randrange(len(roots))])
                elif x < 0.65:
                    hops.append(['over', rng.randrange(len(roots))])
                else:
                    hops.append(['del', rng.choice(ids)])
            if hops[0][0] == 'del':
                hops.insert(0, ['store', 0])
    build(g.nodes)
    return {'kind': 'hist', 'nodes': g.nodes, 'roots': roots, 'hops': hops, 'backend': BACKENDS[idx % 3],
            'flags': sorted(flags)}


# the two histories of seed C10-4 and their neighbours on fixed small forests (always run, every backend in thorough)
def fixed_hist_cases(tier):
    import copy
    ramp = dict(k='Table', id='ramp', entries=[['A', [[0, 0], ['d', 'v', 'linear']]]], measurements=[['m', 0, 'd']])
    rep = dict(k='Repetition', id=None, body=0, count='n')
    scan = dict(k='Sequence', id='scan', subs=[1, 0])
    mid = dict(k='Repetition', id='mid', body=0, count='n')
    top = dict(k='Sequence', id='top', subs=[1])
    absr = dict(k='Abstract', id='readout', defined_channels=['A'], parameter_names=['d'])
    impl = dict(k='Table', id=None, entries=[['A', [[0, 0.5], ['d', 0.5, 'hold']]]], measurements=[['k', 0, 'd']])
    impl_named = dict(impl, id='impl')
    out = []
    specs = [
        ('seed4_del_child_over', [ramp, rep, scan], [2], [['store', 0], ['del', 'ramp'], ['over', 0]]),
        ('del_child_store_noop', [ramp, rep, scan], [2], [['store', 0], ['del', 'ramp'], ['store', 0]]),
        ('del_grandchild_over', [ramp, mid, top], [2], [['store', 0], ['del', 'ramp'], ['over', 0]]),
        ('del_grandchild_del_mid_over', [ramp, mid, top], [2], [['store', 0], ['del', 'ramp'], ['del', 'mid'], ['over', 0]]),
        ('del_parent_keep_child', [ramp, rep, scan], [2, 0], [['store', 0], ['del', 'scan'], ['store', 1], ['store', 0]]),
        ('seed4_link_over', [absr, impl], [0], [['store', 0], ['link', 0, 1, True], ['over', 0]]),
        ('link_named_over', [absr, impl_named], [0], [['store', 0], ['link', 0, 1, True], ['over', 0]]),
        ('link_store_noop', [absr, impl], [0], [['store', 0], ['link', 0, 1, True], ['store', 0]]),
        ('link_plain_over', [absr, impl], [0], [['store', 0], ['link', 0, 1, False], ['over', 0]]),
        ('link_unlink', [absr, impl], [0], [['store', 0], ['link', 0, 1, True], ['over', 0], ['unlink', 0], ['over', 0]]),
        ('over_twice', [ramp, rep, scan], [2], [['store', 0], ['over', 0], ['over', 0]]),
        ('over_other_then_parent', [ramp, dict(impl, id='ramp'), dict(k='Sequence', id='par', subs=[1, 1])], [0, 1, 2],
         [['store', 0], ['over', 1], ['store', 2]]),
        ('del_absent', [ramp, rep, scan], [2], [['del', 'scan'], ['store', 0], ['del', 'nope'], ['del', 'ramp'], ['del', 'ramp']]),
    ]
    for name, nodes, roots, hops in specs:
        for b in (BACKENDS if tier != 'quick' else [BACKENDS[len(out) % 3]]):
            out.append({'kind': 'hist', 'nodes': copy.deepcopy(nodes), 'roots': roots, 'hops': hops, 'backend': b,
                        'flags': ['hist', 'hist:fixed', 'fixed:' + name]})
    return out


def gen_cases(rng, tier, n_store=None, n_doc=None):
    if n_store is None:
        n_store = 230 if tier == 'quick' else 3000
    cases = []
    tries = 0
    while len(cases) < n_store and tries < n_store * 4:
        tries += 1
        try:
            cases.append(gen_store_case(rng, len(cases), tier))
        except Exception:   # noqa  generator produced an invalid template (rejected by a constructor): skip
            continue
    if n_doc is None:
        n_doc = 60 if tier == 'quick' else 800
    docs = []
    for c in cases:
        if len(docs) >= n_doc:
            break
        if {'int_key', 'dup_id'} & set(c['flags']):
            continue
        try:
            docs.append(gen_doc_case(rng, c))
        except Exception:   # noqa
            continue
    if n_doc == 0:      # search_failing: store cases only
        return cases
    hist = list(fixed_hist_cases(tier))
    n_hist = 85 if tier == 'quick' else 1200
    tries = 0
    while len(hist) < n_hist + len(fixed_hist_cases(tier)) and tries < n_hist * 6:
        tries += 1
        try:
            hist.append(gen_hist_case(rng, len(hist), tier))
        except Exception:   # noqa  invalid template / degenerate history: skip
            continue
    from props import c10_ord
    r4 = c10_ord.round4_cases(tier) + c10_ord.round5_cases(tier) + c10_ord.round6_cases(tier)
    # the declared duration of the model against the code's, for the clean random forests and the order family
    n_dur = 45 if tier == 'quick' else 800
    durs = [{'kind': 'dur', 'nodes': c['nodes'], 'roots': c['roots'], 'flags': ['dur']}
            for c in cases if not ({'int_key', 'dup_id'} & set(c['flags']))][:n_dur]
    durs += [{'kind': 'dur', 'nodes': c['nodes'], 'roots': c['roots'], 'flags': ['dur']}
             for c in r4 if 'order' in c['flags']][::(3 if tier == 'quick' else 1)]
    return (cases + docs + exhaustive_cases(tier) + empties_cases(tier) + r4 + durs + hist)
